"""C12 - taproot outputs commit to exactly their key and script tree.

Reference-model monitor: ``rv.ref.taproot`` (BIP341's published reference
functions and its control-block validation rule over ``rv.ref.ec``; self-tested
on the BIP341 wallet vectors on every run) against ``btclib.script.taproot``:

* E1  output_pubkey / output_pubkey_from_merkle_root / ScriptPubKey.p2tr == the
      BIP341 tweak of the internal key by the tree's merkle root, parity included;
* E2  output_prvkey / output_prvkey_from_merkle_root generate that output key
      (compared with the reference tweaked scalar, itself checked to multiply G
      to the reference output point);
* E3  every leaf: the (script, control block) of input_script_sig proves the leaf
      (reference verifier) and check_output_pubkey / the engine's
      taproot_unwrap_script accept it;
* E4  every single-bit alteration of control block (parity, leaf version,
      internal key, path), leaf script and output key, and every length
      alteration of the control block: check_output_pubkey must not answer True;
* E5  an internal key that is no x-coordinate (any spelling) and a tweak >= n
      (fault injection on ``tagged_hash`` inside taproot.py) must be refused;
* E6  TrDescriptor merkle root / script / leaf scripts and BIP86 addresses
      against the same reference.

Both arithmetic arms (bindings / pure Python) run every monitor.
"""

from __future__ import annotations

import json
import os
import sys
from collections import Counter

from ..ctx import Ctx, is_lib_exc, outcome
from ..hooks import Reach, backend_available, patched, set_backend
from ..ref import bech32 as r32
from ..ref import bip32 as rb
from ..ref import taproot as rt

PROPERTY = "C12"
RULE = (
    "internal keys: boundary and random scalars d and n-d (both y parities) in every accepted spelling (02/03 compressed, "
    "uncompressed, hex, point tuple, xpub string/data, int/bytes/hex/WIF/xprv private) plus x-only for the *_from_merkle_root "
    "pair and the NUMS fallback; trees: single leaf, balanced depth 1..5 (thorough 8), left/right/zigzag chains to depth 8 "
    "(thorough 128), random unbalanced, repeated leaves and duplicated subtrees (equal siblings), leaf versions 0xc0, other "
    "even and odd, leaf scripts of 0 bytes..100 KiB around the compact-size and push boundaries and OP_SUCCESS raw tails; "
    "every leaf index of every tree on both arms; for chosen leaves every single bit of control block, script and output key "
    "(all bits up to 2 KiB, sampled beyond) plus every control-block length alteration of 1..33 bytes; invalid internal keys "
    "(non-residue x, x >= p, off-curve y) in every spelling; injected tweaks n-1, n, n+1, 2^256-1. A case is distinct by "
    "(internal key, merkle root, spelling); every case is compared with an independently computed reference (non-trivial)."
)
ASSUMPTIONS = [
    "rv/ref/taproot.py (BIP341 reference functions and validation rule over rv/ref/ec.py affine arithmetic) is the "
    "specification; it reproduces all BIP341 wallet vectors (scriptPubKey and keyPathSpending sections) on every run",
    "an odd leaf version is read as version & 0xfe (the only value a control block can carry); a refusal of it is accepted too",
    "SHA256 collisions and tweaks >= n do not occur by chance (probability below 2^-127 per case)",
    "rv/ref/bip32.py and rv/ref/bech32.py (C07/C06 oracles) are used for the BIP86 and descriptor rows; the BIP86 published "
    "vectors are re-derived through them as a self-test",
]
VEC = os.path.join(os.path.dirname(os.path.dirname(os.path.dirname(os.path.abspath(__file__)))), "vectors")

MECH = [
    "btclib.script.taproot:leaf_hash", "btclib.script.taproot:tree_helper", "btclib.script.taproot:_tree_helper",
    "btclib.script.taproot:_tap_tweak", "btclib.script.taproot:_output_pubkey_and_internal_key",
    "btclib.script.taproot:output_pubkey", "btclib.script.taproot:_tweaked_pubkey",
    "btclib.script.taproot:output_pubkey_from_merkle_root", "btclib.script.taproot:output_prvkey",
    "btclib.script.taproot:_tweaked_prvkey", "btclib.script.taproot:output_prvkey_from_merkle_root",
    "btclib.script.taproot:input_script_sig", "btclib.script.taproot:check_output_pubkey",
    "btclib.script.taproot:assert_valid_control_block", "btclib.script.engine:taproot_unwrap_script",
    "btclib.descriptors.descriptors:TrDescriptor._scripts", "btclib.descriptors.descriptors:TrDescriptor._leaf",
    "btclib.descriptors.descriptors:TrDescriptor.taproot_merkle_root", "btclib.descriptors.descriptors:_taproot_script_tree",
    "btclib.bip44:_p2tr",
]

N = rt.N
P_FIELD = rt.P_FIELD
PUB_KINDS = ["sec-compressed", "sec-compressed-hex", "sec-compressed-other-prefix", "sec-uncompressed", "sec-uncompressed-hex",
             "sec-uncompressed-negated", "point", "point-negated", "xpub-str", "xpub-data", "prepared-point"]
PRV_KINDS = ["prv-int", "prv-bytes", "prv-hex", "wif-compressed", "wif-uncompressed", "xprv-str", "xprv-data"]
EVEN_VERSIONS = [0xC2, 0xC4, 0x00, 0x02, 0x66, 0x7E, 0x80, 0xBE, 0xFE, 0x50, 0x52]
ODD_VERSIONS = [0xC1, 0x01, 0xFF, 0x51, 0xC3]
SIZE_POINTS = [0, 1, 75, 76, 252, 253, 254, 255, 256, 520, 521, 2047, 2048, 2049, 65535, 65536, 100000]


# ------------------------------------------------------------------- plan
def plan(tier: str, seed: int) -> list[dict]:
    q = tier == "quick"
    specs = []
    parts = 10 if q else 14
    for i in range(parts):
        specs.append({"name": f"trees-{i}", "fn": "shard_trees", "part": i, "parts": parts,
                      "_budget_s": 300 if q else 1300, "_timeout_s": 900 if q else 3000})
    kparts = 3 if q else 5
    for i in range(kparts):
        specs.append({"name": f"keys-{i}", "fn": "shard_keys", "part": i, "keys": 300 if q else 1500,
                      "_budget_s": 300 if q else 1300, "_timeout_s": 900 if q else 3000})
    specs.append({"name": "inject", "fn": "shard_inject", "cases": 1000 if q else 8000,
                  "_budget_s": 300 if q else 1300, "_timeout_s": 900 if q else 3000})
    for i in range(2 if q else 4):
        specs.append({"name": f"descr-{i}", "fn": "shard_descr", "part": i, "cases": 160 if q else 1000,
                      "_budget_s": 300 if q else 1300, "_timeout_s": 900 if q else 3000})
    return specs


def finalize(m: dict, tier: str) -> list[str]:
    out = []
    c, mon, a, r, st = m["classes"], m["monitors"], m["arms"], m["reached"], m["selftest"]
    if not st.get("bip341-wallet-vectors"):
        out.append("BIP341 reference self-test did not run")
    if not st.get("bip86-vectors"):
        out.append("BIP86 reference self-test did not run")
    # the two conditions the design names
    for k in ("sibling-order:lt", "sibling-order:gt", "sibling-order:eq"):
        if not mon.get(k):
            out.append(f"no tree had a sibling pair in order {k.split(':')[1]}")
    for k in ("output-parity:0", "output-parity:1", "internal-key-y:even", "internal-key-y:odd",
              "prvkey:negated", "prvkey:not-negated"):
        if not mon.get(k):
            out.append(f"no case with {k}")
    arms = ["bindings", "python"] if backend_available() else ["python"]
    if not backend_available():
        out.append("btclib_secp256k1 bindings not installed: bindings arm unobserved")
    for arm in arms:
        for k in ("E1:output-key", "E2:prvkey", "E3:control-proves", "E3:engine-unwrap", "E4:flip:control:parity",
                  "E4:flip:control:leaf-version", "E4:flip:control:internal-key", "E4:flip:control:path", "E4:flip:script",
                  "E4:flip:output-key", "E4:length", "E5:invalid-key-refused", "E5:tweak-out-of-range-refused",
                  "E1:from-merkle-root", "E2:from-merkle-root", "E6:descriptor-root", "E6:bip86"):
            if not mon.get(f"{k}:{arm}"):
                out.append(f"monitor {k} never evaluated on the {arm} arm")
        for f in ("_tweaked_pubkey", "_tweaked_prvkey", "check_output_pubkey"):
            if not a.get(f"{f}:{arm}"):
                out.append(f"{f} never served by the {arm} arm")
    for k in (["tree:single", "tree:balanced", "tree:left-chain", "tree:right-chain", "tree:zigzag", "tree:random",
               "tree:repeated-all", "tree:duplicated-subtree", "tree:sizes", "tree:versions", "tree:none", "tree:nums-internal-key",
               "version:0xc0", "version:other-even", "version:odd", "script:empty", "script:op-success", "script:>=253",
               "script:>=65536", "depth:8", "invalid-key:x-not-on-curve", "invalid-key:x>=p", "invalid-key:x>=p-residue-mod-p",
               "invalid-key:y-off-curve", "invalid-key:control-block", "invalid-key:x-only", "inject:t>=n", "inject:t==n",
               "inject:t==n-1", "descr:pk-leaf", "descr:multi_a-leaf", "descr:key-only", "descr:ranged", "bip86:address"]
              + [f"spelling:{k}" for k in PUB_KINDS + PRV_KINDS + ["x-only", "x-only-hex"]]
              + ["depth:128"] + (["tree:balanced-deep"] if tier == "thorough" else [])):
        if not c.get(k):
            out.append(f"input class {k} never evaluated")
    for f in ("leaf_hash", "tree_helper", "_tree_helper", "_tap_tweak", "_output_pubkey_and_internal_key", "output_pubkey",
              "_tweaked_pubkey", "output_pubkey_from_merkle_root", "output_prvkey", "_tweaked_prvkey",
              "output_prvkey_from_merkle_root", "input_script_sig", "check_output_pubkey", "taproot_unwrap_script",
              "TrDescriptor._scripts", "TrDescriptor._leaf", "TrDescriptor.taproot_merkle_root", "_p2tr"):
        if not r.get(f):
            out.append(f"mechanism {f} never entered")
    return out


# ---------------------------------------------------------------- plumbing
class Env:
    """What a shard needs of the library, imported inside the shard."""

    def __init__(self, ctx: Ctx):
        from btclib import bip44
        from btclib.bip32 import BIP32KeyData
        from btclib.curves.curve import PreparedPoint, secp256k1
        from btclib.descriptors import descriptors
        from btclib.script import taproot as T
        from btclib.script.engine import taproot_unwrap_script
        from btclib.script.script_pub_key import ScriptPubKey

        self.ctx = ctx
        self.T, self.bip44, self.D = T, bip44, descriptors
        self.BIP32KeyData, self.PreparedPoint, self.secp256k1 = BIP32KeyData, PreparedPoint, secp256k1
        self.unwrap, self.ScriptPubKey = taproot_unwrap_script, ScriptPubKey
        self.arms = [True, False] if backend_available() else [None]
        self.reach = Reach()
        for d in MECH:
            self.reach.watch_path(d)
        self.reach.start()
        # which arithmetic answered, per asking function of taproot.py
        orig = T._libsecp256k1_serves

        def serves(ec, hf):
            r = orig(ec, hf)
            ctx.arms[f"{sys._getframe(1).f_code.co_name}:{'bindings' if r else 'python'}"] += 1
            return r

        T._libsecp256k1_serves = serves

    def close(self):
        self.reach.stop()
        self.reach.report(self.ctx)
        if backend_available():
            set_backend(True)

    @staticmethod
    def armtag(arm) -> str:
        return "bindings" if arm else "python"

    def use(self, arm):
        if arm is not None:
            set_backend(arm)


def _selftest(ctx: Ctx) -> bool:
    try:
        with open(os.path.join(VEC, "taproot_test_vector.json")) as f:
            vec = json.load(f)
        ok, bad = rt.selftest(vec)
    except Exception as e:  # noqa: BLE001 - a broken oracle is inconclusive, whatever broke it
        ctx.oracle_broken("bip341-wallet-vectors", repr(e))
        return False
    if bad:
        ctx.oracle_broken("bip341-wallet-vectors", "; ".join(bad[:4]))
        return False
    ctx.oracle_ok("bip341-wallet-vectors", ok)
    return True


def _selftest_bip86(ctx: Ctx) -> bool:
    try:
        with open(os.path.join(VEC, "bip44_family_vectors.json")) as f:
            vecs = [v for v in json.load(f)["vectors"] if v["path"].startswith("m/86h")]
        n = 0
        for v in vecs:
            path = [rb.h(int(s[:-1])) if s.endswith("h") else int(s) for s in v["path"].split("/")[1:]]
            node = rb.derive(rb.decode(v["master"]), path)
            if _ref_bip86_address(rb.xkey_pubkey(node), "bc") != v["address"]:
                ctx.oracle_broken("bip86-vectors", v["path"])
                return False
            n += 1
        if not n:
            ctx.oracle_broken("bip86-vectors", "no BIP86 vector found")
            return False
    except Exception as e:  # noqa: BLE001
        ctx.oracle_broken("bip86-vectors", repr(e))
        return False
    ctx.oracle_ok("bip86-vectors", n)
    return True


def _ref_bip86_address(pub33: bytes, hrp: str) -> str:
    _, q = rt.taproot_tweak_pubkey(pub33[1:], b"")
    return r32.segwit_encode(hrp, 1, q)


# -------------------------------------------------------------------- keys
class RefKey:
    """A private scalar with its reference point (10 ms of double-and-add, done once)."""

    def __init__(self, d: int):
        self.d = d
        self.P = rt.point_mul(d)
        self.x = self.P[0].to_bytes(32, "big")
        self.odd = self.P[1] & 1

    def sec(self, compressed=True, negated=False) -> bytes:
        y = (P_FIELD - self.P[1]) if negated else self.P[1]
        if compressed:
            return bytes([2 + (y & 1)]) + self.x
        return b"\x04" + self.x + y.to_bytes(32, "big")


def _key_pool(rng, count: int) -> list[RefKey]:
    ds = [1, 2, 3, N - 1, N - 2, (N - 1) // 2, (N + 1) // 2, 1 << 255, (1 << 128) - 1]
    while len(ds) < count:
        d = rng.randrange(1, N)
        ds += [d, N - d]  # the same x with the other y: both parities of the internal key
    rng.shuffle(ds)
    return [RefKey(d) for d in ds[:count]]


def _spell(env: Env, rng, kind: str, k: RefKey):
    """The library-side spelling ``kind`` of key ``k`` (public kinds name the point, private kinds the scalar)."""
    if kind == "sec-compressed":
        return k.sec()
    if kind == "sec-compressed-hex":
        h = k.sec().hex()
        return h.upper() if rng.random() < 0.3 else h
    if kind == "sec-compressed-other-prefix":  # the opposite point: the same x-only key
        return k.sec(negated=True)
    if kind == "sec-uncompressed":
        return k.sec(False)
    if kind == "sec-uncompressed-hex":
        return k.sec(False).hex()
    if kind == "sec-uncompressed-negated":
        return k.sec(False, True)
    if kind == "point":
        return (k.P[0], k.P[1])
    if kind == "point-negated":
        return (k.P[0], P_FIELD - k.P[1])
    if kind == "prepared-point":
        return env.PreparedPoint((k.P[0], k.P[1]), env.secp256k1)
    if kind in ("xpub-str", "xpub-data"):
        x = rb.XKey(rb.VERSIONS[("main", "p2pkh")][1], 3, bytes(rng.randrange(256) for _ in range(4)), rng.randrange(1 << 31),
                    bytes(rng.randrange(256) for _ in range(32)), k.sec())
        return x.b58() if kind == "xpub-str" else env.BIP32KeyData.b58decode(x.b58())
    if kind == "prv-int":
        return k.d
    if kind == "prv-bytes":
        return k.d.to_bytes(32, "big")
    if kind == "prv-hex":
        return k.d.to_bytes(32, "big").hex()
    if kind == "wif-compressed":
        return rb.b58check_encode(b"\x80" + k.d.to_bytes(32, "big") + b"\x01")
    if kind == "wif-uncompressed":
        return rb.b58check_encode(b"\x80" + k.d.to_bytes(32, "big"))
    if kind in ("xprv-str", "xprv-data"):
        x = rb.XKey(rb.VERSIONS[("main", "p2pkh")][0], 2, bytes(rng.randrange(256) for _ in range(4)), rng.randrange(1 << 32),
                    bytes(rng.randrange(256) for _ in range(32)), b"\x00" + k.d.to_bytes(32, "big"))
        return x.b58() if kind == "xprv-str" else env.BIP32KeyData.b58decode(x.b58())
    raise ValueError(kind)


# ------------------------------------------------------------------ trees
# neutral trees: ("L", version, items) | ("B", left, right); items as rv.ref.taproot.script_bytes takes them
OPS = sorted(rt.OPCODES)


def _rand_bytes(rng, n: int) -> bytes:
    return rng.getrandbits(8 * n).to_bytes(n, "big") if n else b""


def _script_of_size(rng, size: int):
    """Items serializing to exactly ``size`` bytes: 520-byte pushes, then OP_NOPs."""
    items, left = [], size
    while left >= 523:
        items.append(("data", _rand_bytes(rng, 520)))
        left -= 523
    if left >= 40:
        n = left - 3 if left - 3 > 255 else (left - 2 if left - 2 > 75 else left - 1)
        if len(rt.push(bytes(n))) == left:
            items.append(("data", _rand_bytes(rng, n)))
            left = 0
    items += [("op", "OP_NOP")] * left
    assert len(rt.script_bytes(items)) == size, size
    return items


def _gen_script(rng, klass: str | None = None):
    klass = klass or rng.choice(["pk", "pk", "pk", "ops", "mixed", "mixed", "empty", "success", "medium"])
    if klass == "pk":
        return [("data", _rand_bytes(rng, 32)), ("op", "OP_CHECKSIG")]
    if klass == "ops":
        return [("op", rng.choice(OPS)) for _ in range(rng.randrange(1, 8))]
    if klass == "empty":
        return []
    if klass == "success":
        head = [("op", rng.choice(OPS)) for _ in range(rng.randrange(0, 3))]
        return head + [("success", rng.choice(sorted(rt.OP_SUCCESS)), _rand_bytes(rng, rng.choice([0, 1, 5, 40, 300])))]
    if klass == "medium":
        return _script_of_size(rng, rng.choice([252, 253, 254, 300, 600, 1100]))
    items = []
    for _ in range(rng.randrange(1, 7)):
        if rng.random() < 0.5:
            items.append(("op", rng.choice(OPS)))
        else:
            items.append(("data", _rand_bytes(rng, rng.choice([0, 1, 2, 20, 32, 33, 75, 76, 77, 255, 256, 520]))))
    return items


def _gen_version(rng, mode: str = "mostly-c0") -> int:
    if mode == "c0":
        return 0xC0
    r = rng.random()
    if mode == "mostly-c0":
        if r < 0.8:
            return 0xC0
        return rng.choice(EVEN_VERSIONS) if r < 0.93 else rng.choice(ODD_VERSIONS)
    return rng.choice(EVEN_VERSIONS) if r < 0.6 else rng.choice(ODD_VERSIONS)  # mode "other"


def _leaf(rng, vmode="mostly-c0", klass=None):
    return ("L", _gen_version(rng, vmode), _gen_script(rng, klass))


def _build(shape: str, param, rng):
    """A neutral tree of the named shape."""
    if shape == "single":
        return _leaf(rng)
    if shape in ("balanced", "balanced-deep"):
        def bal(d):
            return _leaf(rng) if d == 0 else ("B", bal(d - 1), bal(d - 1))
        return bal(param)
    if shape == "left-chain":
        t = _leaf(rng)
        for _ in range(param):
            t = ("B", t, _leaf(rng))
        return t
    if shape == "right-chain":
        t = _leaf(rng)
        for _ in range(param):
            t = ("B", _leaf(rng), t)
        return t
    if shape == "zigzag":
        t = _leaf(rng)
        for i in range(param):
            t = ("B", t, _leaf(rng)) if i % 2 else ("B", _leaf(rng), t)
        return t
    if shape == "random":
        def rnd(d):
            if d == 0 or rng.random() < 0.28:
                return _leaf(rng)
            return ("B", rnd(d - 1), rnd(d - 1))
        return ("B", rnd(param - 1), rnd(param - 1))
    if shape == "repeated-all":  # one leaf everywhere: every sibling pair compares equal
        kind, d = param
        one = _leaf(rng)
        if kind == "balanced":
            def bal(d):
                return one if d == 0 else ("B", bal(d - 1), bal(d - 1))
            return bal(d)
        t = one
        for _ in range(d):
            t = ("B", t, one) if kind == "left" else ("B", one, t)
        return t
    if shape == "duplicated-subtree":  # a subtree and its copy as siblings, somewhere below the root
        sub = _build("random", param, rng)
        pair = ("B", sub, sub)
        return ("B", pair, _leaf(rng)) if rng.random() < 0.5 else ("B", _leaf(rng), ("B", _leaf(rng), pair))
    if shape == "sizes":
        big = ("L", 0xC0, _script_of_size(rng, param))
        r = rng.random()
        if r < 0.4:
            return big
        return ("B", big, _leaf(rng)) if r < 0.7 else ("B", _leaf(rng), ("B", big, _leaf(rng)))
    if shape == "versions":
        def rnd(d):
            if d == 0 or rng.random() < 0.35:
                return _leaf(rng, "other")
            return ("B", rnd(d - 1), rnd(d - 1))
        return rnd(param)
    raise ValueError(shape)


def _to_ref(t):
    return (t[1], rt.script_bytes(t[2])) if t[0] == "L" else [_to_ref(t[1]), _to_ref(t[2])]


def _lib_script(items, rng):
    out = []
    for it in items:
        if it[0] == "op":
            out.append(it[1] if rng.random() < 0.9 else it[1].lower())
        elif it[0] == "data":
            r = rng.random()
            out.append(it[1] if r < 0.5 or not it[1] else (it[1].hex() if r < 0.8 else it[1].hex().upper()))
        else:
            out += [f"OP_SUCCESS{it[1]}", it[2]]
    return out


def _to_lib(t, rng):
    return [(t[1], _lib_script(t[2], rng))] if t[0] == "L" else [_to_lib(t[1], rng), _to_lib(t[2], rng)]


def _depths(t, d=0, out=None):
    out = [] if out is None else out
    if t[0] == "L":
        out.append(d)
    else:
        _depths(t[1], d + 1, out)
        _depths(t[2], d + 1, out)
    return out


def _shape_list(tier: str) -> list[tuple]:
    q = tier == "quick"
    k = 1 if q else 5
    L: list[tuple] = []
    L += [("single", None)] * (40 * k)
    for d, n in ((1, 36), (2, 28), (3, 18), (4, 10), (5, 5)):
        L += [("balanced", d)] * (n * k)
    for d in range(1, 9):
        L += [("left-chain", d)] * (7 * k) + [("right-chain", d)] * (7 * k)
    for d in range(2, 9):
        L += [("zigzag", d)] * (4 * k)
    L += [("random", 6)] * (100 * k) + [("random", 4)] * (40 * k)
    for d in range(1, 5):
        L += [("repeated-all", ("balanced", d))] * (4 * k)
    for d in range(1, 9):
        L += [("repeated-all", ("left", d)), ("repeated-all", ("right", d))] * k
    L += [("duplicated-subtree", 3)] * (24 * k)
    for s in SIZE_POINTS:
        L += [("sizes", s)] * (2 * k)
    L += [("versions", 3)] * (40 * k)
    if q:   # the BIP341 depth limit itself is a boundary every tier visits: one chain each side of it and at it
        L += [("left-chain", 128), ("right-chain", 128), ("zigzag", 127), ("left-chain", 33)]
    if not q:
        for d in (9, 16, 31, 32, 33, 64, 100, 126, 127, 128):
            L += [("left-chain", d), ("right-chain", d), ("zigzag", d)] * (2 if d < 100 else 3)
            L += [("repeated-all", ("left", d)), ("repeated-all", ("right", d))]
        L += [("balanced-deep", 6)] * 6 + [("balanced-deep", 7)] * 3 + [("balanced-deep", 8)] * 2
    return L


# --------------------------------------------------------------- monitors
def _lib_reason(o) -> str:
    if o[0] == "ok":
        return f"answered {o[1]!r}"[:200]
    return f"raised {type(o[1]).__name__}: {o[1]}"[:200]


def _judge_output_key(ctx: Ctx, fn: str, arm: str, o, want_q: bytes, want_parity: int, case: dict) -> bool:
    """E1: (x-only key, parity) equals the reference tweak."""
    ctx.mon(f"E1:output-key:{arm}")
    if o[0] == "raise":
        ctx.violation(f"output-key-refused:{fn}", f"{fn} [{arm}] {_lib_reason(o)} for a valid internal key and tree",
                      {**case, "arm": arm})
        return False
    try:
        got_q, got_par = bytes(o[1][0]), int(o[1][1])
    except Exception:  # noqa: BLE001
        ctx.violation(f"output-key-malformed-answer:{fn}", f"{fn} [{arm}] answered {o[1]!r}", {**case, "arm": arm})
        return False
    if got_q != want_q:
        ctx.violation(f"output-key-not-bip341-tweak:{fn}",
                      f"{fn} [{arm}] output key {got_q.hex()} but BIP341 taproot_tweak_pubkey gives {want_q.hex()}",
                      {**case, "arm": arm, "got": got_q, "want": want_q})
        return False
    if got_par != want_parity:
        ctx.violation(f"output-key-parity-wrong:{fn}",
                      f"{fn} [{arm}] parity {got_par} but the tweaked point has y parity {want_parity}",
                      {**case, "arm": arm, "got_parity": got_par, "want_parity": want_parity})
        return False
    return True


def _judge_prvkey(ctx: Ctx, fn: str, arm: str, o, want_d: int, case: dict) -> None:
    """E2: the tweaked private key generates the output key (== the reference scalar mod n)."""
    ctx.mon(f"E2:prvkey:{arm}")
    if o[0] == "raise":
        ctx.violation(f"output-prvkey-refused:{fn}", f"{fn} [{arm}] {_lib_reason(o)} for a valid private key and tree",
                      {**case, "arm": arm})
        return
    got = o[1]
    if not isinstance(got, int) or got % N != want_d:
        ctx.violation(f"output-prvkey-does-not-generate-output-key:{fn}",
                      f"{fn} [{arm}] answered {got!r}: times G it is not the output key (BIP341 taproot_tweak_seckey gives {want_d:#x})",
                      {**case, "arm": arm, "got": got, "want": want_d})
    elif not 0 < got < N:
        ctx.stat("E2:prvkey-outside-1..n-1")


def _field_of_control_bit(bit: int) -> str:
    if bit == 0:
        return "parity"
    if bit < 8:
        return "leaf-version"
    return "internal-key" if bit < 33 * 8 else "path"


def _altered(ctx: Ctx, env: Env, arm: str, field: str, q: bytes, script: bytes, control: bytes, case: dict) -> None:
    """E4: an altered triple must not verify; False and a library refusal are both fine."""
    o = outcome(env.T.check_output_pubkey, q, script, control)
    ctx.mon(f"E4:{'length' if field == 'control:length' else 'flip:' + field}:{arm}")
    ctx.bulk("E4:altered-triple", 1)
    if o[0] == "ok":
        if o[1]:
            ctx.violation(f"altered-still-verifies:{field}",
                          f"check_output_pubkey [{arm}] answered {o[1]!r} after altering the {field} ({case.get('what')})",
                          {**case, "arm": arm, "q": q, "script": script[:600], "script_len": len(script), "control": control})
        else:
            ctx.stat("E4:answered-false")
    elif is_lib_exc(o[1]):
        ctx.stat("E4:refused")
    else:
        ctx.stat(f"E4:foreign-exception:{type(o[1]).__name__}")


def _bit_positions(rng, nbits: int, full_upto: int, sample: int, always=()):
    if nbits <= full_upto:
        return range(nbits)
    s = set(always)
    s.update(range(min(64, nbits)))  # the head: prefix / length bytes
    s.update(range(max(0, nbits - 64), nbits))
    while len(s) < min(sample, nbits):
        s.add(rng.randrange(nbits))
    return sorted(s)


def _flip(b: bytes, bit: int) -> bytes:
    a = bytearray(b)
    a[bit >> 3] ^= 1 << (bit & 7)
    return bytes(a)


def _alterations(ctx: Ctx, env: Env, rng, arm: str, q: bytes, script: bytes, control: bytes, case: dict, full: bool) -> None:
    """Every single-bit alteration (all bits up to 2 KiB per field when ``full``; a stratified sample otherwise)."""
    lim = 2048 * 8 if full else 0
    for bit in _bit_positions(rng, len(control) * 8, lim, 4096 if full else 280, always=range(8)):
        _altered(ctx, env, arm, "control:" + _field_of_control_bit(bit), q, script, _flip(control, bit),
                 {**case, "what": f"control bit {bit}"})
    if script:
        for bit in _bit_positions(rng, len(script) * 8, lim, 2048 if full else 100):
            _altered(ctx, env, arm, "script", q, _flip(script, bit), control, {**case, "what": f"script bit {bit}"})
    for bit in (range(256) if full else sorted(rng.sample(range(256), 72))):
        _altered(ctx, env, arm, "output-key", _flip(q, bit), script, control, {**case, "what": f"output key bit {bit}"})
    # the script as a longer/shorter string (one byte more, one byte less)
    for s2, what in ((script + b"\x00", "script + 00"), (script[:-1], "script minus last byte"), (b"\x00" + script, "00 + script")):
        if s2 != script:
            _altered(ctx, env, arm, "script", q, s2, control, {**case, "what": what})
    # lengths BIP341 does not allow, and allowed lengths with one path element more or fewer
    for k in range(1, 34):
        _altered(ctx, env, arm, "control:length", q, script, control + _rand_bytes(rng, k), {**case, "what": f"control + {k} bytes"})
        if k <= len(control):
            _altered(ctx, env, arm, "control:length", q, script, control[:-k], {**case, "what": f"control - {k} bytes"})
    _altered(ctx, env, arm, "control:length", q, script, control + control[-32:], {**case, "what": "last path element repeated"})
    _altered(ctx, env, arm, "control:length", q, script, control[:1], {**case, "what": "control byte alone"})
    _altered(ctx, env, arm, "control:length", q, script, b"", {**case, "what": "empty control block"})


def _eval_tree(ctx: Ctx, env: Env, rng, shape: str, tnode, key: RefKey | None, pub_kind: str, prv_kind: str,
               flip_leaves: int, py_full: bool, py_small_full: bool = True) -> None:
    T = env.T
    reftree = _to_ref(tnode)
    libtree = _to_lib(tnode, rng)
    orders: Counter = Counter()
    info, root = rt.taproot_tree_helper(reftree, orders)
    depths = _depths(tnode)
    x = key.x if key is not None else rt.NUMS_X
    try:
        parity, q = rt.taproot_tweak_pubkey(x, root)
        d_ref = rt.taproot_tweak_seckey(key.d, root) if key is not None else None
    except rt.Fail:
        ctx.stat("reference:tweak-failed-by-chance")
        return
    if d_ref is not None:
        Q = rt.point_mul(d_ref)
        if Q is None or Q[0].to_bytes(32, "big") != q or (Q[1] & 1) != parity:
            ctx.oracle_broken("reference tweaked scalar does not generate the reference output key")
            return
        ctx.mon("prvkey:negated" if key.odd else "prvkey:not-negated")
        ctx.mon("internal-key-y:odd" if key.odd else "internal-key-y:even")
    for k in ("lt", "gt", "eq"):
        if orders[k]:
            ctx.mon(f"sibling-order:{k}", orders[k])
    ctx.mon(f"output-parity:{parity}")
    case = {"shape": shape, "internal_key": x, "spelling": pub_kind if key is not None else "none(NUMS)", "leaves": len(info),
            "max_depth": max(depths), "merkle_root": root, "tree": _show_tree(reftree)}
    ctx.case(f"tree:{shape}", (x, root, pub_kind), sample=case)
    if key is None:
        ctx.classes["tree:nums-internal-key"] += 1
    else:
        ctx.classes[f"spelling:{pub_kind}"] += 1
    for (v, s), _ in info:
        ctx.classes["version:0xc0" if v == 0xC0 else "version:other-even"] += 1
        if not s:
            ctx.classes["script:empty"] += 1
        if len(s) >= 253:
            ctx.classes["script:>=253"] += 1
        if len(s) >= 65536:
            ctx.classes["script:>=65536"] += 1
    has_odd = _count_leaf_classes(ctx, tnode) > 0
    md = max(depths)
    if md >= 8:
        ctx.classes["depth:8"] += 1
    if md == 128:
        ctx.classes["depth:128"] += 1
    spk_want = b"\x51\x20" + q

    # one reference control block through the reference verifier: constructing and validating halves agree
    probe = rng.randrange(len(info))
    (pv, ps), ppath = info[probe]
    if not rt.verify_control_block(q, ps, bytes([parity + pv]) + x + ppath):
        ctx.oracle_broken("reference control block does not pass the reference validation rule")
        return

    # leaves that get the alterations: the deepest, the first, then random ones
    order = sorted(range(len(info)), key=lambda i: (-depths[i], i))
    chosen: list[int] = []  # the first ``flip_leaves`` of them also on the Python arm, all of them with the bindings
    for i in [order[0], 0, len(info) - 1] + [rng.randrange(len(info)) for _ in range(2 * flip_leaves)]:
        if i not in chosen and len(chosen) < 2 * flip_leaves:
            chosen.append(i)

    for arm in env.arms:
        env.use(arm)
        at = env.armtag(arm)
        lib_key = _spell(env, rng, pub_kind, key) if key is not None else None
        o = outcome(T.output_pubkey, lib_key, libtree)
        if has_odd and o[0] == "raise" and is_lib_exc(o[1]):
            ctx.stat("odd-leaf-version:refused")  # not a leaf version at all: refusing it is as good as masking it
            continue
        if not _judge_output_key(ctx, "output_pubkey", at, o, q, parity, case):
            continue  # everything below is judged against q: one defect, one report
        o = outcome(lambda: env.ScriptPubKey.p2tr(lib_key, libtree).script)
        ctx.mon(f"E1:script-pub-key:{at}")
        if o[0] == "raise" or bytes(o[1]) != spk_want:
            ctx.violation("p2tr-script-not-bip341-output", f"ScriptPubKey.p2tr [{at}] {_lib_reason(o)}; want {spk_want.hex()}",
                          {**case, "arm": at})
        if key is not None:
            o = outcome(T.output_prvkey, _spell(env, rng, prv_kind, key), libtree)
            ctx.classes[f"spelling:{prv_kind}"] += 1
            _judge_prvkey(ctx, "output_prvkey", at, o, d_ref, {**case, "prv_spelling": prv_kind})
        for i, ((v, want_script), path) in enumerate(info):
            lcase = {**case, "leaf": i, "depth": depths[i]}
            o = outcome(T.input_script_sig, lib_key, libtree, i)
            ctx.mon(f"E3:control-proves:{at}")
            if o[0] == "raise":
                ctx.violation("input-script-sig-refused", f"input_script_sig [{at}] leaf {i} {_lib_reason(o)}", {**lcase, "arm": at})
                continue
            script_cmds, control = o[1]
            control = bytes(control)
            so = outcome(T.serialize, script_cmds)
            if so[0] == "raise" or so[1] != want_script:
                ctx.violation("input-script-sig-wrong-leaf-script",
                              f"input_script_sig [{at}] leaf {i} returned a script that is not leaf {i}'s: {_lib_reason(so)[:120]}",
                              {**lcase, "arm": at, "want_script": want_script[:300]})
                continue
            want_control = bytes([parity + v]) + x + path
            if control != want_control:
                if rt.verify_control_block(q, want_script, control):
                    ctx.stat("E3:control-differs-from-reference-but-proves")
                else:
                    what = _control_diff(control, want_control)
                    ctx.violation(f"control-block-does-not-prove-leaf:{what}",
                                  f"input_script_sig [{at}] leaf {i} (depth {depths[i]}) control block fails BIP341 validation "
                                  f"against the output key: differs from the reference in {what}",
                                  {**lcase, "arm": at, "control": control, "want_control": want_control, "q": q})
                    continue
            o = outcome(T.check_output_pubkey, q, want_script, control)
            if o[0] == "raise" or o[1] is not True:
                ctx.violation("produced-control-block-rejected",
                              f"check_output_pubkey [{at}] {_lib_reason(o)} for the control block input_script_sig built "
                              f"(leaf {i}, depth {depths[i]}, version {v:#x}, parity {parity}); the reference validates it",
                              {**lcase, "arm": at, "control": control, "script": want_script[:300], "q": q})
            ctx.bulk("E3:leaf", 1)
            if i in (chosen if arm is not False else chosen[:flip_leaves]):
                _alterations(ctx, env, rng, at, q, want_script, control, lcase,
                             full=(arm is not False) or py_full or (py_small_full and i == chosen[0]
                                                            and (len(control) + len(want_script)) * 8 <= 1400))
                _engine(ctx, env, rng, at, spk_want, want_script, control, v, lcase)
        o = outcome(T.assert_valid_control_block, bytes([parity + info[probe][0][0]]) + x + info[probe][1])
        if o[0] == "raise":
            ctx.violation("produced-control-block-size-refused", f"assert_valid_control_block [{at}] {_lib_reason(o)}", {**case, "arm": at})
    env.use(True if backend_available() else None)


def _count_leaf_classes(ctx: Ctx, t) -> int:
    """Counts the leaf classes only the neutral tree shows; returns the number of odd leaf versions."""
    if t[0] == "L":
        if t[1] & 1:
            ctx.classes["version:odd"] += 1
        if t[2] and t[2][-1][0] == "success":
            ctx.classes["script:op-success"] += 1
        return t[1] & 1
    return _count_leaf_classes(ctx, t[1]) + _count_leaf_classes(ctx, t[2])


def _control_diff(got: bytes, want: bytes) -> str:
    if len(got) != len(want):
        return "length"
    if got[0] != want[0]:
        return "parity-bit" if (got[0] ^ want[0]) == 1 else "leaf-version"
    if got[1:33] != want[1:33]:
        return "internal-key"
    return "merkle-path"


def _show_tree(t, depth=0):
    """Compact, size-capped rendering for samples and replays."""
    if isinstance(t, tuple):
        return {"v": t[0], "script": t[1][:80].hex() + ("..." if len(t[1]) > 80 else ""), "len": len(t[1])}
    if depth > 5:
        return "..."
    return [_show_tree(t[0], depth + 1), _show_tree(t[1], depth + 1)]


def _engine(ctx: Ctx, env: Env, rng, at: str, spk: bytes, script: bytes, control: bytes, v: int, case: dict) -> None:
    """E3/E4 at the consensus entry: the engine's unwrap accepts the produced pair and refuses altered ones."""
    extra = [_rand_bytes(rng, rng.randrange(0, 5)) for _ in range(rng.randrange(0, 3))]
    o = outcome(env.unwrap, spk, [*extra, script, control])
    ctx.mon(f"E3:engine-unwrap:{at}")
    if o[0] == "raise":
        ctx.violation("engine-unwrap-rejects-produced-control-block", f"taproot_unwrap_script [{at}] {_lib_reason(o)}",
                      {**case, "arm": at, "control": control, "script": script[:300]})
    elif tuple(o[1]) != (script, extra, v):
        what = "leaf-version" if tuple(o[1])[:2] == (script, extra) else "script-or-stack"
        ctx.violation(f"engine-unwrap-wrong-{what}",
                      f"taproot_unwrap_script [{at}] answered {o[1]!r:.200}; the committed leaf is version {v:#x} with that script",
                      {**case, "arm": at, "control": control, "script": script[:300], "want_version": v})
    bits = [0, rng.randrange(1, 8), rng.randrange(8, 264)] + ([rng.randrange(264, len(control) * 8)] if len(control) > 33 else [])
    for bit in bits:
        o = outcome(env.unwrap, spk, [*extra, script, _flip(control, bit)])
        ctx.mon(f"E4:engine-unwrap-altered:{at}")
        if o[0] == "ok":
            ctx.violation("altered-still-verifies:engine:control",
                          f"taproot_unwrap_script [{at}] accepted a control block with bit {bit} flipped",
                          {**case, "arm": at, "control": control, "bit": bit})
    if script:
        o = outcome(env.unwrap, spk, [*extra, _flip(script, rng.randrange(len(script) * 8)), control])
        if o[0] == "ok":
            ctx.violation("altered-still-verifies:engine:script", f"taproot_unwrap_script [{at}] accepted an altered script",
                          {**case, "arm": at})
    o = outcome(env.unwrap, spk[:2] + _flip(spk[2:], rng.randrange(256)), [*extra, script, control])
    if o[0] == "ok":
        ctx.violation("altered-still-verifies:engine:output-key", f"taproot_unwrap_script [{at}] accepted an altered output key",
                      {**case, "arm": at})


# ----------------------------------------------------------------- shards
def shard_trees(ctx: Ctx) -> None:
    if not _selftest(ctx):
        return
    env = Env(ctx)
    rng = ctx.rng
    quick = ctx.tier == "quick"
    shapes = _shape_list(ctx.tier)
    # a fixed interleaving, so that every shard sees every shape family
    mine = [s for j, s in enumerate(shapes) if j % ctx.params["parts"] == ctx.params["part"]]
    mine.append(("sizes", 65536 + 977 * ctx.params["part"]))  # every shard meets the 5-byte compact size once
    rng.shuffle(mine)
    pool = _key_pool(rng, 24 if quick else 60)
    done = 0
    try:
        for j, (shape, param) in enumerate(mine):
            if ctx.out_of_time():
                ctx.notes.append(f"{ctx.shard}: budget reached after {done}/{len(mine)} trees")
                ctx.stat("trees:skipped-for-budget", len(mine) - done)
                break
            tnode = _build(shape, param, rng)
            nleaves = len(_depths(tnode))
            key = None if j % 9 == 4 else pool[j % len(pool)]
            pub_kind = PUB_KINDS[j % len(PUB_KINDS)]
            prv_kind = PRV_KINDS[j % len(PRV_KINDS)]
            name = shape if shape != "balanced-deep" else "balanced"
            if shape == "balanced-deep":
                ctx.classes["tree:balanced-deep"] += 1
            _eval_tree(ctx, env, rng, name, tnode, key, pub_kind, prv_kind,
                       flip_leaves=(2 if quick else 3) if nleaves > 1 else 1, py_full=not quick and j % 4 == 0,
                       py_small_full=j % 2 == 0)
            done += 1
    finally:
        env.close()
    ctx.stat("trees:evaluated", done)
    if done:
        ctx.exhaustive.append("per chosen leaf (deepest, first, last, random) on the bindings arm: every single bit of the control "
                              "block and of the leaf script (each up to 2 KiB), every bit of the output key, every control-block "
                              "length from -33 to +33 bytes")


def _bad_xs(rng, count: int) -> list[tuple[str, int]]:
    """x values that are no x-coordinate, by the reference lift: non-residues, x >= p (with and without a valid residue)."""
    out: list[tuple[str, int]] = []
    small = [x for x in range(0, 40) if rt.lift_x(x) is None][:4]
    out += [("x-not-on-curve", x) for x in small]
    while sum(1 for k, _ in out if k == "x-not-on-curve") < count:
        x = rng.randrange(P_FIELD)
        if rt.lift_x(x) is None:
            out.append(("x-not-on-curve", x))
    for x in (P_FIELD - 1, P_FIELD - 2, P_FIELD - 3):
        if rt.lift_x(x) is None:
            out.append(("x-not-on-curve", x))
    out += [("x>=p", P_FIELD), ("x>=p", (1 << 256) - 1)]
    # x >= p whose residue modulo p *is* an x-coordinate: refused unless someone reduced it
    for r in range(0, 2**32 + 977):
        if rt.lift_x(r) is not None:
            out.append(("x>=p-residue-mod-p", P_FIELD + r))
            if sum(1 for k, _ in out if k == "x>=p-residue-mod-p") >= 3:
                break
    return out


def shard_keys(ctx: Ctx) -> None:
    if not _selftest(ctx):
        return
    env = Env(ctx)
    T = env.T
    rng = ctx.rng
    try:
        pool = _key_pool(rng, ctx.params["keys"])
        trees = [None, ("L", 0xC0, [("op", "OP_1")]),
                 ("B", ("L", 0xC0, _gen_script(rng, "pk")), ("B", ("L", 0xC2, _gen_script(rng, "mixed")), ("L", 0xC0, []))),
                 _build("random", 4, rng)]
        reft = [None if t is None else _to_ref(t) for t in trees]
        for ki, key in enumerate(pool):
            if ctx.out_of_time():
                ctx.notes.append(f"{ctx.shard}: budget reached after {ki}/{len(pool)} keys")
                break
            ti = ki % len(trees)
            tnode, reftree = trees[ti], reft[ti]
            libtree = None if tnode is None else _to_lib(tnode, rng)
            root = rt.merkle_root(reftree)
            try:
                parity, q = rt.taproot_tweak_pubkey(key.x, root)
                d_ref = rt.taproot_tweak_seckey(key.d, root)
            except rt.Fail:
                continue
            Q = rt.point_mul(d_ref)
            if Q is None or Q[0].to_bytes(32, "big") != q or (Q[1] & 1) != parity:
                ctx.oracle_broken("reference tweaked scalar does not generate the reference output key")
                return
            ctx.mon("prvkey:negated" if key.odd else "prvkey:not-negated")
            ctx.mon("internal-key-y:odd" if key.odd else "internal-key-y:even")
            ctx.mon(f"output-parity:{parity}")
            ctx.classes["tree:none" if tnode is None else "tree:small"] += 1
            info = rt.taproot_tree_helper(reftree)[0] if reftree is not None else []
            for arm in env.arms:
                env.use(arm)
                at = env.armtag(arm)
                for kind in PUB_KINDS + PRV_KINDS:
                    case = {"internal_key": key.x, "spelling": kind, "merkle_root": root, "key_y_odd": key.odd,
                            "tree": None if reftree is None else _show_tree(reftree)}
                    ctx.case(f"spelling:{kind}", (key.x, root, kind, at), sample=case)
                    sp = _spell(env, rng, kind, key)
                    o = outcome(T.output_pubkey, sp, libtree)
                    if not _judge_output_key(ctx, "output_pubkey", at, o, q, parity, case):
                        continue
                    if libtree is not None:
                        i = rng.randrange(len(info))
                        (v, want_script), path = info[i]
                        o = outcome(T.input_script_sig, sp, libtree, i)
                        ctx.mon(f"E3:control-proves:{at}")
                        want_control = bytes([parity + v]) + key.x + path
                        if o[0] == "raise":
                            ctx.violation("input-script-sig-refused", f"input_script_sig [{at}] {_lib_reason(o)} (spelling {kind})",
                                          {**case, "arm": at})
                        elif bytes(o[1][1]) != want_control and not rt.verify_control_block(q, want_script, bytes(o[1][1])):
                            ctx.violation(f"control-block-does-not-prove-leaf:{_control_diff(bytes(o[1][1]), want_control)}",
                                          f"input_script_sig [{at}] with the internal key spelled {kind}: control block fails BIP341 "
                                          "validation against the output key", {**case, "arm": at, "control": bytes(o[1][1]),
                                                                                "want_control": want_control})
                        else:
                            oc = outcome(T.check_output_pubkey, q, want_script, bytes(o[1][1]))
                            if oc[0] == "raise" or oc[1] is not True:
                                ctx.violation("produced-control-block-rejected",
                                              f"check_output_pubkey [{at}] {_lib_reason(oc)} for input_script_sig's control block "
                                              f"(spelling {kind})", {**case, "arm": at, "control": bytes(o[1][1])})
                    if kind in PRV_KINDS:
                        o = outcome(T.output_prvkey, sp, libtree)
                        _judge_prvkey(ctx, "output_prvkey", at, o, d_ref, case)
                        o = outcome(T.output_prvkey_from_merkle_root, sp, root)
                        ctx.mon(f"E2:from-merkle-root:{at}")
                        _judge_prvkey(ctx, "output_prvkey_from_merkle_root", at, o, d_ref, case)
                # the x-only spelling BIP371 carries, with the root in hand
                for kind, xs in (("x-only", key.x), ("x-only-hex", key.x.hex())):
                    case = {"internal_key": key.x, "spelling": kind, "merkle_root": root}
                    ctx.case(f"spelling:{kind}", (key.x, root, kind, at))
                    o = outcome(T.output_pubkey_from_merkle_root, xs, root if rng.random() < 0.5 else root.hex())
                    ctx.mon(f"E1:from-merkle-root:{at}")
                    _judge_output_key(ctx, "output_pubkey_from_merkle_root", at, o, q, parity, case)
            env.use(True if backend_available() else None)

        # ---- E5: what is no internal key must be refused, however spelled
        good = pool[0]
        tree1 = [(0xC0, ["OP_1"])]
        root1 = rt.merkle_root((0xC0, b"\x51"))
        for kind, x in _bad_xs(rng, 10 if ctx.tier == "quick" else 40):
            xb = x.to_bytes(32, "big")
            xk = rb.XKey(rb.VERSIONS[("main", "p2pkh")][1], 1, b"\x01\x02\x03\x04", 7, b"\x11" * 32, b"\x02" + xb)
            spellings = [("sec-02", b"\x02" + xb), ("sec-03", b"\x03" + xb), ("sec-02-hex", (b"\x02" + xb).hex()),
                         ("sec-04-any-y", b"\x04" + xb + good.P[1].to_bytes(32, "big")),
                         ("point", (x, good.P[1])), ("xpub", xk.b58())]
            for arm in env.arms:
                env.use(arm)
                at = env.armtag(arm)
                for sname, sp in spellings:
                    for fn, call in (("output_pubkey", lambda: T.output_pubkey(sp)),
                                     ("output_pubkey+tree", lambda: T.output_pubkey(sp, tree1)),
                                     ("input_script_sig", lambda: T.input_script_sig(sp, tree1, 0)),
                                     ("ScriptPubKey.p2tr", lambda: env.ScriptPubKey.p2tr(sp, tree1))):
                        _judge_refusal(ctx, at, f"invalid-key:{kind}", fn, outcome(call),
                                       {"kind": kind, "x": x, "spelling": sname, "fn": fn})
                ctx.classes["invalid-key:x-only"] += 1
                _judge_refusal(ctx, at, f"invalid-key:{kind}", "output_pubkey_from_merkle_root",
                               outcome(T.output_pubkey_from_merkle_root, xb, root1), {"kind": kind, "x": x, "spelling": "x-only"})
                # in a control block: must not verify (False or refusal)
                for par in (0, 1):
                    o = outcome(T.check_output_pubkey, good.x, b"\x51", bytes([0xC0 + par]) + xb)
                    ctx.classes["invalid-key:control-block"] += 1
                    ctx.mon(f"E5:invalid-key-refused:{at}")
                    if o[0] == "ok" and o[1]:
                        ctx.violation("invalid-internal-key-verifies", f"check_output_pubkey [{at}] answered True for a control "
                                      f"block whose internal key {x:#x} is no x-coordinate ({kind})", {"kind": kind, "x": x, "arm": at})
                    elif o[0] == "raise" and not is_lib_exc(o[1]):
                        ctx.violation("invalid-internal-key-foreign-exception:check_output_pubkey",
                                      f"check_output_pubkey [{at}] {_lib_reason(o)}", {"kind": kind, "x": x, "arm": at})
            env.use(True if backend_available() else None)
        # a valid x with a y that is not its own (uncompressed and tuple spellings)
        for key in pool[:6 if ctx.tier == "quick" else 30]:
            for dy in (1, 2, 3):
                y2 = (key.P[1] + dy) % P_FIELD
                if rt.EC.on_curve((key.P[0], y2)):
                    continue
                for arm in env.arms:
                    env.use(arm)
                    at = env.armtag(arm)
                    for sname, sp in (("sec-04", b"\x04" + key.x + y2.to_bytes(32, "big")), ("point", (key.P[0], y2)),
                                      ("point-y0", (key.P[0], 0))):
                        for fn, call in (("output_pubkey", lambda: T.output_pubkey(sp)),
                                         ("input_script_sig", lambda: T.input_script_sig(sp, tree1, 0))):
                            _judge_refusal(ctx, at, "invalid-key:y-off-curve", fn, outcome(call),
                                           {"kind": "y-off-curve", "x": key.P[0], "y": y2, "spelling": sname, "fn": fn})
            env.use(True if backend_available() else None)
        # hybrid spellings of a *valid* point: the property does not say; recorded, not judged
        for key in pool[:4]:
            hyb = bytes([6 + key.odd]) + key.x + key.P[1].to_bytes(32, "big")
            res = []
            for arm in env.arms:
                env.use(arm)
                o = outcome(T.output_pubkey, hyb)
                res.append("answered" if o[0] == "ok" else ("refused" if is_lib_exc(o[1]) else "foreign"))
            ctx.stat("hybrid-06/07-internal-key:" + "/".join(res))
            env.use(True if backend_available() else None)
    finally:
        env.close()


def _judge_refusal(ctx: Ctx, at: str, klass: str, fn: str, o, case: dict) -> None:
    ctx.case(klass, (klass, fn, at, case.get("x"), case.get("y"), case.get("spelling")), sample={**case, "arm": at})
    ctx.mon(f"E5:invalid-key-refused:{at}")
    if o[0] == "ok":
        ctx.violation(f"invalid-internal-key-answered:{fn.split('+')[0]}",
                      f"{fn} [{at}] answered {o[1]!r} for an internal key that is not on the curve ({case['kind']}, "
                      f"spelling {case['spelling']})", {**case, "arm": at})
    elif not is_lib_exc(o[1]):
        ctx.violation(f"invalid-internal-key-foreign-exception:{fn.split('+')[0]}",
                      f"{fn} [{at}] {_lib_reason(o)} instead of a library refusal ({case['kind']}, spelling {case['spelling']})",
                      {**case, "arm": at})


def shard_inject(ctx: Ctx) -> None:
    """E5, second half: the tweak >= n refusal, reached by replacing taproot.py's ``tagged_hash`` for the TapTweak tag."""
    if not _selftest(ctx):
        return
    env = Env(ctx)
    T = env.T
    rng = ctx.rng
    real = T.tagged_hash
    try:
        pool = _key_pool(rng, 12)
        bad_ts = [("t==n", N), ("t>=n", N + 1), ("t>=n", (1 << 256) - 1)]
        good_ts = [("t==n-1", N - 1), ("t==1", 1), ("t==2^255", 1 << 255)]
        for ci in range(ctx.params["cases"]):
            if ctx.out_of_time():
                break
            key = pool[(ci * 7 + ci // 8) % len(pool)]
            tnode = _build(rng.choice(["single", "random", "left-chain"]), 3, rng)
            reftree, libtree = _to_ref(tnode), _to_lib(tnode, rng)
            info, root = rt.taproot_tree_helper(reftree)
            tag, t = (bad_ts + [("t>=n", rng.randrange(N, 1 << 256))] + good_ts + [("t-random", rng.randrange(1, N))])[ci % 8]
            fired = [0]

            def shim(tg, m, *a, **kw):
                if tg == b"TapTweak":
                    fired[0] += 1
                    return t.to_bytes(32, "big")
                return real(tg, m, *a, **kw)

            # what a library that did not refuse would produce: P + (t mod n) G
            tm = t % N
            try:
                parity, q = rt.tweak_pubkey_with(key.x, tm) if tm else (0, key.x)
            except rt.Fail:
                # P + tG is the point at infinity (d = 1 with t = n-1): no output key exists, BIP341's reference code does
                # not define the case and the property does not mention it; recorded, not judged
                for arm in env.arms:
                    env.use(arm)
                    with patched(T, "tagged_hash", shim):
                        o = outcome(T.output_pubkey, key.sec(), libtree)
                    ctx.stat(f"inject:output-key-at-infinity:{env.armtag(arm)}:" + ("answered" if o[0] == "ok" else "refused"))
                env.use(True if backend_available() else None)
                continue
            d_mod = rt.tweak_seckey_with(key.d, tm)
            i = rng.randrange(len(info))
            (v, script), path = info[i]
            control = bytes([parity + v]) + key.x + path
            case = {"internal_key": key.x, "t": t, "class": tag, "merkle_root": root, "leaf": i}
            ctx.case(f"inject:{tag}", (key.x, root, t), sample=case)
            if t >= N:
                ctx.classes["inject:t>=n"] += 1
            for arm in env.arms:
                env.use(arm)
                at = env.armtag(arm)
                with patched(T, "tagged_hash", shim):
                    calls = [
                        ("output_pubkey", outcome(T.output_pubkey, key.sec(), libtree)),
                        ("output_pubkey:uncompressed", outcome(T.output_pubkey, key.sec(False), libtree)),
                        ("output_pubkey_from_merkle_root", outcome(T.output_pubkey_from_merkle_root, key.x, root)),
                        ("output_prvkey", outcome(T.output_prvkey, key.d, libtree)),
                        ("output_prvkey_from_merkle_root", outcome(T.output_prvkey_from_merkle_root, key.d, root)),
                        ("input_script_sig", outcome(T.input_script_sig, key.sec(), libtree, i)),
                        ("check_output_pubkey", outcome(T.check_output_pubkey, q, script, control)),
                    ]
                if not fired[0]:
                    ctx.inconclusive_("fault injection on taproot.tagged_hash never fired (the name is no longer looked up at call time)")
                    return
                for fn, o in calls:
                    base = fn.split(":")[0]
                    if t >= N:
                        ctx.mon(f"E5:tweak-out-of-range-refused:{at}")
                        if o[0] == "ok" and not (base == "check_output_pubkey" and o[1] is False):
                            ctx.violation(f"tweak-out-of-range-answered:{base}",
                                          f"{fn} [{at}] answered {o[1]!r} with the TapTweak hash forced to {tag} ({t:#x}); BIP341: fail "
                                          "if t >= order", {**case, "arm": at, "fn": fn})
                        elif o[0] == "raise" and not is_lib_exc(o[1]):
                            ctx.violation(f"tweak-out-of-range-foreign-exception:{base}", f"{fn} [{at}] {_lib_reason(o)}",
                                          {**case, "arm": at, "fn": fn})
                    else:
                        ctx.mon(f"E1:injected-valid-tweak:{at}")
                        if base in ("output_pubkey", "output_pubkey_from_merkle_root"):
                            _judge_output_key(ctx, base + ":injected-tweak", at, o, q, parity, {**case, "fn": fn})
                        elif base in ("output_prvkey", "output_prvkey_from_merkle_root"):
                            _judge_prvkey(ctx, base + ":injected-tweak", at, o, d_mod, {**case, "fn": fn})
                        elif base == "input_script_sig":
                            if o[0] == "raise" or bytes(o[1][1]) != control:
                                ctx.violation("control-block-does-not-prove-leaf:injected-tweak",
                                              f"input_script_sig [{at}] {_lib_reason(o)} with the tweak forced to {tag}",
                                              {**case, "arm": at, "want_control": control})
                        elif o[0] == "raise" or o[1] is not True:
                            ctx.violation("produced-control-block-rejected:injected-tweak",
                                          f"check_output_pubkey [{at}] {_lib_reason(o)} with the tweak forced to {tag}",
                                          {**case, "arm": at, "control": control})
            env.use(True if backend_available() else None)
        # the real hash is back: one plain call proves the shim is gone
        if T.tagged_hash is not real:
            ctx.inconclusive_("taproot.tagged_hash not restored after injection")
    finally:
        env.close()


# ------------------------------------------------------------- descriptors
def shard_descr(ctx: Ctx) -> None:
    if not _selftest(ctx) or not _selftest_bip86(ctx):
        return
    env = Env(ctx)
    T, D, bip44 = env.T, env.D, env.bip44
    rng = ctx.rng
    try:
        for ci in range(ctx.params["cases"]):
            if ctx.out_of_time():
                break
            seed = _rand_bytes(rng, 32)
            net = "main" if ci % 3 else "test"
            netname, hrp = ("mainnet", "bc") if net == "main" else ("testnet", "tb")
            master = rb.root(seed, rb.VERSIONS[(net, "p2pkh")][0])
            acct_path = [rb.h(86), rb.h(0 if net == "main" else 1), rb.h(rng.randrange(4))]
            acct = rb.derive(master, acct_path)
            acct_pub = rb.neuter(acct)
            counter = [0]

            def key_expr(ranged_ok=True):
                """(text, f(index) -> 33-byte key): an xpub path (ranged or not) or raw hex (33 or 32 bytes)."""
                counter[0] += 1
                r = rng.random()
                branch = counter[0]
                if r < 0.55 and ranged_ok:
                    return f"{acct_pub.b58()}/{branch}/*", lambda idx, b=branch: rb.derive(acct_pub, [b, idx]).key
                if r < 0.75:
                    j = rng.randrange(1000)
                    k = rb.derive(acct_pub, [branch, j]).key
                    return f"{acct_pub.b58()}/{branch}/{j}", lambda idx, k=k: k
                k = rb.derive(acct_pub, [branch, 0]).key
                if r < 0.9:
                    return k.hex(), lambda idx, k=k: k
                return k[1:].hex(), lambda idx, k=k: b"\x02" + k[1:]

            def gen_tree(d):
                if d == 0 or rng.random() < 0.35:
                    if rng.random() < 0.3:
                        n = rng.randrange(1, 5)
                        ks = [key_expr() for _ in range(n)]
                        thr = rng.randrange(1, n + 1)
                        srt = rng.random() < 0.4
                        name = "sortedmulti_a" if srt else "multi_a"
                        text = f"{name}({thr},{','.join(k[0] for k in ks)})"

                        def leaf(idx, ks=ks, thr=thr, srt=srt):
                            xs = [k[1](idx)[1:] for k in ks]
                            return rt.multi_a_leaf(thr, sorted(xs) if srt else xs)
                        ctx.classes["descr:multi_a-leaf"] += 1
                        return text, leaf
                    ke = key_expr()
                    ctx.classes["descr:pk-leaf"] += 1
                    return f"pk({ke[0]})", lambda idx, ke=ke: rt.pk_leaf(ke[1](idx)[1:])
                a, b = gen_tree(d - 1), gen_tree(d - 1)
                return "{" + a[0] + "," + b[0] + "}", (a[1], b[1])

            def ref_tree(t, idx):
                return (0xC0, t(idx)) if callable(t) else [ref_tree(t[0], idx), ref_tree(t[1], idx)]

            ik = key_expr()
            if ci % 5 == 0:
                text, tree = f"tr({ik[0]})", None
                ctx.classes["descr:key-only"] += 1
            else:
                tt = gen_tree(rng.choice([1, 2, 3, 4]))
                text, tree = f"tr({ik[0]},{tt[0]})", tt[1]
            o = outcome(D.parse, text, netname)
            if o[0] == "raise":
                ctx.stat("descr:parse-refused")
                ctx.notes.append(f"descriptor refused: {text[:120]} :: {o[1]}"[:300])
                continue
            desc = o[1]
            ranged = "*" in text
            if ranged:
                ctx.classes["descr:ranged"] += 1
            for idx in ([0, rng.randrange(1, 1 << 31)] if ranged else [0]):
                x = ik[1](idx)[1:]
                rtree = None if tree is None else ref_tree(tree, idx)
                root = rt.merkle_root(rtree)
                try:
                    parity, q = rt.taproot_tweak_pubkey(x, root)
                except rt.Fail:
                    continue
                case = {"descriptor": text, "index": idx, "internal_key": x, "merkle_root": root}
                ctx.case("descr:tr", (text, idx), sample=case)
                for arm in env.arms:
                    env.use(arm)
                    at = env.armtag(arm)
                    ctx.mon(f"E6:descriptor-root:{at}")
                    o = outcome(desc.taproot_merkle_root, idx)
                    if o[0] == "raise" or bytes(o[1]) != root:
                        ctx.violation("descriptor-merkle-root-wrong",
                                      f"TrDescriptor.taproot_merkle_root({idx}) [{at}] {_lib_reason(o)}; BIP341 root of the BIP386/387 "
                                      f"leaf scripts is {root.hex()}", {**case, "arm": at})
                    o = outcome(lambda: desc.script_pub_key(idx).script)
                    if o[0] == "raise" or bytes(o[1]) != b"\x51\x20" + q:
                        ctx.violation("descriptor-script-not-bip341-output",
                                      f"TrDescriptor.script_pub_key({idx}) [{at}] {_lib_reason(o)}; want 5120{q.hex()}", {**case, "arm": at})
                    o = outcome(desc.address, idx)
                    want_addr = r32.segwit_encode(hrp, 1, q)
                    if o[0] == "raise" or o[1] != want_addr:
                        ctx.violation("descriptor-address-wrong", f"TrDescriptor.address({idx}) [{at}] {_lib_reason(o)}; want {want_addr}",
                                      {**case, "arm": at})
                    if rtree is not None:
                        info = rt.taproot_tree_helper(rtree)[0]
                        o = outcome(desc.taproot_leaf_scripts, idx)
                        ctx.mon(f"E6:descriptor-leaves:{at}")
                        if o[0] == "raise":
                            ctx.violation("descriptor-leaf-scripts-refused", f"taproot_leaf_scripts({idx}) [{at}] {_lib_reason(o)}",
                                          {**case, "arm": at})
                        else:
                            want = {bytes([parity + v]) + x + path: (s, v) for (v, s), path in info}
                            got = {bytes(cb): (bytes(s), v) for cb, (s, v) in o[1].items()}
                            if got != want:
                                # judged by what the property asks: every produced pair must prove against q
                                bad = [cb for cb, (s, v) in got.items() if not rt.verify_control_block(q, s, cb)]
                                missing = [s for s, _ in want.values() if s not in {g[0] for g in got.values()}]
                                if bad or missing:
                                    ctx.violation("descriptor-control-block-does-not-prove-leaf",
                                                  f"taproot_leaf_scripts({idx}) [{at}]: {len(bad)} control blocks fail BIP341 validation, "
                                                  f"{len(missing)} leaves have none", {**case, "arm": at})
                                else:
                                    ctx.stat("descr:leaf-scripts-differ-but-prove")
                            for cb, (s, v) in list(got.items())[:2]:
                                oc = outcome(T.check_output_pubkey, q, s, cb)
                                if oc[0] == "raise" or oc[1] is not True:
                                    ctx.violation("produced-control-block-rejected:descriptor",
                                                  f"check_output_pubkey [{at}] {_lib_reason(oc)} for a descriptor leaf", {**case, "arm": at})
                env.use(True if backend_available() else None)

            # ---- BIP86: the address of a key is the key-only tweak of it
            chg, ai = rng.randrange(2), rng.choice([0, 1, rng.randrange(1 << 31)])
            full = [*acct_path, chg, ai]
            node = rb.derive(master, full)
            pub = rb.xkey_pubkey(node)
            want_addr = _ref_bip86_address(pub, hrp)
            path_txt = "m/" + "/".join(f"{i - rb.HARDENED}h" if i >= rb.HARDENED else str(i) for i in full)
            case = {"master": master.b58(), "path": path_txt, "pubkey": pub, "network": netname}
            ctx.case("bip86:address", (master.b58(), path_txt), sample=case)
            for arm in env.arms:
                env.use(arm)
                at = env.armtag(arm)
                ctx.mon(f"E6:bip86:{at}")
                calls = [("address_from_der_path(master)", lambda: bip44.address_from_der_path(master.b58(), path_txt)),
                         ("address_from_der_path(account xpub)", lambda: bip44.address_from_der_path(acct_pub.b58(), path_txt)),
                         ("_p2tr(sec)", lambda: bip44._p2tr(pub, netname)),
                         ("_p2tr(xpub)", lambda: bip44._p2tr(rb.neuter(node).b58(), netname)),
                         ("_p2tr(xprv)", lambda: bip44._p2tr(node.b58(), netname))]
                for fn, call in calls:
                    o = outcome(call)
                    if o[0] == "raise" or o[1] != want_addr:
                        ctx.violation(f"bip86-address-wrong:{fn.split('(')[0]}",
                                      f"{fn} [{at}] {_lib_reason(o)}; BIP86 (key-only BIP341 tweak, bech32m) gives {want_addr}",
                                      {**case, "arm": at, "fn": fn})
            env.use(True if backend_available() else None)
    finally:
        env.close()
