"""C04 - the libsecp256k1 and pure-Python back ends are observationally identical.

The oracle is the other arm: every registered dual-path call is made once with the
bindings serving and once with them switched off, on fresh-but-equal arguments; the
canonicalised outcomes (value bytes / boolean / exception class) must be equal.  An
arm recorder on ``curve._libsecp256k1_serves`` says which arm actually served.
"""

from __future__ import annotations

import hashlib

from ..ctx import Ctx, outcome
from ..hooks import Reach, backend_available, rebind, set_backend

PROPERTY = "C04"
RULE = (
    "registry of dual-path entry points x (valid-input generator, hostile-input generator); each case is executed on both arms "
    "with rebuilt arguments and compared. Distinct = distinct (entry point, canonical arguments). A case is non-trivial when the "
    "bindings actually served it on the 'on' arm (observed through the dispatch predicate); the others are counted separately."
)
ASSUMPTIONS = [
    "the btclib_secp256k1 bindings are installed (otherwise the check is inconclusive, never held)",
    "randomised outputs (ElligatorSwift encodings, default aux/nonces) are compared through their deterministic consumers",
]

N = 0xFFFFFFFFFFFFFFFFFFFFFFFFFFFFFFFEBAAEDCE6AF48A03BBFD25E8CD0364141
P = 0xFFFFFFFFFFFFFFFFFFFFFFFFFFFFFFFFFFFFFFFFFFFFFFFFFFFFFFFEFFFFFC2F

ENTRIES = ["bms.assert_as_valid", "mult", "prepared_mult", "double_mult", "multi_mult", "sum_var", "tweak_add", "multi_mult_x_only", "point_from_octets",
           "bytes_from_prv_key_int", "mult_sec", "dsa.sign_", "dsa.sign", "dsa.sign_recoverable_", "dsa.verify_", "dsa.assert_as_valid_",
           "dsa.recover_pub_keys_", "dsa.recover_pub_key_", "dsa.Signer", "ssa.sign_", "ssa.verify_", "ssa.assert_as_valid_",
           "ssa.batch_verify_", "ssa.Signer", "bms.sign", "bms.verify", "commit_nonce_", "bip32.derive-prv", "bip32.derive-pub",
           "bip32.tweaks", "bip32.xpub_from_xprv", "taproot.output_pubkey", "taproot.output_prvkey", "taproot.check_output_pubkey",
           "dh.diffie_hellman", "ellswift.decode_var", "ellswift.create-decode", "ellswift.xdh", "musig2.partial_sig_verify_",
           "sp.output_keys", "sp.scan_outputs", "sp.scan_transaction_outputs", "engine.dsa_verify", "engine.ssa_verify",
           "engine.verify_input"]


def plan(tier: str, seed: int) -> list[dict]:
    q = tier == "quick"
    specs = []
    groups = [ENTRIES[i::8] for i in range(8)]
    for i, g in enumerate(groups):
        specs.append({"name": f"entries-{i}", "fn": "shard_entries", "entries": g, "rounds": 450 if q else 4000,
                      "_budget_s": 90 if q else 1000, "_timeout_s": 500 if q else 2400})
    for i in range(3 if q else 6):
        specs.append({"name": f"engine-{i}", "fn": "shard_engine", "cases": 1500 if q else 12000,
                      "_budget_s": 90 if q else 1000, "_timeout_s": 500 if q else 2400})
    return specs


def finalize(m: dict, tier: str) -> list[str]:
    out = []
    if not backend_available():
        return ["btclib_secp256k1 bindings not installed: the bindings arm cannot be observed"]
    s = m["stats"]
    for e in ENTRIES:
        if not s.get(f"served:{e}"):
            out.append(f"entry {e}: the bindings arm was never observed serving a call")
        if not s.get(f"hostile:{e}") and e not in ("engine.verify_input",):
            out.append(f"entry {e}: no hostile input was tried")
    if not m["arms"].get("bindings") or not m["arms"].get("python"):
        out.append("dispatch predicate never observed on both arms")
    return out


# ------------------------------------------------------------ canonical form
def canon(v):
    if v is None or isinstance(v, (bool, int, str)):
        return v
    if isinstance(v, (bytes, bytearray, memoryview)):
        return bytes(v)
    if isinstance(v, (list, tuple)):
        return tuple(canon(x) for x in v)
    if isinstance(v, dict):
        return tuple(sorted((canon(k), canon(x)) for k, x in v.items()))
    if hasattr(v, "serialize"):
        try:
            return ("ser", type(v).__name__, v.serialize(check_validity=False))
        except TypeError:
            return ("ser", type(v).__name__, v.serialize())
    if hasattr(v, "__dataclass_fields__"):
        return (type(v).__name__,) + tuple(canon(getattr(v, f)) for f in v.__dataclass_fields__)
    return repr(v)


def canon_outcome(o):
    return ("ok", canon(o[1])) if o[0] == "ok" else ("raise", type(o[1]).__module__ + "." + type(o[1]).__name__)


class ArmCounter:
    def __init__(self, ctx):
        self.ctx = ctx
        self.served = 0
        self.declined = 0

    def install(self):
        from btclib.curves import curve

        orig = curve._libsecp256k1_serves

        def w(*a, **kw):
            r = orig(*a, **kw)
            if r:
                self.served += 1
                self.ctx.arms["bindings"] += 1
            else:
                self.declined += 1
                self.ctx.arms["python"] += 1
            return r

        w.__wrapped_original__ = orig
        return rebind(orig, w)


def compare(ctx: Ctx, arms: ArmCounter, entry: str, label: str, make, hostile: bool, key) -> None:
    """``make()`` returns a zero-argument callable over freshly built arguments."""
    set_backend(True)
    s0 = arms.served
    on = canon_outcome(outcome(make()))
    served = arms.served - s0
    set_backend(False)
    s1 = arms.served
    off = canon_outcome(outcome(make()))
    leaked = arms.served - s1
    set_backend(True)
    if leaked and not label.endswith("the-other-arm"):   # those flows switch the backend themselves, on purpose
        ctx.violation(f"switch-ignored:{entry}", f"{entry}: the bindings served {leaked} call(s) while switched off", {"entry": entry, "label": label})
    if on != off:
        kind = "value" if on[0] == off[0] == "ok" else ("exception-class" if on[0] == off[0] else "answer-vs-refusal")
        ctx.violation(f"arms-differ:{entry}:{kind}", f"{entry} [{label}]: bindings -> {str(on)[:160]} ; python -> {str(off)[:160]}",
                      {"entry": entry, "label": label, "bindings": on, "python": off, "args": key})
    ctx.case(f"{entry}:{'hostile' if hostile else 'valid'}", (entry, label, key), nontrivial=bool(served),
             sample={"entry": entry, "label": label, "outcome": str(on)[:120]})
    if served:
        ctx.stats[f"served:{entry}"] += 1
    else:
        ctx.stats[f"declined:{entry}"] += 1
    if hostile:
        ctx.stats[f"hostile:{entry}"] += 1
    ctx.stats[f"outcome:{on[0]}"] += 1


# ------------------------------------------------------------------ inputs
def H(*a) -> bytes:
    return hashlib.sha256(repr(a).encode()).digest()


class Inputs:
    def __init__(self, rng):
        from btclib.curves.curve import mult, secp256k1

        self.r = rng
        self.ec = secp256k1
        self.mult = mult
        self.G = tuple(secp256k1.G)

    def scalar(self, hostile=False):
        r = self.r
        if hostile:
            return r.choice([0, N, N + 1, 2 * N, -1, -N, N - 1, 1, 1 << 256, (1 << 256) - 1, r.randrange(N, 1 << 257), -r.randrange(1, N)])
        return r.choice([1, 2, N - 1, N - 2, r.randrange(1, N), r.randrange(1, N), r.randrange(1, 1 << 128), (1 << 255) + r.randrange(1000)])

    def point(self, hostile=False):
        r = self.r
        if hostile:
            k = r.randrange(6)
            if k == 0:
                return (5, 0)                                  # infinity
            if k == 1:
                return (r.randrange(P), r.randrange(1, P))     # off curve (overwhelmingly)
            if k == 2:
                Q = self.mult(r.randrange(1, N))
                return (Q[0], P - Q[1] + 0) if r.random() < 0.5 else (Q[0] + P, Q[1])
            if k == 3:
                return (P, 1)
            if k == 4:
                Q = self.mult(r.randrange(1, N))
                return (Q[0], Q[1] + P)
            return (0, 0)
        return self.mult(r.choice([1, 2, N - 1, r.randrange(1, N)]))

    def sec(self, Q=None, hostile=False):
        from btclib.curves.sec_point import bytes_from_point

        r = self.r
        Q = Q or self.mult(r.randrange(1, N))
        if not hostile:
            return bytes_from_point(Q, self.ec, r.random() < 0.6)
        xb, yb = Q[0].to_bytes(32, "big"), Q[1].to_bytes(32, "big")
        return r.choice([
            b"", b"\x02", b"\x02" + xb[:-1], b"\x02" + xb + b"\x00", b"\x05" + xb, b"\x00" + xb, b"\x04" + xb + yb[:-1],
            bytes([6 + (Q[1] & 1)]) + xb + yb, bytes([7 - (Q[1] & 1)]) + xb + yb, b"\x04" + xb + (P - Q[1] - 1).to_bytes(32, "big"),
            b"\x02" + (P + 1).to_bytes(32, "big"), b"\x02" + (5).to_bytes(32, "big"), b"\x03" + bytes(32), b"\x04" + bytes(64), xb, bytes(33), bytes(65),
            b"\x02" + b"\xff" * 32,
        ])

    def xonly(self, hostile=False):
        r = self.r
        Q = self.mult(r.randrange(1, N))
        xb = Q[0].to_bytes(32, "big")
        if not hostile:
            return xb
        return r.choice([bytes(32), (P).to_bytes(32, "big"), (P + 5).to_bytes(32, "big"), (5).to_bytes(32, "big"), xb[:31], xb + b"\x00", b"",
                         b"\xff" * 32, b"\x02" + xb])

    def msg(self, n=None):
        r = self.r
        n = r.choice([0, 1, 31, 32, 33, 64, 100]) if n is None else n
        return bytes(r.randrange(256) for _ in range(n))


# ------------------------------------------------------------------ registry
def shard_entries(ctx: Ctx) -> None:  # noqa: C901, PLR0912, PLR0915
    from btclib.bip32 import bip32
    from btclib.curves.curve import PreparedPoint, _multi_mult_x_only_var, _sum_var, _tweak_add_var, double_mult_var, mult, multi_mult_var, secp256k1
    from btclib.curves.sec_point import _mult_sec_var, bytes_from_point, bytes_from_prv_key_int, point_from_octets
    from btclib.ecc import bms, dh, dsa, ellswift, musig2, ssa
    from btclib.ecc.commit_nonce import commit_nonce_
    from btclib.script import taproot
    from btclib.script.engine.script import dsa_verify as e_dsa_verify
    from btclib.script.engine.tapscript import ssa_verify as e_ssa_verify
    from btclib import silent_payments as sp
    from btclib.tx import OutPoint

    if not backend_available():
        ctx.inconclusive_("bindings not installed")
        return
    arms = ArmCounter(ctx)
    arms.install()
    reach = Reach()
    for d in ("btclib.curves.curve:_libsecp256k1_multi_mult", "btclib.ecc.dsa:_libsecp256k1_sign_", "btclib.bip32.bip32:_pub_key_tweak_chain",
              "btclib.script.taproot:_tweaked_pubkey", "btclib.script.taproot:_tweaked_prvkey", "btclib.silent_payments:_delegated_output_keys",
              "btclib.silent_payments:_delegated_scan_outputs", "btclib.ecc.musig2:_bindings_session"):
        reach.watch_path(d)
    reach.start()
    I = Inputs(ctx.rng)
    r = ctx.rng
    ec = secp256k1
    todo = set(ctx.params["entries"])

    def go(entry, label, make, hostile, key):
        if entry in todo:
            compare(ctx, arms, entry, label, make, hostile, key)

    root = bip32.rootxprv_from_seed(H("seed", ctx.seed))
    for rnd in range(ctx.params["rounds"]):
        if ctx.out_of_time():
            ctx.notes.append(f"{ctx.shard}: budget reached after {rnd} rounds")
            break
        for hostile in (False, True):
            m, Q = I.scalar(hostile), I.point(hostile and r.random() < 0.5)
            Q2 = I.point(False)
            go("mult", "m*Q", lambda: (lambda: mult(m, Q, ec)), hostile, (m, Q))
            go("mult", "m*G", lambda: (lambda: mult(m, None, ec)), hostile, (m,))
            go("prepared_mult", "pp", lambda: (lambda: PreparedPoint(Q, ec).mult(m)), hostile, (m, Q))
            u, v = I.scalar(hostile), I.scalar(hostile and r.random() < 0.5)
            if hostile and r.random() < 0.3:
                Q2 = Q  # H == Q
            go("double_mult", "uH+vQ", lambda: (lambda: double_mult_var(u, Q, v, Q2, ec)), hostile, (u, Q, v, Q2))
            t = r.choice([1, 2, 3, 5]) if not hostile else r.choice([0, 1, 2, 60])
            scal = [I.scalar(hostile and r.random() < 0.3) for _ in range(t)]
            pts = [I.point(hostile and r.random() < 0.2) for _ in range(t if not (hostile and r.random() < 0.2) else t + 1)]
            if hostile and t >= 2 and r.random() < 0.3:   # cancelling pair
                pts[1] = pts[0]
                scal[1] = (-scal[0]) % N
            go("multi_mult", f"{t}-terms", lambda: (lambda: multi_mult_var(list(scal), list(pts), ec)), hostile, (tuple(scal), tuple(pts)))
            spts = [I.point(hostile and r.random() < 0.3) for _ in range(r.choice([0, 1, 2, 3, 5]) if hostile else r.choice([2, 3, 4]))]
            if hostile and len(spts) >= 2 and r.random() < 0.4:
                spts[1] = (spts[0][0], (P - spts[0][1]) % P)   # P + (-P)
            go("sum_var", f"{len(spts)}-points", lambda: (lambda: _sum_var(list(spts), ec)), hostile, tuple(spts))
            tw = I.scalar(hostile) % (1 << 256) if not hostile else r.choice([0, N, N - 1, 1, (N - 7) % N])
            Pt = I.point(hostile and r.random() < 0.3)
            if hostile and r.random() < 0.3:
                kk = r.randrange(1, N)
                Pt, tw = mult(kk), N - kk         # P + t*G == infinity
            go("tweak_add", "P+tG", lambda: (lambda: _tweak_add_var(Pt, tw, ec)), hostile, (Pt, tw))
            xs = [int.from_bytes(I.xonly(hostile and r.random() < 0.4)[:32].ljust(32, b"\0"), "big") for _ in range(r.choice([2, 3]))]
            sc2 = [I.scalar(False) for _ in xs]
            go("multi_mult_x_only", "x-only-sum", lambda: (lambda: _multi_mult_x_only_var(list(sc2), list(xs), ec)), hostile, (tuple(sc2), tuple(xs)))
            sec = I.sec(hostile=hostile)
            go("point_from_octets", "octets", lambda: (lambda: point_from_octets(sec, ec)), hostile, sec)
            go("point_from_octets", "octets-hybrid", lambda: (lambda: point_from_octets(sec, ec, hybrid=True)), hostile, (sec, "h"))
            cflag = r.random() < 0.5
            go("bytes_from_prv_key_int", "q*G octets", lambda: (lambda: bytes_from_prv_key_int(m, ec, cflag)), hostile, (m, cflag))
            vsec = I.sec(hostile=False)   # private helper: "sec: the SEC octets that prove it one" is its precondition
            mm = m % N
            go("mult_sec", "m*sec", lambda: (lambda: _mult_sec_var(vsec, mm, ec)), hostile, (vsec, mm))

            # ---------------- ECDSA
            d = I.scalar(hostile and r.random() < 0.4)
            msg = I.msg()
            mh = H("mh", rnd, hostile) if not hostile else r.choice([H("x", rnd), bytes(32), b"\xff" * 32, I.msg(31), I.msg(33), b""])
            low = r.random() < 0.7
            nonce = r.choice([None, None, I.scalar(hostile)])
            go("dsa.sign_", "sign_", lambda: (lambda: dsa.sign_(mh, d, nonce, low)), hostile, (mh, d, nonce, low))
            go("dsa.sign", "sign", lambda: (lambda: dsa.sign(msg, d, nonce, low)), hostile, (msg, d, nonce, low))
            go("dsa.sign_recoverable_", "recoverable", lambda: (lambda: dsa.sign_recoverable_(mh, d, nonce, low)), hostile, (mh, d, nonce, low, "r"))
            dk = r.randrange(1, N)
            QK = mult(dk)
            mh32 = H("v", rnd, hostile)
            set_backend(True)
            sig = dsa.sign_(mh32, dk)
            if hostile:
                sigv = r.choice([dsa.Sig(sig.r, N - sig.s), dsa.Sig(sig.r, sig.s + 1 if sig.s + 1 < N else 1), b"", b"\x30\x00", sig.serialize()[:-1],
                                 sig.serialize() + b"\x00", dsa.Sig(N - 1, 1, check_validity=False), dsa.Sig(0, 1, check_validity=False),
                                 dsa.Sig(sig.r, 0, check_validity=False), dsa.Sig(sig.r, N, check_validity=False), bytes(70)])
                key = r.choice([QK, I.sec(QK, True), I.point(True), bytes_from_point(mult(dk + 1)), I.xonly(False)])
                craft = r.randrange(6)
                e_ = int.from_bytes(mh32, "big") % N
                if craft == 0 and e_:
                    # s*R == e*G: the key this signature recovers to is the point at infinity
                    kk = r.randrange(1, N)
                    rr = mult(kk)[0] % N
                    if rr:
                        sigv = dsa.Sig(rr, e_ * pow(kk, -1, N) % N)
                        ctx.stat("crafted:dsa-recovers-infinity")
                elif craft == 1 and e_:
                    # e + r*q == 0: under this key every s makes the verification point K infinite
                    rr = mult(r.randrange(1, N))[0] % N
                    if rr:
                        qinf = (-e_ * pow(rr, -1, N)) % N
                        key = r.choice([mult(qinf), bytes_from_point(mult(qinf))])
                        sigv = dsa.Sig(rr, r.randrange(1, N))
                        ctx.stat("crafted:dsa-verification-point-infinite")
            else:
                sigv = r.choice([sig, sig.serialize()])
                key = r.choice([QK, bytes_from_point(QK), bytes_from_point(QK, ec, False)])
            go("dsa.verify_", "verify_", lambda: (lambda: dsa.verify_(mh32, key, sigv)), hostile, (mh32, key, canon(sigv)))
            go("dsa.assert_as_valid_", "assert", lambda: (lambda: dsa.assert_as_valid_(mh32, key, sigv)), hostile, (mh32, key, canon(sigv), "a"))
            go("dsa.recover_pub_keys_", "recover-all", lambda: (lambda: dsa.recover_pub_keys_(mh32, sigv)), hostile, (mh32, canon(sigv)))
            kid = r.choice([0, 1, 2, 3]) if not hostile else r.choice([-1, 4, 0, 3, 2, 255])
            go("dsa.recover_pub_key_", "recover-one", lambda: (lambda: dsa.recover_pub_key_(kid, mh32, sigv)), hostile, (kid, mh32, canon(sigv)))

            def signer_flow():
                def f():
                    s = dsa.Signer(d)
                    a = s.sign_(mh32)
                    s.wipe()
                    try:
                        s.sign_(mh32)
                        after = "signed-after-wipe"
                    except Exception as e:  # noqa: BLE001
                        after = type(e).__name__
                    return (a, after)
                return f
            go("dsa.Signer", "Signer", signer_flow, hostile, (d, mh32))

            def crossing_signer(mod, aux=None):
                """A signer built while one arm serves and asked while the other does: turning the backend on or off at
                run time changes speed and nothing else, for an object alive across the switch as for a call."""
                def make():
                    def f():
                        import btclib.curves.curve as C
                        now = bool(getattr(C, "_libsecp256k1_available", True))
                        set_backend(not now)
                        s = mod.Signer(d)
                        set_backend(now)
                        a = s.sign_(mh32) if aux is None else s.sign_(mh32, aux)
                        set_backend(not now)
                        b = s.sign_(mh32) if aux is None else s.sign_(mh32, aux)
                        set_backend(now)
                        return (a, b)
                    return f
                return make
            if not hostile and backend_available():
                go("dsa.Signer", "Signer-built-on-the-other-arm", crossing_signer(dsa), False, (d, mh32, "x"))

            # ---------------- BIP340
            aux = r.choice([bytes(32), b"\xff" * 32, H("aux", rnd)]) if not hostile else r.choice([bytes(32), b"", bytes(31), bytes(33)])
            smsg = I.msg()
            go("ssa.sign_", "sign_", lambda: (lambda: ssa.sign_(smsg, d, aux)), hostile, (smsg, d, aux))
            set_backend(True)
            ssig = ssa.sign_(smsg, dk, bytes(32))
            xq = QK[0].to_bytes(32, "big")
            if hostile:
                sv = r.choice([ssa.Sig(ssig.r, (ssig.s + 1) % N or 1), ssig.serialize()[:-1], ssig.serialize() + b"\x00", b"",
                               ssa.Sig(P - 1, ssig.s, check_validity=False), ssa.Sig(ssig.r, N, check_validity=False),
                               ssa.Sig(ssig.r, 0, check_validity=False), ssa.Sig(5, ssig.s, check_validity=False), bytes(64), ssig])
                kq = r.choice([xq, I.xonly(True), bytes_from_point(QK), bytes_from_point(QK, ec, False), QK, I.point(True), QK[0]])
                if r.randrange(5) == 0:
                    # s == e*q for the even-y key: s*G - e*Q is the point at infinity (a nonce zeroed after its point was made)
                    from btclib.hashes import tagged_hash as _th340
                    rr = mult(r.randrange(1, N))[0]
                    qe = dk if QK[1] % 2 == 0 else N - dk
                    e_ = int.from_bytes(_th340(b"BIP0340/challenge", rr.to_bytes(32, "big") + xq + bytes(smsg)), "big") % N
                    if e_ * qe % N:
                        sv = ssa.Sig(rr, e_ * qe % N)
                        kq = r.choice([xq, QK[0]])
                        ctx.stat("crafted:ssa-verification-point-infinite")
            else:
                sv = r.choice([ssig, ssig.serialize()])
                kq = r.choice([xq, QK[0], bytes_from_point(QK), QK])
            go("ssa.verify_", "verify_", lambda: (lambda: ssa.verify_(smsg, kq, sv)), hostile, (smsg, canon(kq), canon(sv)))
            go("ssa.assert_as_valid_", "assert", lambda: (lambda: ssa.assert_as_valid_(smsg, kq, sv)), hostile, (smsg, canon(kq), canon(sv), "a"))
            bn = r.choice([1, 2, 3, 5, 30])
            keys = [r.randrange(1, N) for _ in range(bn)]
            bm = [I.msg(r.choice([0, 32, 40])) for _ in range(bn)]
            set_backend(True)
            bs = [ssa.sign_(mm, kk, bytes(32)) for mm, kk in zip(bm, keys)]
            bq = [mult(kk)[0].to_bytes(32, "big") for kk in keys]
            if hostile:
                j = r.randrange(bn)
                what = r.randrange(5)
                if what == 0:
                    bs[j] = ssa.Sig(bs[j].r, (bs[j].s + 1) % N or 1)
                elif what == 1:
                    bq[j] = I.xonly(True)
                elif what == 2 and bn >= 2:      # cancelling pair
                    i2 = (j + 1) % bn
                    bs[j] = ssa.Sig(bs[j].r, (bs[j].s + 5) % N or 1)
                    bs[i2] = ssa.Sig(bs[i2].r, (bs[i2].s - 5) % N or 1)
                elif what == 3:
                    bm = bm[:-1]
                else:
                    bs[j] = ssa.Sig(5, bs[j].s, check_validity=False)
            go("ssa.batch_verify_", f"batch-{bn}", lambda: (lambda: ssa.batch_verify_(list(bm), list(bq), list(bs))), hostile,
               (tuple(bm), tuple(bq), canon(bs)))

            def ssigner_flow():
                def f():
                    s = ssa.Signer(d)
                    a = s.sign_(smsg, aux)
                    s.wipe()
                    try:
                        s.sign_(smsg, aux)
                        after = "signed-after-wipe"
                    except Exception as e:  # noqa: BLE001
                        after = type(e).__name__
                    return (a, after)
                return f
            go("ssa.Signer", "Signer", ssigner_flow, hostile, (d, smsg, aux))
            if not hostile and backend_available():
                go("ssa.Signer", "Signer-built-on-the-other-arm", crossing_signer(ssa, bytes(32)), False, (d, mh32, "x"))

            # ---------------- bms
            from btclib.to_prv_key import prv_keyinfo_from_prv_key  # noqa: F401
            from btclib import b58, b32
            wifk = r.randrange(1, N)
            comp = r.random() < 0.7
            wif = b58.wif_from_prv_key(wifk, "mainnet", comp)
            pubc = bytes_from_point(mult(wifk), ec, comp)
            addrs = [b58.p2pkh(pubc)] + ([b32.p2wpkh(pubc), b58.p2wpkh_p2sh(pubc)] if comp else [])
            addr = r.choice(addrs)
            bmsg = I.msg()
            saddr = addr if not hostile or r.random() < 0.5 else b58.p2pkh(bytes_from_point(mult(3)))
            go("bms.sign", "sign", lambda: (lambda: bms.sign(bmsg, wif, saddr)), hostile, (bmsg, wif, saddr))
            set_backend(True)
            bsig = bms.sign(bmsg, wif, addr)
            if hostile:
                raw = bytearray(bsig.serialize())
                k = r.randrange(4)
                if k == 0:
                    raw[r.randrange(1, 65)] ^= 1
                elif k == 1:
                    raw[0] = r.choice([26, 27, 35, 42, 43, 0, 255])
                elif k == 2:
                    raw = raw[:-1]
                vsig = r.choice([bytes(raw), bsig.b64encode()[:-2] + "AA", "", "not base64 !"]) if k != 3 else bsig
                vaddr = r.choice(addrs + [b58.p2pkh(bytes_from_point(mult(7))), "bc1qxxxx", ""]) if k == 3 else addr
            else:
                vsig, vaddr = r.choice([bsig, bsig.b64encode(), bsig.serialize()]), addr
            go("bms.verify", "verify", lambda: (lambda: bms.verify(bmsg, vaddr, vsig)), hostile, (bmsg, vaddr, canon(vsig)))
            go("bms.assert_as_valid", "assert", lambda: (lambda: bms.assert_as_valid(bmsg, vaddr, vsig)), hostile, (bmsg, vaddr, canon(vsig), "a"))
            if hostile and r.randrange(3) == 0:
                # a message signature whose named recovery candidate is the point at infinity (s*K == c*G)
                from btclib.hashes import magic_message, reduce_to_hlen
                c_ = int.from_bytes(reduce_to_hlen(magic_message(bmsg)), "big") % N
                if c_:
                    Kc = mult(c_)
                    rr = Kc[0] % N
                    if rr:
                        for base in (27, 31, 35, 39):
                            isig = bms.Sig(base + (Kc[1] & 1), dsa.Sig(rr, 1), check_validity=False)
                            go("bms.assert_as_valid", "assert-recovers-infinity", lambda isig=isig: (lambda: bms.assert_as_valid(bmsg, addr, isig)), True,
                               (bmsg, addr, base, "inf"))
                            go("bms.verify", "verify-recovers-infinity", lambda isig=isig: (lambda: bms.verify(bmsg, addr, isig)), True, (bmsg, addr, base, "infv"))
                        ctx.stat("crafted:bms-recovers-infinity")

            ch = H("c", rnd) if not hostile else r.choice([H("c", rnd), b"", bytes(31), bytes(33)])
            go("commit_nonce_", "commit", lambda: (lambda: commit_nonce_(ch, I.scalar(False) if False else d, b"tag")), hostile, (ch, d))

            # ---------------- BIP32
            def rnd_index(h):
                return r.choice([0, 1, 2**31 - 1, r.randrange(2**31)]) + (2**31 if h else 0)
            depth = r.randrange(1, 5)
            path_prv = [rnd_index(r.random() < 0.4) for _ in range(depth)]
            path_pub = [rnd_index(False) for _ in range(depth)]
            go("bip32.derive-prv", "xprv-path", lambda: (lambda: bip32.derive(root, list(path_prv))), False, tuple(path_prv))
            set_backend(True)
            acct = bip32.derive(root, [2**31 + rnd % 5])
            xpub = bip32.xpub_from_xprv(acct)
            if hostile:
                bad = bytearray(bip32.BIP32KeyData.b58decode(xpub).serialize())
                k = r.randrange(4)
                if k == 0:
                    bad[45:78] = b"\x02" + (5).to_bytes(32, "big")      # key not on curve
                elif k == 1:
                    bad[45] = 4
                elif k == 2:
                    bad[45:78] = bytes(33)
                from btclib.base58 import encode as b58encode
                xk = b58encode(bytes(bad)).decode() if k != 3 else xpub
                pth = path_pub if k != 3 else [2**31 + 1]              # hardened from a public key
                go("bip32.derive-pub", "hostile-xpub", lambda: (lambda: bip32.derive(xk, list(pth))), True, (xk, tuple(pth)))
                badp = r.choice([[2**32], [-1], "m/x", "m/1/2h/"])
                go("bip32.derive-prv", "hostile", lambda: (lambda: bip32.derive(root, badp)), True, ("bad-path", repr(badp)))
            else:
                go("bip32.derive-pub", "xpub-path", lambda: (lambda: bip32.derive(xpub, list(path_pub))), False, (xpub, tuple(path_pub)))
            kd = bip32.BIP32KeyData.b58decode(xpub)
            pk, cc = (kd.key, kd.chain_code) if not hostile else r.choice([(I.sec(hostile=True), kd.chain_code), (kd.key, bytes(31)), (bytes(33), kd.chain_code)])
            go("bip32.tweaks", "tweaks", lambda: (lambda: bip32.pub_key_derivation_tweaks(pk, cc, list(path_pub))), hostile, (pk, cc, tuple(path_pub)))
            go("bip32.xpub_from_xprv", "neuter", lambda: (lambda: bip32.xpub_from_xprv(acct if not hostile else xpub)), hostile, (acct, hostile))

            # ---------------- taproot
            ik = r.choice([xq, bytes_from_point(QK), QK]) if not hostile else r.choice([I.xonly(True), I.sec(hostile=True), I.point(True)])
            tree = r.choice([None, [(0xC0, ["OP_1"])], [[(0xC0, ["OP_1"])], [(0xC0, ["OP_2"])]]])
            go("taproot.output_pubkey", "output_pubkey", lambda: (lambda: taproot.output_pubkey(ik, tree)), hostile, (canon(ik), repr(tree)))
            pv = dk if not hostile else r.choice([0, N, N + 5, -1])
            go("taproot.output_prvkey", "output_prvkey", lambda: (lambda: taproot.output_prvkey(pv, tree)), hostile, (pv, repr(tree)))
            set_backend(True)
            leaf_script = b"\x51"
            tr2 = [[(0xC0, ["OP_1"])], [(0xC0, ["OP_2"])]]
            qout, _par = taproot.output_pubkey(xq, tr2)
            def _th(tag, m):
                t = hashlib.sha256(tag).digest()
                return hashlib.sha256(t + t + m).digest()
            ctrl = bytes([0xC0 | _par]) + xq + _th(b"TapLeaf", b"\xc0\x01\x52")
            if ctrl is not None:
                qq, sc, cb = qout, leaf_script, ctrl
                if hostile:
                    k = r.randrange(6)
                    if k == 0:
                        cb = bytes([cb[0] ^ 1]) + cb[1:]
                    elif k == 1:
                        cb = cb[:-1]
                    elif k == 2:
                        qq = I.xonly(True)
                    elif k == 3:
                        sc = b"\x52"
                    elif k == 4:
                        cb = cb[:1] + (5).to_bytes(32, "big") + cb[33:]     # internal key not on curve
                    else:
                        cb = cb[:1] + bytes(32) + cb[33:]
                go("taproot.check_output_pubkey", "check", lambda: (lambda: taproot.check_output_pubkey(qq, sc, cb)), hostile, (qq, sc, cb))

            # ---------------- ECDH / ElligatorSwift
            dU = I.scalar(hostile)
            QV = I.point(hostile and r.random() < 0.6)
            go("dh.diffie_hellman", "ecdh", lambda: (lambda: dh.diffie_hellman(dU, QV, 32)), hostile, (dU, QV))
            ell = bytes(r.randrange(256) for _ in range(64)) if not hostile else r.choice([bytes(64), b"\xff" * 64, bytes(63), bytes(65), b"",
                                                                                             (P).to_bytes(32, "big") + bytes(32)])
            go("ellswift.decode_var", "decode", lambda: (lambda: ellswift.decode_var(ell)), hostile, ell)
            go("ellswift.create-decode", "create-then-decode", lambda: (lambda: ellswift.decode_var(ellswift.create_var(d))), hostile, (d, "cd"))
            set_backend(True)
            ea, eb = ellswift.create_var(dk), ellswift.create_var(dk + 1)
            party = r.choice([0, 1]) if not hostile else r.choice([2, -1, 0])
            pa = dk if not hostile else r.choice([0, N, dk])
            go("ellswift.xdh", "xdh", lambda: (lambda: ellswift.xdh(ea, eb, pa, party)), hostile, (ea, eb, pa, party))

            # ---------------- MuSig2 partial verification
            set_backend(True)
            sks = [r.randrange(1, N) for _ in range(r.choice([1, 2, 3]))]
            pks = [bytes_from_point(mult(k)) for k in sks]
            mmsg = I.msg(r.choice([0, 32, 50]))
            nn = [musig2.nonce_gen(k, pk_, None, mmsg, None) for k, pk_ in zip(sks, pks)]
            aggn = musig2.nonce_agg([x[1] for x in nn])
            tweaks = [H("tw", rnd, j) for j in range(r.choice([0, 1, 2]))]
            xonly_flags = [r.random() < 0.5 for _ in tweaks]

            def mk_session():
                return musig2.SessionContext(aggn, list(pks), list(tweaks), list(xonly_flags), mmsg)
            psig = musig2.sign(bytearray(nn[0][0]), sks[0], mk_session())
            pn, ppk, pps = nn[0][1], pks[0], psig
            if hostile:
                k = r.randrange(5)
                if k == 0:
                    pps = ((int.from_bytes(psig, "big") + 1) % N).to_bytes(32, "big")
                elif k == 1:
                    pps = N.to_bytes(32, "big")
                elif k == 2:
                    pn = pn[:33] + I.sec(hostile=True)[:33].ljust(33, b"\0")
                elif k == 3:
                    ppk = bytes_from_point(mult(99))     # not a signer
                else:
                    pps = psig[:-1]
            go("musig2.partial_sig_verify_", "partial-verify", lambda: (lambda: musig2.partial_sig_verify_(pps, pn, ppk, mk_session())), hostile,
               (pps, pn, ppk, tuple(pks), tuple(tweaks), tuple(xonly_flags), mmsg))

            # ---------------- silent payments
            set_backend(True)
            b_scan, b_spend = r.randrange(1, N), r.randrange(1, N)
            B_scan, B_spend = mult(b_scan), mult(b_spend)
            addr_sp = sp.address_from_keys(B_scan, B_spend)
            addr_l = sp.labeled_address_from_keys(b_scan, B_spend, 1)
            n_in = r.choice([1, 2, 3])
            in_keys = [r.randrange(1, N) for _ in range(n_in)]
            spks = []
            for k in in_keys:
                Pk = mult(k)
                if r.random() < 0.5:
                    spks.append(b"\x51\x20" + Pk[0].to_bytes(32, "big"))         # taproot input
                else:
                    from btclib.hashes import hash160
                    spks.append(b"\x00\x14" + hash160(bytes_from_point(Pk)))
            ops = [OutPoint(H("op", rnd, j), j) for j in range(n_in)]
            recips = r.choice([[addr_sp], [addr_sp, addr_sp], [addr_sp, addr_l], [addr_l]])
            prv_in = [(k, s) for k, s in zip(in_keys, spks)]
            if hostile:
                k = r.randrange(4)
                if k == 0:
                    recips = ["sp1qxxxx"]
                elif k == 1:
                    prv_in = [(0, spks[0])] + prv_in[1:]
                elif k == 2 and n_in >= 1:
                    prv_in = [(in_keys[0], spks[0]), (N - in_keys[0], spks[0])] if spks[0][0] == 0 else prv_in   # keys cancelling
                else:
                    ops = []
            go("sp.output_keys", "sender", lambda: (lambda: sp.output_keys(list(prv_in), list(ops), list(recips))), hostile,
               (tuple(prv_in), canon(ops), tuple(recips)))
            set_backend(True)
            o = outcome(sp.output_keys, [(k, s) for k, s in zip(in_keys, spks)], [OutPoint(H("op", rnd, j), j) for j in range(n_in)],
                        [addr_sp, addr_l])
            if o[0] == "ok":
                outs = list(o[1])
                pubs_in = []
                for k, s in zip(in_keys, spks):
                    Pk = mult(k)
                    pubs_in.append((Pk, s))
                labels = sp.label_lookup(b_scan, [1])
                decoys = [mult(r.randrange(1, N))[0].to_bytes(32, "big") for _ in range(r.choice([0, 1, 3]))]
                check = outs + decoys
                r.shuffle(check)
                ops2 = [OutPoint(H("op", rnd, j), j) for j in range(n_in)]
                if hostile:
                    k = r.randrange(4)
                    if k == 0:
                        check = check + [(5).to_bytes(32, "big")]       # not an x coordinate
                    elif k == 1:
                        check = check + [bytes(32), (P + 1).to_bytes(32, "big")]
                    elif k == 2:
                        check = check + [outs[0][:31]]
                    else:
                        pubs_in = [(I.point(True), spks[0])] + pubs_in[1:]
                go("sp.scan_transaction_outputs", "full-scan", lambda: (lambda: sp.scan_transaction_outputs(b_scan, B_spend, list(ops2), list(pubs_in),
                   list(check), dict(labels))), hostile, (b_scan, B_spend, canon(ops2), canon(pubs_in), tuple(check)))
                A_sum = sp.pub_key_sum([p for p, _ in pubs_in]) if not hostile else None
                if A_sum is not None:
                    tw_pt = sp.tweak_data(ops2, A_sum)
                    go("sp.scan_outputs", "scan", lambda: (lambda: sp.scan_outputs(b_scan, B_spend, tw_pt, list(check), dict(labels))), False,
                       (b_scan, B_spend, tw_pt, tuple(check)))
                else:
                    tw_bad = I.point(True)
                    go("sp.scan_outputs", "scan-hostile", lambda: (lambda: sp.scan_outputs(b_scan, B_spend, tw_bad, list(check), dict(labels))), True,
                       (b_scan, B_spend, tw_bad, tuple(check)))

            # ---------------- engine wrappers
            der = sig.serialize()
            pkb = bytes_from_point(QK, ec, r.random() < 0.5)
            if hostile:
                pkb = r.choice([pkb, I.sec(QK, True), bytes([6 + (QK[1] & 1)]) + QK[0].to_bytes(32, "big") + QK[1].to_bytes(32, "big")])
                der = r.choice([der, der[:-1], der + b"\x00", b"", b"\x30\x06\x02\x01\x00\x02\x01\x00", dsa.Sig(sig.r, sig.s - 1 or 1).serialize()])
            go("engine.dsa_verify", "dsa_verify", lambda: (lambda: e_dsa_verify(mh32, pkb, der)), hostile, (mh32, pkb, der))
            s64 = ssa.sign_(mh32, dk, bytes(32)).serialize()
            xk = xq if not hostile else r.choice([xq, I.xonly(True)])
            s64 = s64 if not hostile else r.choice([s64, s64[:-1], s64 + b"\x01", bytes(64), s64[:32] + N.to_bytes(32, "big")])
            go("engine.ssa_verify", "ssa_verify", lambda: (lambda: e_ssa_verify(mh32, xk, s64)), hostile, (mh32, xk, s64))
    set_backend(True)
    reach.stop()
    reach.report(ctx)


def shard_engine(ctx: Ctx) -> None:
    """Whole-input verdicts of the script engine on both arms, over C08's signature-bearing spends."""
    from ..gen.spends import Gen
    from .c08 import Lib

    if not backend_available():
        ctx.inconclusive_("bindings not installed")
        return
    arms = ArmCounter(ctx)
    arms.install()
    lib = Lib()
    g = Gen(ctx.rng)
    makers = [g.sig_spend, g.sig_spend, g.tap_keypath, g.tap_scriptpath]
    for it in range(ctx.params["cases"]):
        if ctx.out_of_time():
            break
        case = makers[it % len(makers)]()

        def make():
            return lambda: lib.run(case)

        def make2():
            def f():
                o = lib.run(case)
                if o[0] == "raise":
                    raise o[1]
                return True
            return f
        compare(ctx, arms, "engine.verify_input", case.tag, make2, False, case.key())
        ctx.stats["hostile:engine.verify_input"] += 0
    set_backend(True)
