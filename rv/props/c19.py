"""C19 - hostile input is refused with library exceptions only; predicates are total.

Exception-class / stream-position / termination monitor around every public
parse / decode / from_dict / b58decode / b64decode / from_* entry point and every
verify-style predicate.  Inputs are structure-aware mutants of valid encodings
(``rv.gen.hostile``): the field map of a binary encoding is the list of reads the
parser itself performs on it, so every length / count / type / marker field is set
to every boundary value without the generator knowing the format; mutants of
accepted or late-refused mutants go to depth 6.

Oracle (nothing here computes an expected *value*):
 1. an exception escaping an entry point that is not a BTClibException   -> violation
 2. a boolean verifier raising anything, or answering a non-bool            -> violation
 3. after a successful parse from a caller's stream with a sentinel tail, the stream
    is on the octet after the object                                        -> else violation
 4. an accepted object makes a consumer raise a non-library exception       -> violation
 5. a call exceeding 5 s is re-run alone with 60 s; exceeding that on an input of
    at most 64 KiB                                                          -> violation (hang)
"""

from __future__ import annotations

import json
import os
import pickle
import signal
import subprocess
import sys
import tempfile
import time
import traceback
import warnings

from ..ctx import Ctx, is_lib_exc

PROPERTY = "C19"
RULE = (
    "registry of public parse/decode/from_dict/b58decode/b64decode/from_* entry points and verify-style predicates (cross-checked "
    "against introspection of btclib.* __all__); per entry: valid seeds (vendored vectors, objects built and serialized) -> every "
    "field of the parser's own read map x every boundary value / CompactSize spelling / truncation / extension / deletion / "
    "duplication (depth 1), then mutants of accepted or late-refused mutants and several fields at once (depth 2..6), splices, "
    "bit flips, 5% uniform noise; text with non-ASCII digits and look-alikes, lone surrogates, NULs, whitespace variants, digit "
    "runs beyond the int/str limit, 10^5-character tokens, nesting to 10^4; JSON: every JSON type in every path of every "
    "from_dict. Distinct = distinct (entry, input). An input counts as 'deep' for its entry when it was accepted, or the parser "
    "issued at least two reads on it (stream parsers), or it keeps a non-empty valid prefix of a seed (octet/text parsers), or all "
    "top-level keys are present (JSON)."
)
ASSUMPTIONS = [
    "the oracle is the class of the escaping exception (btclib.exceptions.BTClibException or not), bool-ness of a predicate's answer, "
    "BytesIO.tell() after a successful parse and termination within a CPU-time budget (5 s soft per call; 60 s alone in a fresh "
    "interpreter decides a hang, for inputs of at most 64 KiB); no expected value is computed, so no reference model is the oracle. "
    "rv/ref/descsum.py, rv/ref/base58.py and rv/ref/bech32.py only recompute checksums of mutated payloads (generator aids, self-tested "
    "on descriptor_checksums.json, base58_encode_decode.json, bip173_bip350.json)",
    "seeds are produced with the library's own constructors/serializers and from vendored vectors: a seed the entry point refuses is "
    "dropped and counted, never judged",
    "arguments are of the declared types (bytes/str/bytearray/memoryview for Octets/String, BytesIO for BinaryData, Mapping for "
    "from_dict with arbitrary JSON values inside); a top-level JSON value that is not an object is recorded as a statistic only",
    "encodings judged for stream position are those that are self-delimiting by specification; EOF-delimited ones are exempt and "
    "listed in evidence (stats exempt-eof:*): script.parse and taproot.parse (a script is the whole of its octets), BasicBlockFilter.parse "
    "(BIP158: the set runs to the end of its container), dsa.Sig.parse (strict DER: a byte after the sequence is not a DER signature), "
    "Version.parse (optional trailing relay flag; takes octets only)",
    "verify-style predicates are those the property lists (signature, proof, address/script-type, merkle branch, filter); functions that "
    "document a refusal for malformed input (taproot.check_output_pubkey, proof_of_work.is_negative_bits) are not held to totality",
]

SOFT_S = 5.0
HARD_S = 60.0
TAIL = bytes.fromhex("a55a17e9") * 24  # 96 octets no valid continuation is likely to be made of
MAX_HANG_INPUT = 64 * 1024

MECH = [
    "btclib.utils:read_exactly", "btclib.utils:fields_from_json_object", "btclib.utils:list_from_json_array",
    "btclib.utils:int_from_json_number", "btclib.utils:assert_no_trailing", "btclib.utils:bytes_from_octets",
    "btclib.var_int:parse", "btclib.psbt.psbt:_assert_map_count", "btclib.descriptors.miniscript:parse",
    "btclib.descriptors.miniscript:_tree_eval", "btclib.descriptors.descriptors:_parse_tree", "btclib.ecc.dsa:verify_",
    "btclib.ecc.ssa:verify_", "btclib.ecc.ssa:batch_verify_", "btclib.ecc.bms:verify", "btclib.bip322:verify",
    "btclib.ecc.dleq:verify_proof", "btclib.block.merkle_proof:verify", "btclib.script.engine.script:dsa_verify",
    "btclib.script.engine.tapscript:ssa_verify", "btclib.block.block_filter:BasicBlockFilter.match_any",
]


# =================================================================== guard
class _SoftTimeout(BaseException):
    pass


class _EntryAbandoned(Exception):
    """Too many inputs of one entry exceeded the soft budget: the rest of its workload is dropped (and said so)."""


def _on_alarm(_sig, _frm):
    raise _SoftTimeout()


def _violation(ctx: Ctx, mechanism: str, description: str, case) -> None:
    """ctx.violation, except that the first sample of a mechanism is always kept: the orchestrator reports a mechanism only
    through a kept sample, and a shard here can meet more than MAX_VIOLATIONS_KEPT / 3 distinct ones."""
    from ..ctx import MAX_VIOLATIONS_KEPT, jsonable

    ctx.violation_mechs[mechanism] += 1
    have = sum(1 for v in ctx.violations if v["mechanism"] == mechanism)
    if have == 0 or (have < 3 and len(ctx.violations) < MAX_VIOLATIONS_KEPT):
        ctx.violations.append({"mechanism": mechanism, "description": description[:600], "case": jsonable(case), "shard": ctx.shard})


def _cpu_of(pid: int) -> float | None:
    """User+system CPU seconds consumed by a live process (None when it is gone)."""
    try:
        with open(f"/proc/{pid}/stat") as f:
            parts = f.read().rsplit(")", 1)[1].split()
        return (int(parts[11]) + int(parts[12])) / os.sysconf("SC_CLK_TCK")
    except (OSError, IndexError, ValueError):
        return None


def install_guard() -> None:
    # budgets are CPU time of the process, not wall clock: a loaded machine must not turn a slow schedule into a verdict
    signal.signal(signal.SIGPROF, _on_alarm)
    warnings.simplefilter("ignore")
    try:
        import resource

        lim = 4 << 30
        resource.setrlimit(resource.RLIMIT_AS, (lim, lim))
    except Exception:  # noqa: BLE001 - no rlimit: the watchdog still bounds the shard
        pass


def guarded(f, *a, _soft=SOFT_S, **kw):
    """('ok', v) | ('raise', e) | ('timeout', None) with a soft wall-clock budget."""
    _beat()
    try:
        signal.setitimer(signal.ITIMER_PROF, _soft)
        try:
            return ("ok", f(*a, **kw))
        finally:
            signal.setitimer(signal.ITIMER_PROF, 0)
    except _SoftTimeout:
        return ("timeout", None)
    except RecursionError as e:
        return ("raise", e)
    except MemoryError as e:
        return ("raise", e)
    except Exception as e:  # noqa: BLE001 - classified by the caller
        return ("raise", e)


def lib_origin(e: BaseException) -> str | None:
    """'file:function' of the innermost btclib frame of the traceback; None if the library is not in it."""
    tb = traceback.extract_tb(e.__traceback__)
    for fr in reversed(tb):
        if "/btclib/" in fr.filename:
            return f"{fr.filename.split('/btclib/')[-1]}:{fr.name}"
    return None


def short(x, n=300):
    if isinstance(x, (bytes, bytearray, memoryview)):
        b = bytes(x)
        return "hex:" + (b.hex() if len(b) <= n else b[:n].hex() + f"...(+{len(b) - n})")
    if isinstance(x, str):
        return x if len(x) <= n else x[:n] + f"...(+{len(x) - n} chars)"
    if isinstance(x, (tuple, list)):
        return [short(v, n) for v in x[:12]]
    if isinstance(x, dict):
        return {str(k): short(v, n) for k, v in list(x.items())[:30]}
    return x if isinstance(x, (int, float, bool, type(None))) else repr(x)[:n]


def replayable(x):
    """Full input for the replay file when small enough, else a head + length."""
    if isinstance(x, (bytes, bytearray, memoryview)):
        b = bytes(x)
        return {"bytes_hex": b.hex()} if len(b) <= 8192 else {"bytes_hex_head": b[:2048].hex(), "len": len(b)}
    if isinstance(x, str):
        enc = x.encode("utf-8", "surrogatepass")
        return {"str_utf8_surrogatepass_hex": enc.hex()} if len(enc) <= 8192 else {"str_head": repr(x[:600]), "len": len(x)}
    try:
        s = json.dumps(x, default=repr)
        return {"json": s if len(s) <= 8192 else s[:2048] + "..."}
    except Exception:  # noqa: BLE001
        return {"repr": repr(x)[:2000]}


# =================================================================== entries
class Entry:
    def __init__(self, name, kind, fn, seeds, *, variants=None, eof=False, consume=None, tokens=None, nest=None, ident=None,
                 string_bytes=False, cap=None, weight=1.0, bytes_only=False):
        self.name, self.kind, self.fn = name, kind, fn
        self.seeds = list(seeds)
        self.variants = variants or [{}]
        self.eof = eof
        self.consume = consume
        self.tokens = tokens or []
        self.nest = nest
        self.ident = ident if ident is not None else fn
        self.string_bytes = string_bytes   # declared String/Octets: also hand the bytes spelling of a text
        self.cap = cap if cap is not None else MAX_HANG_INPUT   # longest input handed to it: a hang is judged up to 64 KiB
        self.weight = weight
        self.bytes_only = bytes_only       # declared ``bytes`` (not Octets): no hex-str / bytearray / memoryview spelling
        self.extra = None                  # generator of (text, label): payload mutated, checksum recomputed


# ------------------------------------------------------------------ journal
# A call stuck inside one C-level operation never returns to the interpreter, so SIGALRM cannot interrupt it.  The work
# therefore runs in a forked worker that writes, before every call, a heartbeat and the case it is about to run into
# memory shared with its supervisor; a heartbeat that stops for STALL_S gets the worker killed and the journalled case
# re-run alone under the hard budget.
STALL_S = SOFT_S + 4.0
_MM = None
_MM_SIZE = 1 << 21
_HB = 0


def _beat() -> None:
    global _HB
    if _MM is not None:
        _HB += 1
        _MM[0:8] = _HB.to_bytes(8, "little")


def _journal_case(case: dict) -> None:
    if _MM is None:
        return
    try:
        b = pickle.dumps(case, protocol=4)
    except Exception:  # noqa: BLE001 - e.g. a memoryview argument: journal its bytes instead
        try:
            c2 = dict(case)
            c2["input"] = _plain(case["input"])
            b = pickle.dumps(c2, protocol=4)
        except Exception:  # noqa: BLE001
            b = pickle.dumps({"name": case.get("name"), "unpicklable": True, "stage": "parse"})
    if len(b) > _MM_SIZE - 600:
        b = pickle.dumps({"name": case.get("name"), "too_large": len(b), "stage": "parse"})
    _MM[8:12] = len(b).to_bytes(4, "little")
    _MM[528:528 + len(b)] = b
    _journal_stage("parse")


def _journal_stage(stage: str) -> None:
    if _MM is None:
        return
    sb = stage.encode("utf-8", "replace")[:500]
    _MM[12:16] = len(sb).to_bytes(4, "little")
    _MM[16:16 + len(sb)] = sb
    _beat()


def _plain(x):
    if isinstance(x, (bytearray, memoryview)):
        return bytes(x)
    if isinstance(x, (list, tuple)):
        return type(x)(_plain(v) for v in x)
    return x


def _read_journal(mm) -> dict | None:
    n = int.from_bytes(mm[8:12], "little")
    if not n:
        return None
    try:
        case = pickle.loads(bytes(mm[528:528 + n]))
    except Exception:  # noqa: BLE001
        return None
    k = int.from_bytes(mm[12:16], "little")
    case["stage"] = bytes(mm[16:16 + k]).decode("utf-8", "replace") or "parse"
    return case


class Judge:
    """Oracle rules 1-5 around one call; all accounting goes through here."""

    def __init__(self, ctx: Ctx, dump_path: str | None = None, skip_stages=(), skip_inputs=(), reach=None):
        self.ctx = ctx
        self.pending_timeouts: list = []
        self.dump_path = dump_path
        self.skip_stages = set(skip_stages)
        self.skip_inputs = list(skip_inputs)
        self.reach = reach
        self._last_dump = time.time()
        self._case = None

    # ---- journal
    def mark(self, e: Entry, mode: str, vi: int, inp) -> bool:
        """Journal the case about to run.  False: this exact case hung before and is skipped."""
        case = {"name": e.name, "mode": mode, "variant": vi, "input": inp, "fn": e.fn if e.kind == "pred" else None,
                "kwargs": e.variants[vi] if e.kind == "pred" else None}
        for sk in self.skip_inputs:
            if sk.get("name") == e.name and sk.get("mode") == mode and sk.get("variant") == vi and _same(sk.get("input"), inp):
                self.ctx.stat("skipped-known-hanging-input")
                return False
        self._case = case
        _journal_case(case)
        if self.dump_path and time.time() - self._last_dump > 1.5:
            self.dump()
        return True

    def stage(self, stage: str) -> bool:
        """Journal the consumer about to run.  False: a hang was already recorded at this stage."""
        if stage in self.skip_stages:
            self.ctx.stat("skipped-known-hanging-stage")
            return False
        _journal_stage(stage)
        return True

    def call(self, e: Entry, mode: str, vi: int, inp, f, *a, **kw):
        """Journal, then run under the guard; ('skip', None) for a case that is known to hang."""
        self._skipped = not self.mark(e, mode, vi, inp)
        if self._skipped:
            return ("skip", None)
        return guarded(f, *a, **kw)

    def consume(self, stage: str, f, *a, **kw):
        """One consumer call of the journalled case; ('skip', None) once a hang was recorded at this stage."""
        if not self.stage(stage):
            return ("skip", None)
        o = guarded(f, *a, **kw)
        self.ctx.mon("consumer-calls")
        if o[0] == "timeout":
            self.consumer_timeout(stage)
        return o

    def dump(self) -> None:
        r = self.ctx.result()
        if self.reach is not None:
            r["reached"] = {k: v for k, v in self.reach.counts.items() if v}
        pend = []
        for case in self.pending_timeouts[:4]:
            try:
                pend.append(pickle.dumps(dict(case, input=_plain(case.get("input")))).hex())
            except Exception:  # noqa: BLE001
                self.ctx.stat("slow-case-not-picklable")
        r["pending"] = pend
        if len(self.pending_timeouts) > 4:
            r.setdefault("stats", {})["soft-timeouts-not-rerun"] = len(self.pending_timeouts) - 4
        tmp = self.dump_path + ".tmp"
        with open(tmp, "w") as f:
            json.dump(r, f)
        os.replace(tmp, self.dump_path)
        self._last_dump = time.time()

    # ---- rule 1 / 4
    def exception(self, e: Entry, exc: BaseException, inp, how: str, role: str = "parse") -> None:
        ctx = self.ctx
        if is_lib_exc(exc):
            ctx.stat(f"refused:{type(exc).__name__}")
            return
        org = lib_origin(exc)
        if org is None and role.rsplit(".", 1)[-1] in ("str", "repr", "eq"):
            # an interpreter-generated dunder (dataclass __repr__/__eq__) on a deep object: nothing of the library ran
            ctx.stat(f"dunder-outside-library:{type(exc).__name__}")
            return
        if org is None:
            # nothing of the library in the traceback: the harness called it wrongly
            ctx.inconclusive_(f"harness: {e.name} ({role}) raised {type(exc).__name__}: {str(exc)[:120]} outside the library")
            return
        tag = f"foreign-exception:{type(exc).__name__}@{org}" if role == "parse" else f"consumer-foreign-exception:{type(exc).__name__}@{org}"
        _violation(ctx, tag, f"{e.name} [{how}] {role}: {type(exc).__name__}: {str(exc)[:200]}",
                      {"entry": e.name, "how": how, "input": replayable(inp), "exception": f"{type(exc).__name__}: {str(exc)[:300]}",
                       "origin": org})

    # ---- rule 5 (interpreter-level slowness; C-level stalls are seen by the supervisor)
    MAX_SLOW = 5

    def timeout(self, e: Entry, variant: int, mode: str, inp) -> None:
        if getattr(self, "_skipped", False):
            return
        self.ctx.stat("soft-timeout")
        if self._case is not None:
            self.pending_timeouts.append(dict(self._case, stage="parse"))
        self._slow_here = getattr(self, "_slow_here", 0) + 1
        if self._slow_here >= self.MAX_SLOW:
            self._slow_here = 0
            raise _EntryAbandoned(e.name)

    def consumer_timeout(self, stage: str) -> None:
        self.ctx.stat("soft-timeout")
        self._slow_stage = getattr(self, "_slow_stage", {})
        self._slow_stage[stage] = self._slow_stage.get(stage, 0) + 1
        if self._slow_stage[stage] >= 3:
            self.skip_stages.add(stage)   # three slow cases are journalled for the re-run; no need to pay for more
        if self._case is not None:
            self.pending_timeouts.append(dict(self._case, stage=stage))

def _same(a, b) -> bool:
    try:
        return type(_plain(a)) is type(_plain(b)) and _plain(a) == _plain(b)
    except Exception:  # noqa: BLE001
        return False


def _case_size(case: dict) -> int:
    inp = case.get("input")
    try:
        if isinstance(inp, (bytes, bytearray, memoryview, str)):
            return len(inp)
        return len(pickle.dumps(_plain(inp)))
    except Exception:  # noqa: BLE001
        return len(repr(inp))


def judge_rerun(ctx: Ctx, case: dict, res: str, why: str) -> None:
    name, stage = case.get("name"), case.get("stage", "parse")
    size = _case_size(case)
    where = f"parse:{name}" if stage == "parse" else stage
    if res == "finished":
        ctx.stat("slow-but-terminates")
        ctx.notes.append(f"{name} [{stage}]: an input of {size} exceeded the {why} but finished alone within {HARD_S:.0f}s")
    elif res == "hang":
        if size <= MAX_HANG_INPUT:
            _violation(ctx, f"hang@{where}", f"{name} ({stage}, {case.get('mode')}) did not return within {HARD_S:.0f}s of CPU time, alone in a fresh interpreter, "
                          f"on an input of {size}", {"entry": name, "stage": stage, "how": case.get("mode"), "variant": case.get("variant"),
                                                     "input": replayable(_plain(case.get("input")))})
        else:
            ctx.stat("hang-on-large-input-not-judged")
    else:
        ctx.inconclusive_(f"re-run of a slow {name} input failed: {res}"[:300])


_RERUNS: list = []


def start_rerun(ctx: Ctx, case: dict, why: str) -> None:
    """Start one journalled case (parse and consumers) alone in a fresh interpreter; judged by ``settle_reruns``."""
    import shutil

    if case.get("unpicklable") or case.get("too_large"):
        ctx.inconclusive_(f"a slow {case.get('name')} case could not be journalled (unpicklable or above 2 MiB): not re-run")
        return
    if sum(1 for c, *_ in _RERUNS if c.get("name") == case.get("name") and c.get("stage") == case.get("stage")) >= 2 or len(_RERUNS) >= 12:
        ctx.stat("slow-case-not-rerun(cap)")
        return
    td = tempfile.mkdtemp(prefix="rv-c19-")
    p = os.path.join(td, "case.pkl")
    try:
        with open(p, "wb") as f:
            pickle.dump(case, f)
    except Exception as ex:  # noqa: BLE001
        shutil.rmtree(td, ignore_errors=True)
        ctx.inconclusive_(f"a slow {case.get('name')} case is not picklable ({ex!r}): not re-run"[:300])
        return
    root = os.path.dirname(os.path.dirname(os.path.dirname(os.path.abspath(__file__))))
    proc = subprocess.Popen([sys.executable, "-c", "import sys; from rv.props.c19 import _rerun_main; sys.exit(_rerun_main(sys.argv[1]))", p],
                            cwd=root, stdout=subprocess.DEVNULL, stderr=subprocess.PIPE, text=True)
    _RERUNS.append((case, proc, time.time(), td, why))


def settle_reruns(ctx: Ctx) -> None:
    """A re-run is a hang once it has burnt HARD_S of CPU time without finishing (wall clock only caps the wait)."""
    import shutil

    for case, proc, t0, td, why in _RERUNS:
        res = None
        while res is None:
            rc = proc.poll()
            if rc is not None:
                err = proc.stderr.read() if proc.stderr else ""
                res = "finished" if rc == 0 else f"rc={rc} {(err or '')[-300:]}"
                break
            cpu = _cpu_of(proc.pid) or 0.0
            if cpu >= HARD_S:
                proc.kill()
                proc.wait()
                res = "hang"
            elif time.time() - t0 > 20 * HARD_S:
                proc.kill()
                proc.wait()
                res = f"the machine gave the re-run {cpu:.0f}s of CPU in {20 * HARD_S:.0f}s of wall clock: no verdict"
            else:
                time.sleep(0.25)
        shutil.rmtree(td, ignore_errors=True)
        judge_rerun(ctx, case, res, why)
    _RERUNS.clear()


def _rerun_main(path: str) -> int:
    global SOFT_S
    repo = os.environ.get("VERIF_REPO", "/repo")
    sys.path.insert(0, repo)
    sys.setrecursionlimit(1000)
    import btclib  # noqa: F401 - so that pickled library objects resolve against VERIF_REPO

    with open(path, "rb") as f:
        case = pickle.load(f)
    import random

    from ..gen.hostile import RecStream, Seeds

    install_guard()
    SOFT_S = 10 * HARD_S     # the supervisor's kill is the budget here
    guarded.__kwdefaults__["_soft"] = SOFT_S
    ctx = Ctx(PROPERTY, "quick", 0, "rerun", {})
    J = Judge(ctx)
    if case.get("fn") is not None:
        case["fn"](*case["input"], **(case.get("kwargs") or {}))
        return 0
    reg = {e.name: e for e in build_registry(Seeds(random.Random(0)), only=case["name"])}
    e = reg[case["name"]]
    kw = e.variants[case["variant"]]
    inp = case["input"]
    mode = case["mode"]
    o = guarded(e.fn, RecStream(inp + TAIL), **kw) if mode == "stream" else (guarded(e.fn, RecStream(inp), **kw) if mode == "stream0" else guarded(e.fn, inp, **kw))
    if o[0] == "ok" and case.get("stage", "parse") != "parse":
        consume_generic(J, e, o[1], inp, "rerun")
    return 0


# =============================================================== consumers
def consume_generic(J: Judge, e: Entry, obj, inp, how: str) -> None:
    """Rule 4: the accepted object through every argument-free consumer it has."""
    ctx = J.ctx
    t = type(obj)
    if t.__module__.split(".")[0] != "btclib":
        # plain values (int, bytes, tuple, list): nothing of the library's to hand them to
        return
    calls = []
    for name in ("serialize", "to_dict", "b58encode", "b64encode", "assert_valid"):
        m = getattr(obj, name, None)
        if callable(m):
            need = _required_params(m)
            if not need:
                calls.append((name, m))
            elif need == ["include_witness"]:
                calls.append((name + "(include_witness=True)", lambda m=m: m(include_witness=True)))
                calls.append((name + "(include_witness=False)", lambda m=m: m(include_witness=False)))
    for name in dir(t):
        if name.startswith("_"):
            continue
        if isinstance(getattr(t, name, None), property):
            calls.append((name, lambda n=name: getattr(obj, n)))
    calls += [("str", lambda: str(obj)), ("repr", lambda: repr(obj)), ("eq", lambda: obj == obj)]
    for cname, c in calls:
        o = J.consume(f"consumer:{t.__name__}.{cname.split('(')[0]}", c)
        if o[0] == "raise":
            J.exception(e, o[1], inp, f"{how} -> {cname}", role=f"consumer {t.__name__}.{cname}")
        elif o[0] != "ok":
            ctx.stat("consumer-soft-timeout")
        elif cname == "to_dict":
            oj = J.consume(f"consumer:json.dumps({t.__name__}.to_dict)", json.dumps, o[1])
            if oj[0] == "raise" and not isinstance(oj[1], (TypeError, ValueError)):
                J.exception(e, oj[1], inp, f"{how} -> json.dumps(to_dict)", role="consumer to_dict")
    if e.consume is not None:
        e.consume(J, e, obj, inp, how)


# ================================================================= drivers
def _key(e: Entry, inp) -> tuple:
    if isinstance(inp, (dict, list)):
        try:
            return (e.name, json.dumps(inp, sort_keys=True, default=repr)[:4000])
        except Exception:  # noqa: BLE001
            return (e.name, repr(inp)[:4000])
    if not isinstance(inp, (str, bytes, bytearray, memoryview, int, float, bool, type(None))):
        return (e.name, repr(inp)[:4000])       # a Decimal, say: a signalling NaN cannot even be hashed
    return (e.name, inp)


class Budget:
    """Wall-clock slice of one entry; never cuts an entry below FLOOR deep inputs (the finalize threshold is 100)."""

    FLOOR = 160

    def __init__(self, ctx: Ctx, seconds: float, floor_counter: str | None = None):
        self.ctx = ctx
        self.end = min(time.time() + seconds, ctx.deadline)
        self.floor_counter = floor_counter
        self.hard_end = self.end + 120

    def over(self) -> bool:
        now = time.time()
        if now <= self.end:
            return False
        if self.floor_counter and self.ctx.monitors[self.floor_counter] < self.FLOOR and now < self.hard_end:
            return False
        return True


def run_binary(J: Judge, e: Entry, quota: int, budget: Budget, sys_cap: int) -> None:
    """Stream / octet parsers: systematic depth-1 pass over the field map, then random depth 1..6."""
    from ..gen.hostile import BinMut, RecStream, TextMut

    ctx = J.ctx
    rng = ctx.rng
    M = BinMut(rng)
    stream = e.kind == "stream"
    deep_name = f"deep:{e.name}"
    corpus: list[tuple[bytes, list, int]] = []
    seen: set = set()

    tail = b"" if e.eof else TAIL    # an EOF-delimited encoding is only ever the whole stream

    def fieldmap_of(data: bytes, kw) -> tuple[str, list, object, int]:
        if stream:
            rs = RecStream(data + tail)
            o = guarded(e.fn, rs, **kw)
            fm = [(a, w) for a, w in rs.fieldmap() if a + w <= len(data)]
            return o[0], fm, rs, rs.tell()
        o = guarded(e.fn, data, **kw)
        return o[0], [], None, 0

    # ---- seeds: must be accepted as they are
    for s in e.seeds:
        st, fm, _rs, _pos = fieldmap_of(s, e.variants[0])
        o = guarded(e.fn, s, **e.variants[0])
        if st != "ok" and o[0] != "ok":
            ctx.stat(f"seed-refused:{e.name}")
            continue
        if o[0] == "ok" and len(corpus) < 3 and J.mark(e, "octets", 0, s):
            consume_generic(J, e, o[1], s, "valid seed")   # the consumers see valid objects whatever the budget allows afterwards
        if not stream or not fm:
            fm = guess_fieldmap(s)
        corpus.append((s, fm, 0))
        ctx.stat("seeds-accepted")
    if not corpus:
        ctx.inconclusive_(f"{e.name}: no seed was accepted, nothing to mutate")
        return
    n_seed = len(corpus)

    def test(m: bytes, label: str, first: int, depth: int, vi: int) -> None:
        if e.cap is not None and len(m) > e.cap:
            m = m[: e.cap]
        k = (m, vi)
        if k in seen:
            return
        seen.add(k)
        kw = e.variants[vi]
        deep = False
        accepted_stream = None
        if stream:
            rs = RecStream(m + tail)
            o = J.call(e, "stream" if tail else "stream0", vi, m, e.fn, rs, **kw)
            ctx.mon("calls:stream")
            if o[0] == "raise":
                J.exception(e, o[1], m, f"stream+tail {kw or ''} {label}")
                deep = rs.deep()
                if deep and depth < 6 and rng.random() < 0.15 and len(corpus) < 400:
                    fm = [(a, w) for a, w in rs.fieldmap() if a + w <= len(m)]
                    if fm:
                        corpus.append((m, fm, depth))
            elif o[0] != "ok":
                J.timeout(e, vi, "stream", m)
            else:
                deep = True
                accepted_stream = (o[1], rs.tell())
                ctx.stat("accepted:stream")
                judge_position(J, e, o[1], rs.tell(), m, label, kw)
                if vi == 0:
                    consume_generic(J, e, o[1], m, f"stream+tail {label}")
                if depth < 6 and len(corpus) < 400:
                    fm = [(a, w) for a, w in rs.fieldmap() if a + w <= len(m)]
                    corpus.append((m, fm or guess_fieldmap(m), depth))
        if stream and tail:
            # the same octets as a stream that ends with them: a self-delimiting parser that consumed all of them here
            # must stop at the same place, with the same answer, when more octets follow
            rs0 = RecStream(m)
            o0 = J.call(e, "stream0", vi, m, e.fn, rs0, **kw)
            ctx.mon("calls:stream-no-tail")
            if o0[0] == "raise":
                J.exception(e, o0[1], m, f"stream {kw or ''} {label}")
                deep = deep or rs0.deep()
            elif o0[0] != "ok":
                J.timeout(e, vi, "octets", m)
            elif e.eof:
                ctx.stat(f"exempt-eof:{e.name}")
            elif rs0.tell() == len(m):
                ctx.mon("position:whole-vs-stream")
                if accepted_stream is None:
                    _violation(ctx, f"stream-position:eof-dependent-acceptance:{e.name}",
                                  f"{e.name} accepts these {len(m)} octets when the stream ends with them and refuses them when more octets follow: "
                                  "the parse depends on where the caller's stream ends (a short read taken for a field, or a look past the object)",
                                  {"entry": e.name, "input": replayable(m), "how": label, "kwargs": repr(kw)})
                elif accepted_stream[1] != len(m):
                    _violation(ctx, f"stream-position:eof-dependent-length:{e.name}",
                                  f"{e.name} consumes exactly these {len(m)} octets when the stream ends with them, yet stops at {accepted_stream[1]} "
                                  "when more octets follow", {"entry": e.name, "input": replayable(m), "how": label, "kwargs": repr(kw),
                                                              "tell": accepted_stream[1]})
        # octets mode: the same input as one whole object (assert_no_trailing applies)
        spell = rng.random()
        arg = m if (spell < 0.9 or e.bytes_only) else (bytearray(m) if spell < 0.95 else memoryview(m))
        sp = type(arg).__name__
        o2 = J.call(e, "octets", vi, arg, e.fn, arg, **kw)
        ctx.mon("calls:octets")
        if o2[0] == "raise":
            J.exception(e, o2[1], m, f"{sp} {kw or ''} {label}")
            if not stream and first > 0:
                deep = True
        elif o2[0] != "ok":
            J.timeout(e, vi, "octets", m)
        else:
            deep = True
            ctx.stat("accepted:octets")
            if not stream:
                if vi == 0:
                    consume_generic(J, e, o2[1], m, f"{sp} {label}")
                if depth < 6 and len(corpus) < 400:
                    corpus.append((m, guess_fieldmap(m), depth))
        if deep:
            ctx.mon(deep_name)
        ctx.case(f"{e.kind}:{label.split('+')[0]}", (e.name, m, vi), sample={"entry": e.name, "mutation": label, "depth": depth, "input": short(m, 120)})
        ctx.classes[f"depth:{min(depth, 6)}"] += 1
        ctx.mon(f"inputs:{e.name}")

    # ---- systematic pass (depth 1)
    per_seed_cap = max(40, sys_cap // max(1, n_seed))
    for s, fm, _d in list(corpus[:n_seed]):
        for m, lab, first in M.systematic(s, fm, per_seed_cap):
            if budget.over():
                break
            test(m, lab, first, 1, 0)
    # ---- variants on a sample, hex-text spellings, uniform noise
    T = TextMut(rng)
    for s, fm, _d in list(corpus[:n_seed]):
        if budget.over():
            break
        for vi in range(1, len(e.variants)):
            for m, lab, first in M.systematic(s, fm, max(20, per_seed_cap // 6)):
                test(m, lab, first, 1, vi)
        for txt, lab, first in ([] if e.bytes_only else T.systematic(s[:200].hex(), 25)):
            o = J.call(e, "octets", 0, txt, e.fn, txt, **e.variants[0])
            ctx.mon("calls:hex-text")
            if o[0] == "raise":
                J.exception(e, o[1], txt, f"hex-str {lab}")
            elif o[0] != "ok":
                J.timeout(e, 0, "octets", txt)
            ctx.case("binary:hex-text", (e.name, txt))
    for _ in range(max(10, quota // 20)):
        test(M.uniform(), "uniform", 0, 1, 0)
    # ---- random pass (depth 1..6, mutants of mutants)
    done = 0
    while done < quota and not budget.over():
        i = rng.randrange(n_seed) if rng.random() < 0.5 else rng.randrange(len(corpus))
        s, fm, d = corpus[i]
        other = corpus[rng.randrange(len(corpus))][0]
        extra = rng.choice([1, 1, 1, 2, 2, 3, 4, 5, 6])
        extra = min(extra, 6 - d) or 1
        m, lab, first = M.multi(s, fm, extra, other)
        test(m, lab, first, min(6, d + extra), rng.randrange(len(e.variants)) if rng.random() < 0.2 else 0)
        done += 1
    ctx.stat("corpus-grown", len(corpus) - n_seed)


def guess_fieldmap(data: bytes) -> list[tuple[int, int]]:
    """No reads to observe (octet-only entry points): every offset as a 1-octet field, plus 2/4/8-octet windows."""
    n = len(data)
    fm = [(i, 1) for i in range(min(n, 96))]
    fm += [(i, w) for w in (2, 4, 8) for i in range(0, min(n, 96) - w + 1, w)]
    if n > 96:
        fm += [(i, 1) for i in range(96, n, max(1, n // 64))]
    if n > 33:
        fm += [(1, 32), (n - 32, 32)]
    return fm


_REQ_CACHE: dict = {}


def _required_params(m) -> list[str]:
    import inspect

    f = getattr(m, "__func__", m)
    if f not in _REQ_CACHE:
        try:
            sig = inspect.signature(m)
            _REQ_CACHE[f] = [p.name for p in sig.parameters.values()
                             if p.default is p.empty and p.kind in (p.POSITIONAL_ONLY, p.POSITIONAL_OR_KEYWORD, p.KEYWORD_ONLY)]
        except (TypeError, ValueError):
            _REQ_CACHE[f] = []
    return _REQ_CACHE[f]


def judge_position(J: Judge, e: Entry, obj, tell: int, m: bytes, label: str, kw) -> None:
    """Rule 3 for one successful parse from m + TAIL."""
    ctx = J.ctx
    if e.eof:
        ctx.stat(f"exempt-eof:{e.name}")
        return
    ser = getattr(obj, "serialize", None)
    if not callable(ser):
        return
    if _required_params(ser) == ["include_witness"]:
        import functools

        ser = functools.partial(ser, include_witness=True)
    elif _required_params(ser):
        return
    o = J.consume(f"consumer:{type(obj).__name__}.serialize", ser)
    if o[0] != "ok" or not isinstance(o[1], (bytes, bytearray)):
        o = J.consume(f"consumer:{type(obj).__name__}.serialize", ser, check_validity=False) if o[0] == "raise" and is_lib_exc(o[1]) else o
        if o[0] != "ok" or not isinstance(o[1], (bytes, bytearray)):
            ctx.stat("position:not-serializable")
            return
    s = bytes(o[1])
    ctx.mon("position:judged")
    data = m + TAIL
    if tell == len(s):
        ctx.stat("position:exact")
        return
    if tell > len(s) and data[: len(s)] == s:
        _violation(ctx, f"stream-position:overread:{e.name}",
                      f"{e.name} returned an object whose serialization is the first {len(s)} octets of the stream but left the stream at {tell}: "
                      f"{tell - len(s)} octets of the caller's were consumed", {"entry": e.name, "input": replayable(m), "how": label,
                                                                                   "kwargs": repr(kw), "tell": tell, "serialized_len": len(s)})
    else:
        # the accepted octets are not the canonical encoding (C05's subject): position is not comparable through serialize()
        ctx.stat("position:noncanonical-not-judged")


def run_text(J: Judge, e: Entry, quota: int, budget: Budget, sys_cap: int) -> None:
    from ..gen.hostile import TextMut

    ctx = J.ctx
    rng = ctx.rng
    T = TextMut(rng)
    deep_name = f"deep:{e.name}"
    seeds = []
    for s in e.seeds:
        o = guarded(e.fn, s, **e.variants[0])
        if o[0] == "ok":
            seeds.append(s)
            ctx.stat("seeds-accepted")
            if len(seeds) <= 3 and J.mark(e, "text", 0, s):
                consume_generic(J, e, o[1], s, "valid seed")
        else:
            ctx.stat(f"seed-refused:{e.name}")
    if not seeds:
        ctx.inconclusive_(f"{e.name}: no seed was accepted, nothing to mutate")
        return
    corpus = [(s, 0) for s in seeds]
    seen: set = set()

    def test(t: str, label: str, first: int, depth: int, vi: int = 0, nocap: bool = False) -> None:
        if e.cap is not None and len(t) > e.cap and not nocap:
            t = t[: e.cap]
        if (t, vi) in seen:
            return
        seen.add((t, vi))
        kw = e.variants[vi]
        o = J.call(e, "text", vi, t, e.fn, t, **kw)
        ctx.mon("calls:text")
        deep = first > 0
        if o[0] == "raise":
            J.exception(e, o[1], t, f"str {kw or ''} {label}")
        elif o[0] != "ok":
            J.timeout(e, vi, "text", t)
        else:
            deep = True
            ctx.stat("accepted:text")
            if vi == 0:
                consume_generic(J, e, o[1], t, f"str {label}")
            if depth < 6 and len(corpus) < 300 and len(t) < 5000:
                corpus.append((t, depth))
        if e.string_bytes and rng.random() < 0.25:
            try:
                b = t.encode("utf-8")
            except UnicodeEncodeError:
                b = t.encode("utf-8", "surrogatepass")
            o2 = J.call(e, "text", vi, b, e.fn, b if rng.random() < 0.8 else bytearray(b), **kw)
            ctx.mon("calls:text-as-bytes")
            if o2[0] == "raise":
                J.exception(e, o2[1], b, f"bytes-spelling {label}")
            elif o2[0] != "ok":
                J.timeout(e, vi, "text", b)
        if deep:
            ctx.mon(deep_name)
        ctx.case(f"text:{label.split('+')[0]}", (e.name, t, vi), sample={"entry": e.name, "mutation": label, "input": short(t, 120)})
        ctx.classes[f"depth:{min(depth, 6)}"] += 1
        ctx.mon(f"inputs:{e.name}")

    per_seed = max(40, sys_cap // len(seeds))
    for s in seeds:
        for t, lab, first in T.systematic(s, per_seed, e.tokens):
            if budget.over():
                break
            test(t, lab, first, 1)
    for vi in range(1, len(e.variants)):
        for s in seeds[:4]:
            for t, lab, first in T.systematic(s, 40, e.tokens):
                test(t, lab, first, 1, vi)
    if e.extra is not None:
        for n_extra, (t, lab) in enumerate(e.extra(rng, max(150, quota // 3))):
            if budget.over() and n_extra >= 20:
                break
            test(t, lab, 1, 2)
            ctx.classes["text:checksum-recomputed"] += 1
    if e.nest is not None:
        depths = [2, 10, 100, 400, 900, 990, 1000, 1010, 2000, 10000] + ([30000, 100000] if ctx.tier == "thorough" else [])
        for d in depths:
            for t in e.nest(d):
                if len(t) > 250000:
                    continue
                test(t, f"nest{d}", 1, 1, nocap=True)
                ctx.classes["text:nesting"] += 1
                if d >= 10000:
                    ctx.classes["text:nesting>=10^4"] += 1
    for _ in range(max(10, quota // 20)):
        test(T.uniform(), "uniform", 0, 1)
    done = 0
    while done < quota and not budget.over():
        s, d = corpus[rng.randrange(len(seeds))] if rng.random() < 0.5 else corpus[rng.randrange(len(corpus))]
        other = corpus[rng.randrange(len(corpus))][0]
        extra = min(rng.choice([1, 1, 1, 2, 2, 3, 4, 5, 6]), 6 - d) or 1
        t, lab, first = T.multi(s, extra, other, e.tokens)
        test(t, lab, first, min(6, d + extra), rng.randrange(len(e.variants)) if rng.random() < 0.2 else 0)
        done += 1


def run_json(J: Judge, e: Entry, quota: int, budget: Budget, per_path: int | None) -> None:
    from ..gen.hostile import JsonMut

    ctx = J.ctx
    rng = ctx.rng
    JM = JsonMut(rng)
    deep_name = f"deep:{e.name}"
    seeds = []
    for s in e.seeds:
        o = guarded(e.fn, s, **e.variants[0])
        if o[0] == "ok":
            seeds.append(s)
            ctx.stat("seeds-accepted")
            if len(seeds) <= 3 and J.mark(e, "json", 0, s):
                consume_generic(J, e, o[1], s, "valid seed")
        else:
            ctx.stat(f"seed-refused:{e.name}")
    if not seeds:
        ctx.inconclusive_(f"{e.name}: no seed was accepted, nothing to mutate")
        return

    def test(v, label: str, path, depth: int, vi: int = 0) -> None:
        kw = e.variants[vi]
        o = J.call(e, "json", vi, v, e.fn, v, **kw)
        ctx.mon("calls:json")
        top_ok = isinstance(v, dict)
        if o[0] == "raise":
            if top_ok:
                J.exception(e, o[1], v, f"json {kw or ''} {label} at {'/'.join(map(str, path))}")
            elif not is_lib_exc(o[1]):
                ctx.stat(f"json:toplevel-nonobject:{type(o[1]).__name__}")
        elif o[0] != "ok":
            J.timeout(e, vi, "json", v)
        else:
            ctx.stat("accepted:json")
            if vi == 0 and top_ok:
                consume_generic(J, e, o[1], v, f"json {label}")
        if o[0] == "ok" or (top_ok and isinstance(seed_keys, set) and seed_keys <= set(v)):
            ctx.mon(deep_name)
        ctx.case(f"json:{label.split('+')[0]}", _key(e, v), sample={"entry": e.name, "mutation": label, "path": list(map(str, path)), "input": short(v, 80)})
        ctx.classes[f"depth:{min(depth, 6)}"] += 1
        ctx.mon(f"inputs:{e.name}")

    # every (seed, path) pair in a shuffled order, so that a budget cut thins all fields evenly instead of dropping the last ones
    pairs = [(s, path) for s in seeds for path in JM.paths(s)]
    rng.shuffle(pairs)
    # integer-valued fields first: they carry the counts, amounts, indexes and versions
    pairs.sort(key=lambda sp: 0 if isinstance(JM.get(sp[0], sp[1]), int) and not isinstance(JM.get(sp[0], sp[1]), bool) else 1)
    for s, path in pairs:
        if budget.over():
            ctx.stat("json:paths-not-reached")
            continue
        seed_keys = set(s) if isinstance(s, dict) else None
        for v, lab in JM.at_path(s, path, per_path):
            test(v, lab, path, 1)
            ctx.classes[f"jsontype:{lab}"] += 1
        ctx.mon("json:paths-covered")
    for s in seeds:
        seed_keys = set(s)
        test({**s, "unknown-key": 1}, "unknown-key", (), 1)
    seed_keys = None
    test({}, "empty-object", (), 1)
    for v in JM.values:
        seed_keys = None
        test(v, "toplevel", (), 1)
    done = 0
    while done < quota and not budget.over():
        s = rng.choice(seeds)
        seed_keys = set(s) if isinstance(s, dict) else None
        d = rng.choice([1, 2, 2, 3, 4, 5, 6])
        v, lab, path = JM.multi(s, d)
        test(v, lab, path, d, rng.randrange(len(e.variants)) if rng.random() < 0.2 else 0)
        done += 1


# ================================================================ registry
def _tx_consumer(J: Judge, e: Entry, obj, inp, how: str) -> None:
    """An accepted transaction through sighash, engine, sizes and ids with fabricated previous outputs."""
    from btclib.script import ScriptPubKey, sig_hash
    from btclib.script.engine import verify_input
    from btclib.tx import Tx, TxOut

    ctx = J.ctx
    tx = obj if isinstance(obj, Tx) else getattr(obj, "tx", None)
    if not isinstance(tx, Tx) or not tx.vin:
        return
    rng = ctx.rng
    spks = [bytes.fromhex("76a914" + "11" * 20 + "88ac"), bytes.fromhex("a914" + "22" * 20 + "87"), bytes.fromhex("0014" + "33" * 20),
            bytes.fromhex("0020" + "44" * 32), bytes.fromhex("5120" + "79be667ef9dcbbac55a06295ce870b07029bfcdb2dce28d959f2815b16f81798"),
            b"\x51", b"", bytes.fromhex("6a00"), bytes.fromhex("21" + "02" + "66" * 32 + "ac")]
    prevouts = [TxOut(rng.choice([0, 1, 10**8]), ScriptPubKey(rng.choice(spks), check_validity=False), check_validity=False) for _ in tx.vin]
    for i in range(min(len(tx.vin), 3)):
        for ht in (1, 3, 0x83, rng.choice([0, 2, 0x81, 0x82, 4, 255])):
            o = J.consume("consumer:sig_hash.from_tx", sig_hash.from_tx, prevouts, tx, i, ht)
            if o[0] == "raise":
                J.exception(e, o[1], inp, f"{how} -> sig_hash.from_tx(i={i}, hash_type={ht})", role="consumer sig_hash.from_tx")
        o = J.consume("consumer:engine.verify_input", verify_input, prevouts, tx, i)
        if o[0] == "raise":
            J.exception(e, o[1], inp, f"{how} -> verify_input(i={i})", role="consumer engine.verify_input")
    ctx.mon("consumer:tx-sighash-engine")


def _psbt_consumer(J: Judge, e: Entry, obj, inp, how: str) -> None:
    from btclib.psbt import psbt as P
    from btclib.psbt.psbt_view import PsbtView

    ctx = J.ctx
    if not isinstance(obj, P.Psbt):
        return
    for i in range(min(len(obj.inputs), 2)):
        for name, f in (("ecdsa_sig_hash", P.ecdsa_sig_hash), ("taproot_sig_hash", P.taproot_sig_hash)):
            o = J.consume(f"consumer:psbt.{name}", f, obj, i)
            if o[0] == "raise":
                J.exception(e, o[1], inp, f"{how} -> psbt.{name}({i})", role=f"consumer psbt.{name}")
    for name in ("finalize", "extract_tx", "combine"):
        f = getattr(P, name, None)
        if f is None:
            continue
        o = J.consume(f"consumer:psbt.{name}", f, [obj, obj]) if name == "combine" else J.consume(f"consumer:psbt.{name}", f, obj)
        if o[0] == "raise":
            J.exception(e, o[1], inp, f"{how} -> psbt.{name}", role=f"consumer psbt.{name}")
    so = J.consume("consumer:Psbt.serialize", obj.serialize)
    if so[0] == "ok":
        o = J.consume("consumer:PsbtView", PsbtView, so[1])
        if o[0] == "raise":
            J.exception(e, o[1], inp, f"{how} -> PsbtView(serialize())", role="consumer PsbtView")
    ctx.mon("consumer:psbt")


def _attr_call(J: Judge, obj, name: str, args: tuple):
    """A property is read, a method is called with ``args``; both under the guard."""
    import functools

    stage = f"consumer:{type(obj).__name__}.{name}"
    if isinstance(getattr(type(obj), name, None), (property, functools.cached_property)):
        return J.consume(stage, getattr, obj, name)
    return J.consume(stage, lambda: getattr(obj, name)(*args))


def _script_list_consumer(J: Judge, e: Entry, obj, inp, how: str) -> None:
    from btclib.script import script as S

    if isinstance(obj, list):
        o = J.consume("consumer:script.serialize", S.serialize, obj)
        if o[0] == "raise":
            J.exception(e, o[1], inp, f"{how} -> script.serialize(parsed)", role="consumer script.serialize")


def _descriptor_consumer(J: Judge, e: Entry, obj, inp, how: str) -> None:
    ctx = J.ctx
    for name, args in (("script_pub_key", (0,)), ("address", (0,)), ("addresses", (0,)), ("script_pub_keys", (0,)), ("redeem_script", (0,)),
                       ("script_pub_key", (2**31 - 1,)), ("is_ranged", ())):
        if not hasattr(type(obj), name):
            continue
        o = _attr_call(J, obj, name, args)
        if o[0] == "raise":
            J.exception(e, o[1], inp, f"{how} -> Descriptor.{name}{args}", role=f"consumer Descriptor.{name}")


def _miniscript_consumer(J: Judge, e: Entry, obj, inp, how: str) -> None:
    ctx = J.ctx
    for name in ("script", "is_valid", "is_valid_top_level", "is_non_malleable", "is_signature_required", "mixes_timelocks",
                 "has_duplicate_keys", "is_satisfiable", "is_within_resource_limits", "is_sane", "is_sane_subexpression", "max_satisfaction_size",
                 "max_satisfaction_witness_elements"):
        if not hasattr(type(obj), name):
            continue
        o = _attr_call(J, obj, name, ())
        if o[0] == "raise":
            J.exception(e, o[1], inp, f"{how} -> Miniscript.{name}", role=f"consumer Miniscript.{name}")


def _filter_consumer(J: Judge, e: Entry, obj, inp, how: str) -> None:
    """Rule 2 on a parsed filter: match / match_any answer a bool for any octets."""
    ctx = J.ctx
    rng = ctx.rng
    for el in (b"", b"\x6a", bytes(25), bytes(rng.randrange(256) for _ in range(rng.randrange(1, 40))), "00", bytearray(b"\x51")):
        for name, arg in (("match", el), ("match_any", [el, b"\x51"]), ("match_any", [])):
            o = J.consume(f"consumer:BasicBlockFilter.{name}", getattr(obj, name), arg)
            ctx.mon("pred:BasicBlockFilter.match")
            judge_predicate(J, e, f"BasicBlockFilter.{name}", o, (inp, arg))


def judge_predicate(J: Judge, e: Entry, pname: str, o, args) -> None:
    ctx = J.ctx
    if o[0] in ("timeout", "skip"):
        ctx.stat("predicate-soft-timeout-or-skipped")
        return
    if o[0] == "raise":
        exc = o[1]
        org = lib_origin(exc)
        if org is None:
            ctx.inconclusive_(f"harness: predicate {pname} raised {type(exc).__name__}: {str(exc)[:120]} outside the library")
            return
        kind = "library" if is_lib_exc(exc) else "foreign"
        _violation(ctx, f"predicate-raises:{pname}:{kind}:{type(exc).__name__}@{org}",
                      f"{pname} raised {type(exc).__name__}: {str(exc)[:200]} for arguments of the declared types instead of answering a bool",
                      {"predicate": pname, "args": short(args, 400), "exception": f"{type(exc).__name__}: {str(exc)[:300]}"})
    elif not isinstance(o[1], bool):
        _violation(ctx, f"predicate-non-bool:{pname}", f"{pname} answered {o[1]!r} ({type(o[1]).__name__})", {"predicate": pname, "args": short(args, 400)})
    else:
        ctx.stat(f"pred-answer:{o[1]}")


def build_registry(S, only: str | None = None) -> list[Entry]:
    """Every entry point with its seeds.  ``only`` limits the (lazy) seed construction to one entry for re-runs."""
    import base64

    from btclib import b32, b58, base58, bech32, bip21, bip322, var_bytes, var_int
    from btclib.bip32 import der_path
    from btclib.bip32.bip32 import BIP32KeyData
    from btclib.bip32.key_origin import BIP32KeyOrigin
    from btclib.block.block import Block
    from btclib.block.block_filter import BasicBlockFilter
    from btclib.block.block_header import BlockHeader
    from btclib.block.proof_of_work import target_from_bits
    from btclib.curves.sec_point import point_from_octets
    from btclib.descriptors import descriptors as D
    from btclib.descriptors import miniscript as MS
    from btclib.ecc import bms, borromean, dsa, ecies, ellswift, ssa
    from btclib.mnemonic import bip39, dispatch, electrum, entropy, slip39
    from btclib.network import Network, network_from_name
    from btclib.psbt import psbt_utils
    from btclib.psbt.psbt import Psbt
    from btclib.psbt.psbt_in import PsbtIn
    from btclib.psbt.psbt_out import PsbtOut
    from btclib.psbt.psbt_view import PsbtView
    from btclib.script import script, taproot
    from btclib.script import script_pub_key as SPK
    from btclib.script.witness import Witness
    from btclib import silent_payments, slip132, to_prv_key, to_pub_key, tx_or_psbt, utils
    from btclib.tx import OutPoint, Tx, TxIn, TxOut

    from ..ref import base58 as r58
    from ..ref import bech32 as r32
    from ..ref.descsum import descsum_create

    CV = [{}, {"check_validity": False}]
    out: list[Entry] = []

    def add(name, kind, fn, seeds_fn, **kw):
        if only is not None and name != only:
            return
        out.append(Entry(name, kind, fn, seeds_fn(), **kw))

    g = S.get
    # ------------------------------------------------------------ binary, stream
    add("var_int.parse", "stream", var_int.parse, lambda: g("var_int"))
    add("var_bytes.parse", "stream", var_bytes.parse, lambda: g("var_bytes"), variants=[{}, {"forbid_zero_size": True}])
    add("script.parse", "stream", script.parse, lambda: g("script"), eof=True, consume=_script_list_consumer)
    add("taproot.parse", "stream", taproot.parse, lambda: g("script"), eof=True, variants=[{}, {"exit_on_op_success": True}])
    add("Witness.parse", "stream", Witness.parse, lambda: g("witness"), variants=CV)
    add("OutPoint.parse", "stream", OutPoint.parse, lambda: g("out_point"), variants=CV)
    add("TxIn.parse", "stream", TxIn.parse, lambda: g("tx_in"), variants=CV)
    add("TxOut.parse", "stream", TxOut.parse, lambda: g("tx_out"), variants=CV)
    add("Tx.parse", "stream", Tx.parse, lambda: g("tx"), variants=CV, consume=_tx_consumer, weight=2.0)
    add("BlockHeader.parse", "stream", BlockHeader.parse, lambda: g("block_header"), variants=CV)
    add("Block.parse", "stream", Block.parse, lambda: g("block"), variants=CV, weight=1.5)
    add("Psbt.parse", "stream", Psbt.parse, lambda: g("psbt"), variants=CV, consume=_psbt_consumer, weight=2.5)
    for v in (0, 2):
        add(f"PsbtIn.parse[v{v}]", "stream", PsbtIn.parse, lambda v=v: [b for b, ver in g("psbt_in") if ver == v],
            variants=[{"psbt_version": v}, {"psbt_version": v, "check_validity": False}], ident=PsbtIn.parse)
        add(f"PsbtOut.parse[v{v}]", "stream", PsbtOut.parse, lambda v=v: [b for b, ver in g("psbt_out") if ver == v],
            variants=[{"psbt_version": v}, {"psbt_version": v, "check_validity": False}], ident=PsbtOut.parse)
    add("psbt_utils.deserialize_map", "stream", psbt_utils.deserialize_map, lambda: g("psbt_map"))
    add("BIP32KeyData.parse", "stream", BIP32KeyData.parse, lambda: g("xkey_bin"), variants=CV)
    # strict DER defines the encoding as the whole input ("a byte too many is not a DER signature either"): EOF-delimited by design
    add("dsa.Sig.parse", "stream", dsa.Sig.parse, lambda: g("dsa_sig"), variants=[{}, {"strict": False}, {"check_validity": False}], eof=True)
    add("ssa.Sig.parse", "stream", ssa.Sig.parse, lambda: g("ssa_sig"), variants=CV)
    add("bms.Sig.parse", "stream", bms.Sig.parse, lambda: g("bms_sig"), variants=CV)
    if only is None or only.startswith("BorromeanSig.parse"):
        for b, sizes, _rings in g("borromean"):
            add(f"BorromeanSig.parse[{','.join(map(str, sizes))}]", "stream", borromean.BorromeanSig.parse, lambda b=b: [b],
                variants=[{"rsizes": sizes}, {"rsizes": sizes, "check_validity": False}, {"rsizes": ()}, {"rsizes": (2**31,)}],
                ident=borromean.BorromeanSig.parse)
    if only is None or only == "BasicBlockFilter.parse":
        bf = g("block_filter")
        add("BasicBlockFilter.parse", "stream", BasicBlockFilter.parse, lambda: [b for b, _h in bf], eof=True,
            variants=[{"block_hash": bf[1][1]}, {"block_hash": bf[1][1], "check_validity": False}], consume=_filter_consumer)
    # p2p payloads and the envelope
    if only is None or only.split(".")[0] in _p2p_names():
        import importlib

        p2p = S.p2p()
        for cname, modname in _p2p_names().items():
            cls = getattr(importlib.import_module(f"btclib.p2p.{modname}"), cname)
            kind = "octets" if cname == "Version" else "stream"
            add(f"{cname}.parse", kind, cls.parse, lambda cname=cname: p2p[cname], variants=CV, eof=cname in ("Version",),
                consume=_tx_consumer if cname in ("TxPayload", "PrefilledTransaction") else None)
    # ------------------------------------------------------------ binary, octets only
    add("ecies.Envelope.parse", "octets", ecies.Envelope.parse, lambda: g("ecies"), variants=[{}, {"check_validity": False}, {"magic": b"BIE2"}])
    add("BIP32KeyOrigin.parse", "octets", BIP32KeyOrigin.parse, lambda: g("key_origin_bin"), variants=CV)
    add("point_from_octets", "octets", point_from_octets, lambda: g("sec_point"), variants=[{}, {"hybrid": True}])
    add("ellswift.decode_var", "octets", ellswift.decode_var, lambda: g("ellswift"))
    add("psbt_utils.parse_leaf_script", "octets", psbt_utils.parse_leaf_script, bytes_only=True, seeds_fn=lambda: g("leaf_script"))
    add("psbt_utils.parse_taproot_tree", "octets", psbt_utils.parse_taproot_tree, bytes_only=True, seeds_fn=lambda: g("taproot_tree"))
    add("psbt_utils.parse_taproot_bip32", "octets", psbt_utils.parse_taproot_bip32, bytes_only=True, seeds_fn=lambda: g("taproot_bip32"))
    add("psbt_utils.parse_musig2_participant_pub_keys", "octets", psbt_utils.parse_musig2_participant_pub_keys, bytes_only=True, seeds_fn=lambda: g("musig2_keys"))
    add("utils.decode_num", "octets", utils.decode_num, lambda: g("decode_num"), bytes_only=True)
    add("proof_of_work.target_from_bits", "octets", target_from_bits, lambda: g("bits"))
    add("miniscript.from_script", "octets", MS.from_script, lambda: g("miniscript_script"), variants=[{}, {"context": "TAPSCRIPT"}],
        consume=_miniscript_consumer)
    add("PsbtView", "octets", PsbtView, lambda: g("psbt")[:8], consume=_psbtview_consumer)
    add("script_pub_key.type_and_payload", "octets", SPK.type_and_payload, lambda: g("script")[:10])
    add("script_pub_key.address", "octets", SPK.address, lambda: g("script")[:5], variants=[{}, {"network": "testnet"}])
    add("ScriptPubKey", "octets", SPK.ScriptPubKey, lambda: g("script")[:10], variants=[{}, {"network": "regtest"}, {"check_validity": False}])
    add("utils.bytes_from_octets", "octets", utils.bytes_from_octets, lambda: [b"", b"\x00", bytes(32)], variants=[{}, {"out_size": 32}, {"out_size": (1, 32)}])
    # ------------------------------------------------------------------ text
    def b58_payload_mut(seeds):
        def gen(rng, n):
            from ..gen.hostile import BinMut

            M = BinMut(rng)
            res = []
            for _ in range(n):
                s = rng.choice(seeds)
                raw = r58.b58decode(s)
                if not raw or len(raw) < 5:
                    continue
                pay = raw[:-4]
                m, lab, _f = M.one(pay, guess_fieldmap(pay), None)
                res.append((r58.check_encode(m), "rechecksummed-" + lab))
            return res
        return gen

    def b32_payload_mut(seeds):
        def gen(rng, n):
            res = []
            for _ in range(n):
                s = rng.choice(seeds)
                dec = r32.bech32_decode(s.lower(), 2000)
                if not dec or dec[0] is None:
                    continue
                hrp, data, spec = dec[0], list(dec[1]), dec[2] if len(dec) > 2 else "bech32"
                k = rng.randrange(6)
                if k == 0 and data:
                    data[0] = rng.choice([0, 1, 2, 16, 17, 31])
                elif k == 1:
                    data = data[:1] + [rng.randrange(32) for _ in range(rng.choice([0, 1, 3, 4, 15, 16, 32, 51, 52, 64, 65, 100]))]
                elif k == 2 and data:
                    data[rng.randrange(len(data))] = rng.randrange(32)
                elif k == 3:
                    hrp = rng.choice(["bc", "tb", "bcrt", "sp", "tsp", "BC", "b", "", "bc1", "\x7f", "a" * 83, "lnbc"])
                elif k == 4:
                    data = data + [rng.randrange(32)]
                else:
                    data = data[:-1]
                for sp in {spec, rng.choice(["bech32", "bech32m"])}:
                    try:
                        res.append((r32.bech32_encode(hrp, data, sp), "rechecksummed-bech32"))
                    except Exception:  # noqa: BLE001 - hrp the reference encoder cannot spell
                        pass
            return res
        return gen

    def b64_payload_mut(bins):
        def gen(rng, n):
            from ..gen.hostile import BinMut

            M = BinMut(rng)
            res = []
            for _ in range(n):
                b = rng.choice(bins)
                prefix = ""
                if isinstance(b, tuple):
                    prefix, b = b
                m, lab, _f = M.one(b, guess_fieldmap(b), None)
                t = base64.b64encode(m).decode()
                k = rng.random()
                if k < 0.1:
                    t = t.rstrip("=")
                elif k < 0.2:
                    t = t + "="
                elif k < 0.3:
                    t = base64.urlsafe_b64encode(m).decode()
                elif k < 0.35:
                    t = "\n".join(t[i:i + 64] for i in range(0, len(t), 64))
                res.append((prefix + t, "b64-of-" + lab))
            return res
        return gen

    def descsum_mut(seeds):
        def gen(rng, n):
            from ..gen.hostile import TextMut

            T = TextMut(rng)
            res = []
            for _ in range(n):
                s = rng.choice(seeds).split("#")[0]
                t, lab, _f = T.multi(s, rng.choice([1, 1, 2, 3]), rng.choice(seeds).split("#")[0], DESC_TOKENS)
                c = descsum_create(t)
                if c is not None and len(t) < 20000:
                    res.append((t + "#" + c, "rechecksummed-" + lab))
            return res
        return gen

    def txt(name, fn, key, **kw):
        add(name, "text", fn, lambda: g(key), **kw)

    txt("b32.witness_from_address", b32.witness_from_address, "b32_address", string_bytes=True)
    txt("b58.h160_from_address", b58.h160_from_address, "b58_address", string_bytes=True)
    txt("base58.decode", base58.decode, "base58", string_bytes=True, variants=[{}, {"out_size": 25}, {"out_size": 0}])
    txt("bech32.decode", bech32.decode, "bech32", string_bytes=True, variants=[{}, {"m": 1}, {"m": 0x2BC830A3}])
    txt("BIP32KeyData.b58decode", BIP32KeyData.b58decode, "xkey_b58", string_bytes=True, variants=CV)
    txt("slip132.address_from_xkey", slip132.address_from_xkey, "xkey_b58", string_bytes=True)
    txt("to_prv_key.prv_keyinfo_from_prv_key", to_prv_key.prv_keyinfo_from_prv_key, "wif", string_bytes=True)
    txt("to_prv_key.int_from_prv_key", to_prv_key.int_from_prv_key, "wif", string_bytes=True)
    txt("to_pub_key.pub_keyinfo_from_key", to_pub_key.pub_keyinfo_from_key, "xkey_b58", string_bytes=True)
    txt("to_pub_key.point_from_key", to_pub_key.point_from_key, "xkey_b58", string_bytes=True)
    txt("ScriptPubKey.from_address", SPK.ScriptPubKey.from_address, "address", string_bytes=True)
    add("TxOut.from_address", "text", lambda a, **kw: TxOut.from_address(1000, a, **kw), lambda: g("address"), string_bytes=True, ident=TxOut.from_address)
    txt("silent_payments.keys_from_address", silent_payments.keys_from_address, "sp_address", string_bytes=True)
    txt("bms.Sig.b64decode", bms.Sig.b64decode, "bms_b64", string_bytes=True, variants=CV)
    add("bip322.Sig.b64decode", "text", bip322.Sig.b64decode, lambda: [s for s, _a in g("bip322_b64")], string_bytes=True, variants=CV)
    txt("Psbt.b64decode", Psbt.b64decode, "psbt_b64", string_bytes=True, variants=CV, consume=_psbt_consumer)
    txt("ecies.Envelope.b64decode", ecies.Envelope.b64decode, "ecies_b64", string_bytes=True, variants=CV)
    txt("tx_or_psbt_from_any", tx_or_psbt.tx_or_psbt_from_any, "tx_or_psbt_text", string_bytes=True, variants=CV, consume=_tx_consumer)
    txt("descriptors.parse", D.parse, "descriptor", variants=[{}, {"network": "testnet"}], tokens=DESC_TOKENS, nest=_nest_descriptor, consume=_descriptor_consumer)
    txt("descriptors.checksum", D.checksum, "descriptor_nosum", tokens=DESC_TOKENS)
    txt("descriptors.add_checksum", D.add_checksum, "descriptor_nosum", tokens=DESC_TOKENS)
    txt("descriptors.strip_checksum", D.strip_checksum, "descriptor", tokens=DESC_TOKENS)
    txt("descriptors.from_address", D.from_address, "address")
    txt("miniscript.parse", MS.parse, "miniscript", variants=[{}, {"context": "TAPSCRIPT"}], tokens=MS_TOKENS, nest=_nest_miniscript, consume=_miniscript_consumer)
    txt("Bip21.parse", bip21.Bip21.parse, "bip21", variants=CV, tokens=["?", "&", "=", "amount=", "label=", "message=", "req-", "req-x=1", "%", "%E2%82", "bitcoin:", "lightning="])
    txt("der_path.indexes_from_der_path", der_path.indexes_from_der_path, "der_path", tokens=["/", "h", "'", "H", "m", "M", "*", "2147483648", "-1"], nest=_nest_path)
    txt("der_path.bytes_from_der_path", der_path.bytes_from_der_path, "der_path", tokens=["/", "h", "'", "m"], nest=_nest_path)
    txt("der_path.str_from_der_path", der_path.str_from_der_path, "der_path", tokens=["/", "h", "'", "m"])
    txt("der_path.int_from_index_str", der_path.int_from_index_str, "index_str", variants=[{}, {"bip380_enforced": True}])
    txt("BIP32KeyOrigin.from_description", BIP32KeyOrigin.from_description, "key_origin_str", variants=CV, tokens=["/", "h", "'", "[", "]"], nest=_nest_origin)
    txt("bip39.entropy_from_mnemonic", bip39.entropy_from_mnemonic, "bip39", tokens=MN_TOKENS)
    txt("bip39.lang_from_mnemonic", bip39.lang_from_mnemonic, "bip39", tokens=MN_TOKENS)
    add("bip39.seed_from_mnemonic", "text", lambda m, **kw: bip39.seed_from_mnemonic(m, "", **kw), lambda: g("bip39")[:6], tokens=MN_TOKENS,
        variants=[{}, {"verify_checksum": False}], ident=bip39.seed_from_mnemonic, cap=3000)
    txt("electrum.entropy_from_mnemonic", electrum.entropy_from_mnemonic, "electrum", tokens=MN_TOKENS)
    txt("electrum.version_from_mnemonic", electrum.version_from_mnemonic, "electrum", tokens=MN_TOKENS)
    txt("electrum.lang_from_mnemonic", electrum.lang_from_mnemonic, "electrum", tokens=MN_TOKENS)
    txt("dispatch.seed_type_from_mnemonic", dispatch.seed_type_from_mnemonic, "any_mnemonic", tokens=MN_TOKENS)
    txt("dispatch.all_seed_types_from_mnemonic", dispatch.all_seed_types_from_mnemonic, "any_mnemonic", tokens=MN_TOKENS)
    txt("slip39.share_from_mnemonic", slip39.share_from_mnemonic, "slip39_single", tokens=MN_TOKENS)
    add("slip39.master_secret_from_mnemonics[1]", "text", lambda m, **kw: slip39.master_secret_from_mnemonics([m], **kw),
        lambda: [grp[0] for grp in g("slip39_groups") if len(grp) == 1], tokens=MN_TOKENS, ident=slip39.master_secret_from_mnemonics, cap=3000)
    txt("entropy.bin_str_entropy_from_str", entropy.bin_str_entropy_from_str, "entropy_str")
    txt("entropy.bytes_entropy_from_str", entropy.bytes_entropy_from_str, "entropy_str")
    txt("network.network_from_name", network_from_name, "network_name")
    # ------------------------------------------------------------------ JSON
    def js(name, cls, key, **kw):
        add(name, "json", cls.from_dict, lambda: g(key), variants=CV, **kw)


    js("Tx.from_dict", Tx, "json_tx", consume=_tx_consumer)
    js("TxIn.from_dict", TxIn, "json_tx_in")
    js("TxOut.from_dict", TxOut, "json_tx_out")
    js("OutPoint.from_dict", OutPoint, "json_out_point")
    js("Witness.from_dict", Witness, "json_witness")
    js("BlockHeader.from_dict", BlockHeader, "json_block_header")
    js("Block.from_dict", Block, "json_block")
    js("Psbt.from_dict", Psbt, "json_psbt", consume=_psbt_consumer, weight=3.0)
    js("PsbtIn.from_dict", PsbtIn, "json_psbt_in")
    js("PsbtOut.from_dict", PsbtOut, "json_psbt_out")
    js("BIP32KeyOrigin.from_dict", BIP32KeyOrigin, "json_key_origin")
    js("Network.from_dict", Network, "json_network")
    # extra generators (payload mutated, checksum recomputed) attached by name
    extras = {
        "b58.h160_from_address": lambda: b58_payload_mut(g("b58_address")),
        "ScriptPubKey.from_address": lambda: b58_payload_mut(g("b58_address")),
        "BIP32KeyData.b58decode": lambda: b58_payload_mut(g("xkey_b58")),
        "slip132.address_from_xkey": lambda: b58_payload_mut(g("xkey_b58")),
        "to_pub_key.pub_keyinfo_from_key": lambda: b58_payload_mut(g("xkey_b58")),
        "to_pub_key.point_from_key": lambda: b58_payload_mut(g("xkey_b58")),
        "to_prv_key.prv_keyinfo_from_prv_key": lambda: b58_payload_mut(g("wif") + g("xkey_b58")),
        "to_prv_key.int_from_prv_key": lambda: b58_payload_mut(g("wif") + g("xkey_b58")),
        "base58.decode": lambda: b58_payload_mut(g("b58_address")),
        "b32.witness_from_address": lambda: b32_payload_mut(g("b32_address")),
        "TxOut.from_address": lambda: b32_payload_mut(g("b32_address")),
        "descriptors.from_address": lambda: b32_payload_mut(g("b32_address")),
        "bech32.decode": lambda: b32_payload_mut(g("bech32")),
        "silent_payments.keys_from_address": lambda: b32_payload_mut(g("sp_address")),
        "Psbt.b64decode": lambda: b64_payload_mut(g("psbt")[:10]),
        "bms.Sig.b64decode": lambda: b64_payload_mut(g("bms_sig")),
        "ecies.Envelope.b64decode": lambda: b64_payload_mut(g("ecies")),
        "bip322.Sig.b64decode": lambda: b64_payload_mut([(s[:3], base64.b64decode(s[3:])) if s[:3] in ("smp", "ful", "pof") else ("", base64.b64decode(s))
                                                         for s, _a in g("bip322_b64")]),
        "tx_or_psbt_from_any": lambda: b64_payload_mut(g("psbt")[:6]),
        "descriptors.parse": lambda: descsum_mut(g("descriptor")),
        "descriptors.strip_checksum": lambda: descsum_mut(g("descriptor")),
    }
    for e in out:
        e.extra = extras[e.name]() if e.name in extras else None
    return out


def _p2p_names() -> dict[str, str]:
    return {
        "NetworkAddress": "address", "TimestampedNetworkAddress": "address", "Addr": "address", "NetworkAddressV2": "addrv2", "AddrV2": "addrv2",
        "SendAddrV2": "addrv2", "GetCFilters": "block_filters", "GetCFHeaders": "block_filters", "CFilter": "block_filters",
        "CFHeaders": "block_filters", "GetCFCheckpt": "block_filters", "CFCheckpt": "block_filters", "SendCmpct": "compact_blocks",
        "PrefilledTransaction": "compact_blocks", "CmpctBlock": "compact_blocks", "GetBlockTxn": "compact_blocks", "BlockTxn": "compact_blocks",
        "TxPayload": "data", "BlockPayload": "data", "Version": "handshake", "Verack": "handshake", "Inventory": "inventory", "Inv": "inventory",
        "GetData": "inventory", "NotFound": "inventory", "GetBlocks": "inventory", "GetHeaders": "inventory", "Headers": "inventory",
        "Ping": "keepalive", "Pong": "keepalive", "GetAddr": "negotiation", "Mempool": "negotiation", "SendHeaders": "negotiation",
        "WtxidRelay": "negotiation", "FeeFilter": "negotiation", "Message": "message",
    }


def _psbtview_consumer(J: Judge, e: Entry, obj, inp, how: str) -> None:
    ctx = J.ctx
    for name, args in (("input", (0,)), ("output", (0,)), ("input", (2**31,)), ("output", (-1,)), ("lock_time", ()), ("tx", ()), ("prevouts", ()),
                       ("ecdsa_sig_hash", (0,)), ("taproot_sig_hash", (0,))):
        if not hasattr(type(obj), name):
            continue
        o = _attr_call(J, obj, name, args)
        if o[0] == "raise":
            J.exception(e, o[1], inp, f"{how} -> PsbtView.{name}{args}", role=f"consumer PsbtView.{name}")


K1 = "0279be667ef9dcbbac55a06295ce870b07029bfcdb2dce28d959f2815b16f81798"
K2 = "02c6047f9441ed7d6d3045406e95c07cd85c778e4b8cef3ca7abac09b95c709ee5"
DESC_TOKENS = ["sh(", "wsh(", "wpkh(", "pkh(", "pk(", "tr(", "multi(", "sortedmulti(", "multi_a(", "sortedmulti_a(", "combo(", "addr(", "raw(", "rawtr(",
               "musig(", ")", "))", "{", "}", "{,}", ",", "/*", "/*h", "/*'", "/<0;1>", "/<0;1;2>/*", "/<;>", "<", ">", ";", "[", "]", "[00000000]",
               "[deadbeef/0h]", "#", "#aaaaaaaa", "/0", "/2147483648", "/-1", "h", "'", "*", K1, K2, K1[2:], "04" + K1[2:] * 2, "and_v(v:pk(" + K1 + "),1)",
               "older(1)", "after(0)", "thresh(", "0", "1", "16", "17", "20", "21", "999"]
MS_TOKENS = ["pk(", "pkh(", "pk_k(", "pk_h(", "older(", "after(", "sha256(", "hash256(", "ripemd160(", "hash160(", "andor(", "and_v(", "and_b(", "and_n(",
             "or_b(", "or_c(", "or_d(", "or_i(", "thresh(", "multi(", "multi_a(", "a:", "s:", "c:", "t:", "d:", "v:", "j:", "n:", "l:", "u:", "asctdvjnlu:",
             ")", ",", "0", "1", "2147483647", "2147483648", "4294967295", "499999999", "500000000", K1, K2, K1[2:], "00" * 32, "00" * 20, "00" * 19, "::", ":", "(", "()"]
MN_TOKENS = ["abandon", "zoo", "about", " ", "  ", "　", "\t", "\n", "academic", "acid", "ABANDON", "Zoo", "abandon" * 3, "aband", "zzzz", "あいこくしん",
             "的", "ábaco", "abaco", "ábaco", "　"]


def _nest_descriptor(d: int) -> list[str]:
    return ["sh(" * d + "wpkh(" + K1 + ")" + ")" * d, "wsh(" * d + "pk(" + K1 + ")" + ")" * d, "tr(" + K1[2:] + "," + "{" * d + "pk(" + K2[2:] + ")" + ("," + "pk(" + K2[2:] + ")}") * d + ")",
            "tr(" + K1[2:] + "," + "{" * d, "wsh(" + "and_v(v:pk(" + K1 + ")," * d + "1" + ")" * d + ")", "wsh(" + "or_i(0," * d + "1" + ")" * d + ")",
            "(" * d, ")" * d, "[" * d + "]" * d, "sh(" * d, "pkh(" + K1 + "/0" * d + ")", "pkh([d34db33f" + "/0h" * d + "]" + K1 + ")", "wsh(" + "a:" * d + "pk(" + K1 + "))",
            "wsh(" + "n" * d + ":pk(" + K1 + "))", "wsh(thresh(1,pk(" + K1 + ")" + ",s:pk(" + K2 + ")" * 0 + ",sdv:older(1)" * min(d, 2000) + "))",
            "wsh(multi(1" + ("," + K1) * min(d, 3000) + "))", "tr(" + K1[2:] + "," + "{" * d + "pk(" + K2[2:] + ")" + "}" * d + ")",
            # the same depths through the other argument positions: a bound kept along the first branch only is no bound
            "tr(" + K1[2:] + "," + ("{pk(" + K2[2:] + "),") * d + "pk(" + K2[2:] + ")" + "}" * d + ")",
            "tr(" + K1[2:] + "," + _zigzag("pk(" + K2[2:] + ")", d) + ")",
            "wsh(" + "and_b(" * d + "pk(" + K1 + ")" + ",a:1)" * d + ")", "wsh(" + "or_i(" * d + "0" + ",1)" * d + ")",
            "wsh(" + "andor(1," * d + "1" + ",1)" * d + ")", "wsh(" + "andor(" * d + "1" + ",1,1)" * d + ")",
            "sh(wsh(" + "or_d(pk(" + K1 + ")," * d + "0" + ")" * d + "))"]


def _zigzag(leaf: str, d: int) -> str:
    s = leaf
    for i in range(d):
        s = "{" + leaf + "," + s + "}" if i % 2 else "{" + s + "," + leaf + "}"
    return s


def _nest_miniscript(d: int) -> list[str]:
    return ["and_v(v:pk(" + K1 + ")," * d + "1" + ")" * d, "or_i(0," * d + "1" + ")" * d, "andor(1,1," * d + "1" + ")" * d, "t" * d + ":1", "a:" * d + "1",
            "n" * d + ":1", "l" * d + ":0", "(" * d, ")" * d, "and_v(" * d, "or_b(1,s:" * d + "1" + ")" * d, "thresh(1," * d + "1" + ")" * d, "j:" * d, ":" * d,
            "thresh(1" + ",1" * min(d, 5000) + ")", "multi(1" + ("," + K1) * min(d, 3000) + ")", "or_d(pk(" + K1 + ")," * d + "0" + ")" * d,
            # every argument position, not the first or the last alone
            "and_b(" * d + "1" + ",a:1)" * d, "or_i(" * d + "0" + ",1)" * d, "andor(" * d + "1" + ",1,1)" * d, "andor(1," * d + "1" + ",1)" * d,
            "or_b(" * d + "0" + ",a:0)" * d, "thresh(1,a:" * 0 + "thresh(1," * 0 + "and_v(" * d + "v:1" + ",1)" * d, "thresh(2,1,a:" * d + "1" + ",a:1)" * d]


def _nest_path(d: int) -> list[str]:
    return ["m" + "/0" * d, "m" + "/0h" * d, "/" * d, "m/" + "'" * d, "m/" + "0" * d, "m/" + "9" * d, "m" + "/2147483647'" * min(d, 3000)]


def _nest_origin(d: int) -> list[str]:
    return ["d34db33f" + "/0" * d, "d34db33f" + "/0h" * d, "[" * d + "d34db33f", "d34db33f/" + "9" * d]


# ============================================================== predicates
def run_predicates(J: Judge, only: str | None, quota: int, budget: Budget) -> None:
    """Rule 2: each verifier on valid arguments (must answer True), then with every slot replaced by other values of its declared type."""
    from btclib import b32, b58, bip322
    from btclib.block import merkle_proof
    from btclib.ecc import bms, borromean, dleq, dsa, pedersen, ssa
    from btclib.hashes import reduce_to_hlen
    from btclib.script import script_pub_key as SPK
    from btclib.script import taproot
    from btclib.script.engine import script as es
    from btclib.script.engine import tapscript as et
    from btclib.to_pub_key import point_from_key, pub_keyinfo_from_prv_key

    from ..gen.hostile import BinMut, TextMut

    ctx = J.ctx
    rng = ctx.rng
    M, T = BinMut(rng), TextMut(rng)
    q = 12
    pub = pub_keyinfo_from_prv_key(q)[0]
    pubu = pub_keyinfo_from_prv_key(q, compressed=False)[0]
    xonly = pub[1:]
    msg = b"Satoshi Nakamoto"
    mh = reduce_to_hlen(msg)
    P = point_from_key(q)
    dsig, ssig, bsig = dsa.sign(msg, q), ssa.sign(msg, q), bms.sign(msg, q)
    addr = b58.p2pkh(pub)
    waddr = b32.p2wpkh(pub)
    b322 = bip322.sign(msg, q, waddr)
    B = pub_keyinfo_from_prv_key(2)[0]
    C = pub_keyinfo_from_prv_key(2 * q)[0]
    proof = dleq.generate_proof(q, B)
    txid = bytes.fromhex("01" * 32)
    sib = bytes.fromhex("02" * 32)
    from btclib.hashes import hash256

    root2 = hash256(txid[::-1] + sib[::-1])[::-1]
    commitment = pedersen.commit(1, 2)
    rings = [[point_from_key(7), point_from_key(8)], [point_from_key(9)]]
    bor = borromean.sign(b"m", [1, 2], [1, 0], [8, 9], rings)
    # slot kinds: O octets, K public key, X x-only/bip340 key, S sig object-or-octets (with its class), A address string, T text/base64 sig,
    # I int, L list of octets, P point
    def octets_like(v: bytes):
        k = rng.random()
        if k < 0.35:
            return M.one(v, guess_fieldmap(v), None)[0]
        if k < 0.45:
            return v.hex()
        if k < 0.6:
            return T.one(v.hex(), None, None)[0]
        if k < 0.7:
            return rng.choice([b"", "", bytes(32), b"\xff" * 32, bytes(33), bytes(64), bytes(65), "zz", "0", " ", "\x00", "\ud800", "00" * 70000, bytes(100000)])
        if k < 0.8:
            return bytearray(v)
        if k < 0.9:
            return memoryview(v)
        return bytes(rng.randrange(256) for _ in range(rng.choice([0, 1, 31, 32, 33, 63, 64, 65, 72])))

    def key_like(v):
        k = rng.random()
        if k < 0.5:
            return octets_like(v if isinstance(v, bytes) else pub)
        if k < 0.6:
            return rng.choice([(0, 0), (1, 1), (5, 0), (P[0], P[1] + 1), (P[0], -P[1]), (2**256, 1), (-1, -1), (0, 1), (P[1], P[0]), (2**600, 2**600)])
        if k < 0.7:
            return rng.choice(["xpub661MyMwAqRbcFtXgS5sYJABqqG9YLmC4Q1Rdap9gSE8NqtwybGhePY2gZ29ESFjqJoCu1Rupje8YtGqsefD265TMg7usUDFdp6W1EGMcet8",
                               "xprv9s21ZrQH143K3QTDL4LXw2F7HEK3wJUD2nW2nRk4stbPy6cq3jPPqjiChkVvvNKmPGJxWUtg6LnF5kejMRNNU3TGtRBeJgk33yuGBxrMPHi",
                               "KwfJTiKdcjNMjBu4ksgGd21EZXz6JomoZNbirP3nfd3K9ZMXME", "not a key", pubu, pubu.hex(), b"\x06" + pubu[1:], b"\x02" + bytes(32), b"\x02" + b"\xff" * 32])
        if k < 0.8:
            return rng.choice([0, 1, -1, 2**255, 2**256 - 1, 2**256, P[0]])   # int: declared for BIP340PubKey; for PubKey it is a wrong type
        return v

    def sig_like(v, cls, extra=(), octets_ok=True):
        k = rng.random() if octets_ok else 0.35 + 0.35 * rng.random()
        n = 0xFFFFFFFFFFFFFFFFFFFFFFFFFFFFFFFEBAAEDCE6AF48A03BBFD25E8CD0364141
        if k < 0.35:
            return octets_like(v.serialize())
        if k < 0.7:
            vals = [0, 1, -1, n - 1, n, n + 1, 2**256 - 1, 2**256, 2**300, v.r, v.s, n - v.s, 2**255]
            try:
                return cls(rng.choice(vals), rng.choice(vals), *extra, check_validity=False)
            except Exception:  # noqa: BLE001
                return v
        if k < 0.8:
            return v.serialize().hex()
        return v

    def text_like(v: str):
        k = rng.random()
        if k < 0.6:
            return T.multi(v, rng.choice([1, 1, 2, 3]), None, None)[0]
        if k < 0.8:
            return rng.choice(["", " ", "not an address", "\x00", "\ud800", "A" * 100000, "bc1", "1", "3", v.upper(), v.lower(), v + " ", " " + v,
                               "bc1qw508d6qejxtdg4y5r3zarvary0c5xw7kv8f3t4", "3J98t1WpEZ73CNmQviecrnyiWrnqRhWNLy", "tb1qw508d6qejxtdg4y5r3zarvary0c5xw7kxpjzsx",
                               "bc1p5cyxnuxmeuwuvkwfem96lqzszd02n6xdcjrs20cac6yqjjwudpxqkedrcr", "1BvBMSEYstWetqTFn5Au4m4GFg7xJaNVN2"])
        if k < 0.9:
            return v.encode()
        return v

    def int_like(v: int):
        return rng.choice([0, 1, -1, 2, v + 1, v - 1, 2**31, 2**32, 2**63, 2**64, 2**256, -2**63, 10**100, 255, 256])

    def list_like(v: list, elem):
        k = rng.random()
        if k < 0.3:
            return [elem(x) for x in v]
        if k < 0.45:
            return []
        if k < 0.6:
            return v + v
        if k < 0.7:
            return v[:-1]
        if k < 0.8:
            return tuple(v)
        if k < 0.9 and v:
            w = list(v)
            w[rng.randrange(len(w))] = elem(w[0])
            return w
        return v * rng.choice([3, 33, 300])

    O, K, X, A, I = "O", "K", "X", "A", "I"
    preds = [
        # (name, fn, valid args, slot kinds, kwargs)
        ("dsa.verify", dsa.verify, (msg, pub, dsig), (O, K, ("S", dsa.Sig)), {}),
        ("dsa.verify_", dsa.verify_, (mh, pub, dsig), (O, K, ("S", dsa.Sig)), {}),
        ("ssa.verify", ssa.verify, (msg, xonly, ssig), (O, X, ("S", ssa.Sig)), {}),
        ("ssa.verify_", ssa.verify_, (mh, xonly, ssig), (O, X, ("S", ssa.Sig)), {}),
        ("ssa.batch_verify", ssa.batch_verify, ([msg, msg], [xonly, xonly], [ssig, ssig]), (("L", O), ("L", X), ("L", ("SO", ssa.Sig))), {}),
        ("ssa.batch_verify_", ssa.batch_verify_, ([mh, mh], [xonly, xonly], [ssa.sign_(mh, q), ssa.sign_(mh, q)]), (("L", O), ("L", X), ("L", ("SO", ssa.Sig))), {}),
        ("bms.verify", bms.verify, (msg, addr, bsig), (O, A, ("B", bms.Sig)), {}),
        ("bms.verify[segwit]", bms.verify, (msg, waddr, bms.sign(msg, q, waddr)), (O, A, ("B", bms.Sig)), {}),
        ("bip322.verify", bip322.verify, (msg, waddr, b322), (O, A, ("B322", None)), {}),
        ("bip322.verify[legacy-off]", bip322.verify, (msg, waddr, b322), (O, A, ("B322", None)), {"legacy": False}),
        ("dleq.verify_proof", dleq.verify_proof, (pub, B, C, proof), (K, K, K, O), {}),
        ("merkle_proof.verify", merkle_proof.verify, (txid, [sib], 0, root2), (O, ("L", O), I, O), {}),
        ("pedersen.verify", pedersen.verify, (1, 2, commitment), (I, I, "P"), {}),
        ("borromean.verify", borromean.verify, (b"m", bor, rings), (O, ("BOR", None), "RINGS"), {}),
        ("engine.script.dsa_verify", es.dsa_verify, (mh, pub, dsig.serialize()), ("b", "b", "b"), {}),
        ("engine.tapscript.ssa_verify", et.ssa_verify, (mh, xonly, ssig.serialize()), ("b", "b", "b"), {}),
        ("b32.is_segwit_prefixed", b32.is_segwit_prefixed, (waddr,), (A,), {}),
    ]
    for nm in ("is_p2pk", "is_p2pkh", "is_p2sh", "is_p2ms", "is_nulldata", "is_segwit", "is_p2wpkh", "is_p2wsh", "is_p2tr"):
        valid = {"is_p2pk": bytes([33]) + pub + b"\xac", "is_p2pkh": bytes.fromhex("76a914" + "11" * 20 + "88ac"), "is_p2sh": bytes.fromhex("a914" + "11" * 20 + "87"),
                 "is_p2ms": bytes.fromhex("5121") + pub + bytes.fromhex("51ae"), "is_nulldata": bytes.fromhex("6a0548656c6c6f"), "is_segwit": bytes.fromhex("0014" + "11" * 20),
                 "is_p2wpkh": bytes.fromhex("0014" + "11" * 20), "is_p2wsh": bytes.fromhex("0020" + "11" * 32), "is_p2tr": bytes.fromhex("5120") + xonly}[nm]
        preds.append((f"script_pub_key.{nm}", getattr(SPK, nm), (valid,), (O,), {}))
    dummy = Entry("predicates", "pred", None, [])

    def mutate(kind, v):
        if kind == O:
            return octets_like(v if isinstance(v, bytes) else bytes(v))
        if kind == "b":   # declared bytes only
            w = octets_like(v)
            return bytes(w) if isinstance(w, (bytes, bytearray, memoryview)) else v[:-1]
        if kind == K:
            w = key_like(v)
            return v if isinstance(w, int) and not isinstance(w, bool) else w
        if kind == X:
            return key_like(v)
        if kind == A:
            return text_like(v)
        if kind == I:
            return int_like(v)
        if kind == "P":
            return rng.choice([(0, 0), (1, 1), (5, 0), (v[0], v[1] + 1), (2**256, 1), (-1, 3), v])
        if kind == "RINGS":
            k = rng.random()
            if k < 0.3:
                return [list(r) for r in v][::-1]
            if k < 0.5:
                return [r[:-1] for r in v]
            if k < 0.7:
                return [[(1, 1)] + list(r[1:]) for r in v]
            if k < 0.8:
                return []
            return [list(r) + [point_from_key(3)] for r in v]
        if isinstance(kind, tuple) and kind[0] == "S":
            return sig_like(v, kind[1])
        if isinstance(kind, tuple) and kind[0] == "SO":   # declared Sig only (no octets spelling)
            return sig_like(v, kind[1], octets_ok=False)
        if isinstance(kind, tuple) and kind[0] == "B":
            k = rng.random()
            if k < 0.4:
                return text_like(v.b64encode())
            if k < 0.6:
                import base64

                return base64.b64encode(octets_bytes(octets_like(v.serialize()))).decode()
            if k < 0.8:
                try:
                    return bms.Sig(rng.choice([0, 26, 27, 31, 35, 39, 42, 43, 255, -1, 2**31]), sig_like(v.dsa_sig, dsa.Sig, octets_ok=False), check_validity=False)
                except Exception:  # noqa: BLE001
                    return v
            return v
        if isinstance(kind, tuple) and kind[0] == "B322":
            k = rng.random()
            if k < 0.5:
                return text_like(v.b64encode())
            if k < 0.75:
                import base64

                return base64.b64encode(octets_bytes(octets_like(v.serialize()))).decode()
            if k < 0.85:
                return text_like(bsig.b64encode())
            return v
        if isinstance(kind, tuple) and kind[0] == "BOR":
            k = rng.random()
            if k < 0.4:
                return octets_like(v.serialize())
            if k < 0.7:
                try:
                    return borromean.BorromeanSig(bytes(rng.randrange(256) for _ in range(32)), [list(x) for x in v.s][::-1], check_validity=False)
                except Exception:  # noqa: BLE001
                    return v
            return v
        if isinstance(kind, tuple) and kind[0] == "L":
            return list_like(list(v), lambda x: mutate(kind[1], x))
        return v

    def octets_bytes(w):
        if isinstance(w, (bytes, bytearray, memoryview)):
            return bytes(w)
        try:
            return bytes.fromhex(w)
        except (ValueError, TypeError):
            return b"\x00"

    for name, fn, valid, kinds, kw in preds:
        if only is not None and name != only:
            continue
        pe = Entry(name, "pred", fn, [], variants=[kw])
        o = guarded(fn, *valid, **kw)
        if o[0] != "ok" or o[1] is not True:
            ctx.inconclusive_(f"predicate fixture {name} does not answer True on its valid arguments: {o[1]!r}"[:300])
            continue
        ctx.mon(f"pred-valid-true:{name}")
        # depth-1 pass: every octet-typed slot through the boundary values of every offset, the others left valid
        planned: list = []
        for i, kind in enumerate(kinds):
            if kind in (O, "b") and isinstance(valid[i], bytes):
                for m, _lab, _off in M.systematic(valid[i], guess_fieldmap(valid[i]), max(120, quota // 4)):
                    a2 = list(valid)
                    a2[i] = m
                    planned.append(([i], a2))
        seen = 0
        while seen < quota + len(planned) and not budget.over():
            if planned:
                slots, args = planned.pop()
            else:
                args = list(valid)
                slots = rng.sample(range(len(args)), rng.choice([1, 1, 1, 2, len(args)]) if len(args) > 1 else 1)
                for i in slots:
                    args[i] = mutate(kinds[i], args[i])
            o = J.call(pe, "args", 0, tuple(args), fn, *args, **kw)
            seen += 1
            if o[0] == "skip":
                continue
            ctx.mon(f"pred:{name}")
            ctx.mon(f"deep:{name}")
            ctx.mon(f"inputs:{name}")
            judge_predicate(J, dummy, name, o, args)
            if o[0] == "timeout":
                J.timeout(pe, 0, "args", tuple(args))
            try:
                key = (name, repr(args)[:3000])
            except Exception:  # noqa: BLE001
                key = (name, seen)
            ctx.case("predicate:" + "+".join(str(kinds[i] if isinstance(kinds[i], str) else kinds[i][0]) for i in sorted(slots)), key,
                     sample={"predicate": name, "args": short(args, 100)})


# ================================================================== shards
GROUPS = {"stream": 5, "octets": 1, "text": 5, "json": 3}


def plan(tier: str, seed: int) -> list[dict]:
    q = tier == "quick"
    specs = [{"name": "registry", "fn": "shard_registry", "_budget_s": 60, "_timeout_s": 600}]
    for grp, n in GROUPS.items():
        for i in range(n):
            specs.append({"name": f"{grp}-{i}", "fn": "shard_entries", "group": grp, "part": i, "of": n,
                          "sys_cap": 900 if q else 6000, "quota": 1500 if q else 40000,
                          "_budget_s": 62 if q else 1100, "_timeout_s": 900 if q else 3600})
    for i, w in enumerate(("even", "odd")):
        specs.append({"name": f"pred-{i}", "fn": "shard_pred", "which": w, "quota": 12000 if q else 200000,
                      "_budget_s": 55 if q else 1000, "_timeout_s": 900 if q else 3600})
    if not q:
        specs.append({"name": "atheris", "fn": "shard_atheris", "_budget_s": 900, "_timeout_s": 2400})
    return specs


def _reach():
    """Entry counters of the mechanism functions, under their module-qualified names (several are called parse / verify)."""
    import importlib

    from ..hooks import Reach

    r = Reach()
    for d in MECH:
        modname, _, attr = d.partition(":")
        try:
            obj = importlib.import_module(modname)
            for part in attr.split("."):
                obj = obj.__dict__[part] if isinstance(obj, type) else getattr(obj, part)
        except (ImportError, AttributeError, KeyError):
            continue
        r.watch(modname.replace("btclib.", "") + ":" + attr, obj)
    r.start()
    return r


def _entries_of(reg: list[Entry], group: str) -> list[Entry]:
    return sorted((e for e in reg if e.kind == group), key=lambda e: e.name)


def _merge(ctx: Ctx, r: dict) -> None:
    """Fold a worker's (possibly partial) result into the shard's context."""
    from ..ctx import MAX_SAMPLES, MAX_VIOLATIONS_KEPT

    ctx.evaluations += r.get("evaluations", 0)
    ctx._bulk_distinct += r.get("distinct_nontrivial", 0)
    for k, tgt in (("classes", ctx.classes), ("monitors", ctx.monitors), ("arms", ctx.arms), ("reached", ctx.reached), ("stats", ctx.stats),
                   ("selftest", ctx.selftest), ("violation_mechs", ctx.violation_mechs)):
        tgt.update(r.get(k, {}))
    for v in r.get("violations", []):
        have = sum(1 for w in ctx.violations if w["mechanism"] == v["mechanism"])
        if have == 0 or (have < 3 and len(ctx.violations) < MAX_VIOLATIONS_KEPT):
            v["shard"] = ctx.shard
            ctx.violations.append(v)
    for smp in r.get("samples", []):
        if len(ctx.samples) < MAX_SAMPLES and smp["class"] not in ctx._sample_classes:
            ctx._sample_classes.add(smp["class"])
            ctx.samples.append(smp)
    for x in r.get("inconclusive", []):
        ctx.inconclusive_(x)
    for x in r.get("exhaustive", []):
        if x not in ctx.exhaustive:
            ctx.exhaustive.append(x)
    ctx.notes.extend(r.get("notes", [])[:6])


def supervise(ctx: Ctx, items: list) -> None:
    """Run ``work(child_ctx, J)`` for every (label, work) of ``items`` in one forked worker under a heartbeat.  A worker whose
    heartbeat stops is killed, its journalled case re-run alone (rule 5), and a new worker resumes at the same item with that
    stage / input excluded."""
    import gc
    import mmap
    import random

    global _MM, _HB
    skip_stages: set = set()
    skip_inputs: list = []
    start, attempt = 0, 0
    gc.freeze()   # keep the inherited heap out of the workers' collectors: fewer copied pages
    while start < len(items):
        mm = mmap.mmap(-1, _MM_SIZE)
        fd, res_path = tempfile.mkstemp(prefix="rv-c19-res-", suffix=".json")
        os.close(fd)
        os.unlink(res_path)
        pid = os.fork()
        if pid == 0:  # ------------------------------------------------ worker
            code = 0
            try:
                _MM, _HB = mm, 0
                cctx = Ctx(ctx.prop, ctx.tier, ctx.seed, ctx.shard, ctx.params)
                cctx.deadline = ctx.deadline
                reach = _reach()
                J = Judge(cctx, res_path, skip_stages, skip_inputs, reach)
                for k in range(start, len(items)):
                    label, work = items[k]
                    mm[520:528] = k.to_bytes(8, "little")
                    cctx.rng = random.Random(f"{ctx.prop}:{ctx.seed}:{ctx.shard}:{label}:{attempt if k == start else 0}")
                    _beat()
                    try:
                        J._slow_here = 0
                        work(cctx, J)
                    except _EntryAbandoned:
                        cctx.notes.append(f"{label}: {Judge.MAX_SLOW} inputs exceeded the soft budget; the rest of its workload was dropped")
                        cctx.stat("entry-abandoned-after-slow-inputs")
                    except _SoftTimeout:
                        cctx.stat("soft-timeout-outside-guard")
                    except BaseException as ex:  # noqa: BLE001
                        tb = traceback.format_exc()
                        org = lib_origin(ex)
                        if org is not None and not isinstance(ex, (KeyboardInterrupt, SystemExit)):
                            _violation(cctx, f"crash:{type(ex).__name__}@{org}",
                                           f"uncaught {type(ex).__name__} from the library while working on {label}: {ex}"[:500], {"traceback": tb[-1500:]})
                        else:
                            cctx.inconclusive_(f"harness error while working on {label}: {tb[-600:]}")
                    cctx.mon(f"ran:{label}")
                reach.stop()
                J.dump()
            except BaseException:  # noqa: BLE001
                code = 3
            finally:
                os._exit(code)
        # ------------------------------------------------------------ supervisor
        last_hb, last_change, cpu_at_change = -1, time.time(), 0.0
        status = None
        while True:
            done, st = os.waitpid(pid, os.WNOHANG)
            if done:
                status = "done" if os.WIFEXITED(st) and os.WEXITSTATUS(st) == 0 else f"died:{st}"
                break
            hb = int.from_bytes(mm[0:8], "little")
            now = time.time()
            cpu = _cpu_of(pid) or 0.0
            if hb != last_hb:
                last_hb, last_change, cpu_at_change = hb, now, cpu
            elif cpu - cpu_at_change > STALL_S or now - last_change > 40 * STALL_S:
                # STALL_S of the worker's own CPU time inside one call the interpreter never came back from
                os.kill(pid, signal.SIGKILL)
                os.waitpid(pid, 0)
                status = "stalled"
                break
            time.sleep(0.1)
        part = None
        if os.path.exists(res_path):
            try:
                with open(res_path) as f:
                    part = json.load(f)
            except Exception:  # noqa: BLE001
                part = None
        for q in (res_path, res_path + ".tmp"):
            if os.path.exists(q):
                os.unlink(q)
        if part:
            _merge(ctx, part)
            for hx in part.get("pending", []):
                try:
                    start_rerun(ctx, pickle.loads(bytes.fromhex(hx)), "soft budget")
                except Exception as ex:  # noqa: BLE001
                    ctx.inconclusive_(f"a slow case could not be read back: {ex!r}"[:200])
        at = int.from_bytes(mm[520:528], "little")
        label = items[min(at, len(items) - 1)][0]
        if status == "done":
            mm.close()
            return
        if status != "stalled":
            ctx.inconclusive_(f"worker ended abnormally ({status}) while on {label}")
            mm.close()
            return
        case = _read_journal(mm)
        mm.close()
        ctx.stat("worker-stalled")
        if case is None:
            ctx.inconclusive_(f"worker stalled on {label} before journalling a case")
            return
        start_rerun(ctx, case, f"{STALL_S:.0f}s heartbeat")
        if case.get("stage", "parse") == "parse":
            skip_inputs.append(case)
        else:
            skip_stages.add(case["stage"])
        attempt = attempt + 1 if at == start else 1
        start = at
        if attempt >= 4:
            ctx.notes.append(f"{label}: gave up resuming after {attempt} stalls")
            start, attempt = at + 1, 0


def shard_entries(ctx: Ctx) -> None:
    from ..gen.hostile import Seeds

    install_guard()
    S = Seeds(ctx.rng)
    reg = build_registry(S)
    grp, part, of = ctx.params["group"], ctx.params["part"], ctx.params["of"]
    mine = _entries_of(reg, grp)[part::of]
    if ctx.params.get("entry"):   # debugging / replay aid: one entry only
        mine = [e for e in reg if e.name == ctx.params["entry"]]
    items = []
    for k, e in enumerate(mine):
        def work(cctx: Ctx, J: Judge, e=e, k=k) -> None:
            left = max(1.0, cctx.deadline - time.time())
            rest_w = sum(x.weight for x in mine[k:]) or 1.0
            budget = Budget(cctx, left * e.weight / rest_w, f"deep:{e.name}")
            quota = int(cctx.params["quota"] * e.weight)
            if e.kind in ("stream", "octets"):
                run_binary(J, e, quota, budget, cctx.params["sys_cap"])
            elif e.kind == "text":
                run_text(J, e, quota, budget, cctx.params["sys_cap"])
            else:
                run_json(J, e, quota, budget, 8 if cctx.tier == "quick" else None)

        items.append((e.name, work))
    supervise(ctx, items)
    settle_reruns(ctx)


def shard_pred(ctx: Ctx) -> None:
    install_guard()
    names = [n for i, n in enumerate(PREDICATE_NAMES) if i % 2 == (0 if ctx.params["which"] == "even" else 1)]
    per = max(60, ctx.params["quota"] // max(1, len(names)))
    items = []
    for k, name in enumerate(names):
        def work(cctx: Ctx, J: Judge, name=name, k=k) -> None:
            slice_s = max(1.0, cctx.deadline - time.time()) / (len(names) - k)
            run_predicates(J, name, per, Budget(cctx, slice_s, f"deep:{name}"))

        items.append((name, work))
    supervise(ctx, items)
    settle_reruns(ctx)


def _ident_key(x) -> str:
    owner = getattr(x, "__self__", None)
    if isinstance(owner, type):
        return f"{owner.__module__}:{owner.__qualname__}.{x.__name__}"
    return f"{getattr(x, '__module__', '?')}:{getattr(x, '__qualname__', repr(x))}"


def shard_registry(ctx: Ctx) -> None:
    """The table against introspection, and the generator aids against their published vectors."""
    import importlib
    import inspect
    import pkgutil

    import btclib

    from ..gen.hostile import Seeds, _vec
    from ..ref import base58 as r58
    from ..ref import bech32 as r32
    from ..ref.descsum import descsum_create

    install_guard()
    # ---- generator aids (not the oracle) against vendored vectors
    bad = 0
    d = _vec("descriptor_checksums.json")
    for x in d:
        if descsum_create(x["desc"]) != x["checksum"]:
            bad += 1
            ctx.oracle_broken("descriptor_checksums.json", x["desc"][:40])
    ctx.oracle_ok("descriptor_checksums.json", len(d) - bad)
    n = 0
    for hx, b58s in _vec("base58_encode_decode.json"):
        if r58.b58encode(bytes.fromhex(hx)) != b58s or r58.b58decode(b58s) != bytes.fromhex(hx):
            ctx.oracle_broken("base58_encode_decode.json", b58s[:30])
        n += 1
    ctx.oracle_ok("base58_encode_decode.json", n)
    n = 0
    for s in Seeds(ctx.rng).get("bech32"):
        dec = r32.bech32_decode(s.lower(), 2000)
        if not dec or dec[0] is None:
            ctx.oracle_broken("bip173_bip350.json", s[:30])
        n += 1
    ctx.oracle_ok("bip173_bip350.json", n)

    # ---- the registry
    reg = build_registry(Seeds(ctx.rng))
    covered = {_ident_key(e.ident) for e in reg}
    for e in reg:
        ctx.mon(f"registered:{e.name}")
        ctx.stat(f"registry:{e.kind}")
    for nm in PREDICATE_NAMES:
        ctx.mon(f"registered:{nm}")
        ctx.stat("registry:pred")
    found_classes, found_funcs, uncovered = set(), set(), []
    for mi in pkgutil.walk_packages(btclib.__path__, "btclib."):
        try:
            m = importlib.import_module(mi.name)
        except Exception as ex:  # noqa: BLE001
            ctx.notes.append(f"module {mi.name} not importable: {ex!r}"[:200])
            continue
        for name in getattr(m, "__all__", []):
            obj = getattr(m, name, None)
            if inspect.isclass(obj) and obj.__module__.startswith("btclib."):
                for attr in ("parse", "from_dict", "b58decode", "b64decode"):
                    f = getattr(obj, attr, None)
                    if f is None or not callable(f):
                        continue
                    key = f"{obj.__module__}:{obj.__qualname__}.{attr}"
                    found_classes.add(f"{obj.__module__}:{obj.__qualname__}")
                    if key not in covered:
                        uncovered.append(key)
            elif inspect.isfunction(obj) and obj.__module__.startswith("btclib."):
                if obj.__name__ in ("parse", "decode") or obj.__name__.startswith("parse_"):
                    key = f"{obj.__module__}:{obj.__qualname__}"
                    found_funcs.add(key)
                    if key not in covered:
                        uncovered.append(key)
    uncovered = sorted(set(uncovered))
    ctx.stat("registry:introspected-classes", len(found_classes))
    ctx.stat("registry:introspected-functions", len(found_funcs))
    ctx.stat("registry:entries", len(reg) + len(PREDICATE_NAMES))
    for u in uncovered:
        ctx.inconclusive_(f"registry: discovered entry point without a generator: {u}")
    ctx.case("registry", "registry", nontrivial=False, sample={"entries": len(reg), "classes": len(found_classes), "functions": len(found_funcs),
                                                               "uncovered": uncovered[:20]})


PREDICATE_NAMES = [
    "dsa.verify", "dsa.verify_", "ssa.verify", "ssa.verify_", "ssa.batch_verify", "ssa.batch_verify_", "bms.verify", "bms.verify[segwit]", "bip322.verify",
    "bip322.verify[legacy-off]", "dleq.verify_proof", "merkle_proof.verify", "pedersen.verify", "borromean.verify", "engine.script.dsa_verify",
    "engine.tapscript.ssa_verify", "b32.is_segwit_prefixed", "script_pub_key.is_p2pk", "script_pub_key.is_p2pkh",
    "script_pub_key.is_p2sh", "script_pub_key.is_p2ms", "script_pub_key.is_nulldata", "script_pub_key.is_segwit", "script_pub_key.is_p2wpkh",
    "script_pub_key.is_p2wsh", "script_pub_key.is_p2tr",
]


def shard_atheris(ctx: Ctx) -> None:
    """Thorough-tier extra: coverage-guided fuzzing with the same oracle, if atheris loads."""
    try:
        import atheris  # noqa: F401
    except Exception as ex:  # noqa: BLE001
        ctx.notes.append(f"atheris not loadable ({type(ex).__name__}: {str(ex)[:120]}): coverage-guided pass skipped")
        ctx.stat("atheris:skipped")
        ctx.case("atheris", "skipped", nontrivial=False)
        return
    _atheris_pass(ctx)


def finalize(m: dict, tier: str) -> list[str]:
    out = []
    mon, st, cl, r = m["monitors"], m["stats"], m["classes"], m["reached"]
    registered = sorted(k.split(":", 1)[1] for k in mon if k.startswith("registered:"))
    if not registered:
        out.append("the registry shard did not report the entry points")
    short_ = [f"{n}({mon.get('deep:' + n, 0)})" for n in registered if mon.get("deep:" + n, 0) < 100]
    if short_:
        out.append(f"{len(short_)} entry points received fewer than 100 inputs that got past their first field: " + ", ".join(short_[:25]))
    if tier == "thorough" and not (st.get("atheris:parsers-fuzzed") or st.get("atheris:skipped")):
        out.append("the coverage-guided pass neither ran nor said why it was skipped")
    for need in ("calls:stream", "calls:stream-no-tail", "calls:octets", "calls:text", "calls:json", "position:judged", "position:whole-vs-stream", "consumer-calls",
                 "consumer:tx-sighash-engine", "consumer:psbt", "calls:hex-text", "calls:text-as-bytes", "pred:BasicBlockFilter.match"):
        if not mon.get(need):
            out.append(f"monitor {need} made no observation")
    for need in ("accepted:stream", "accepted:octets", "accepted:text", "accepted:json", "refused:BTClibValueError", "refused:BTClibTypeError",
                 "pred-answer:True", "pred-answer:False"):
        if not st.get(need):
            out.append(f"outcome {need} never observed")
    for d in range(1, 7):
        if not cl.get(f"depth:{d}"):
            out.append(f"no input of mutation depth {d}")
    for need in ("text:nesting>=10^4", "text:checksum-recomputed", "binary:hex-text", "stream:compact", "stream:truncate@field", "stream:extended"):
        if not cl.get(need):
            out.append(f"input class {need} never evaluated")
    for f in ("utils:read_exactly", "utils:fields_from_json_object", "utils:list_from_json_array", "utils:int_from_json_number", "var_int:parse",
              "psbt.psbt:_assert_map_count", "descriptors.miniscript:parse", "descriptors.miniscript:_tree_eval", "descriptors.descriptors:_parse_tree",
              "ecc.dsa:verify_", "ecc.ssa:verify_", "ecc.ssa:batch_verify_", "ecc.bms:verify", "bip322:verify", "ecc.dleq:verify_proof",
              "block.merkle_proof:verify", "script.engine.script:dsa_verify", "script.engine.tapscript:ssa_verify",
              "block.block_filter:BasicBlockFilter.match_any"):
        if not r.get(f):
            out.append(f"mechanism {f} never entered")
    if not m["selftest"].get("descriptor_checksums.json"):
        out.append("generator-aid self-tests did not run")
    return out


# ================================================================= atheris
ATHERIS_ENTRIES = [
    "Tx.parse", "Block.parse", "Psbt.parse", "PsbtIn.parse[v0]", "PsbtIn.parse[v2]", "PsbtOut.parse[v0]", "PsbtOut.parse[v2]", "Message.parse",
    "Version.parse", "CmpctBlock.parse", "AddrV2.parse", "Headers.parse", "BlockTxn.parse", "Witness.parse", "script.parse", "taproot.parse",
    "BIP32KeyData.parse", "dsa.Sig.parse", "BasicBlockFilter.parse", "psbt_utils.deserialize_map", "miniscript.from_script", "PsbtView",
    "ecies.Envelope.parse", "psbt_utils.parse_taproot_tree", "descriptors.parse", "miniscript.parse", "Bip21.parse", "b32.witness_from_address",
    "b58.h160_from_address", "BIP32KeyData.b58decode", "Psbt.b64decode", "tx_or_psbt_from_any", "der_path.indexes_from_der_path",
    "slip39.share_from_mnemonic", "bip39.entropy_from_mnemonic", "electrum.version_from_mnemonic",
]


def _ensure_atheris() -> str | None:
    """None when ``import atheris`` works (installing the vendored wheel into /verif/.deps once if needed); else why not."""
    root = os.path.dirname(os.path.dirname(os.path.dirname(os.path.abspath(__file__))))
    deps = os.path.join(root, ".deps")
    if deps not in sys.path:
        sys.path.append(deps)
    try:
        import atheris  # noqa: F401

        return None
    except Exception as first:  # noqa: BLE001
        if os.path.isdir("/opt/veriftools/wheels") and os.path.isdir(deps):
            subprocess.run([sys.executable, "-m", "pip", "install", "--quiet", "--no-index", "--find-links", "/opt/veriftools/wheels", "--target", deps,
                            "atheris"], capture_output=True, text=True, timeout=300)
            import importlib

            importlib.invalidate_caches()
            try:
                import atheris  # noqa: F401

                return None
            except Exception as second:  # noqa: BLE001
                return f"{type(second).__name__}: {str(second)[:150]}"
        return f"{type(first).__name__}: {str(first)[:150]}"


def _atheris_pass(ctx: Ctx) -> None:
    """One libFuzzer process per parser (atheris.Fuzz does not return), several at a time, same exception oracle."""
    root = os.path.dirname(os.path.dirname(os.path.dirname(os.path.abspath(__file__))))
    per = float(ctx.params.get("per_s", 60))
    names = list(ATHERIS_ENTRIES)
    running: list = []
    td = tempfile.mkdtemp(prefix="rv-c19-ath-")
    env = dict(os.environ)
    env["PYTHONPATH"] = os.pathsep.join([root, os.path.join(root, ".deps"), env.get("PYTHONPATH", "")])

    def reap(block: bool) -> None:
        for item in list(running):
            name, proc, out, t0 = item
            if proc.poll() is None:
                if time.time() - t0 < per * 4 + 120 and not block:
                    continue
                if time.time() - t0 < per * 4 + 120:
                    try:
                        proc.wait(timeout=per * 4 + 120 - (time.time() - t0))
                    except subprocess.TimeoutExpired:
                        pass
                if proc.poll() is None:
                    proc.kill()
                    proc.wait()
                    ctx.notes.append(f"atheris on {name} did not end by itself and was stopped")
            running.remove(item)
            try:
                with open(out) as f:
                    r = json.load(f)
            except Exception:  # noqa: BLE001
                ctx.notes.append(f"atheris on {name} left no result (rc={proc.returncode})")
                ctx.stat("atheris:no-result")
                continue
            n = int(r.get("execs", 0))
            ctx.bulk("atheris:coverage-guided", n, distinct=r.get("distinct", 0))
            ctx.mon(f"atheris-execs:{name}", n)
            ctx.stat("atheris:parsers-fuzzed")
            for v in r.get("violations", []):
                _violation(ctx, v["mechanism"], v["description"], v["case"])

    for name in names:
        if ctx.out_of_time():
            ctx.notes.append(f"atheris: budget reached before {name}")
            break
        while len(running) >= int(ctx.params.get("parallel", 6)):
            reap(False)
            time.sleep(0.5)
        out = os.path.join(td, f"{len(running)}-{abs(hash(name))}.json")
        corpus = os.path.join(td, "corpus-" + str(abs(hash(name))))
        os.makedirs(corpus, exist_ok=True)
        proc = subprocess.Popen([sys.executable, "-c", "import sys; from rv.props.c19 import _atheris_main; _atheris_main(*sys.argv[1:])", name, str(per), out, corpus,
                                 str(ctx.seed)], cwd=root, env=env, stdout=subprocess.DEVNULL, stderr=subprocess.DEVNULL)
        running.append((name, proc, out, time.time()))
    while running:
        reap(True)
    import shutil

    shutil.rmtree(td, ignore_errors=True)


def _atheris_main(name: str, seconds: str, out: str, corpus: str, seed: str) -> None:
    import atexit
    import random

    repo = os.environ.get("VERIF_REPO", "/repo")
    sys.path.insert(0, repo)
    sys.setrecursionlimit(1000)
    import atheris

    with atheris.instrument_imports(include=["btclib"]):
        import btclib  # noqa: F401
        from ..gen.hostile import RecStream, Seeds

        reg = build_registry(Seeds(random.Random(int(seed))), only=name)
    e = {x.name: x for x in reg}[name]
    from btclib.exceptions import BTClibException

    warnings.simplefilter("ignore")
    state = {"execs": 0, "violations": [], "mechs": set(), "seen": set(), "t": time.time()}
    for i, s in enumerate(e.seeds[:20]):
        with open(os.path.join(corpus, f"seed{i}"), "wb") as f:
            f.write(s if isinstance(s, bytes) else str(s).encode("utf-8", "surrogatepass"))

    def dump() -> None:
        with open(out + ".tmp", "w") as f:
            json.dump({"execs": state["execs"], "distinct": len(state["seen"]), "violations": state["violations"]}, f)
        os.replace(out + ".tmp", out)

    atexit.register(dump)
    text = e.kind == "text"
    kw = e.variants[0]

    def one(data: bytes) -> None:
        state["execs"] += 1
        if len(state["seen"]) < 2_000_000:
            state["seen"].add(hash(data))
        if text:
            arg = data.decode("utf-8", "surrogatepass") if len(data) % 5 else data.decode("utf-8", "replace")
        else:
            arg = RecStream(data) if (e.kind == "stream" and state["execs"] % 2) else bytes(data)
        try:
            e.fn(arg, **kw)
        except BTClibException:
            return
        except UnicodeDecodeError as ex:
            if text and lib_origin(ex) is None:
                return
            _ath_record(e, ex, data, state)
        except Exception as ex:  # noqa: BLE001
            _ath_record(e, ex, data, state)

    def safe(data: bytes) -> None:
        try:
            one(data)
        except UnicodeDecodeError:
            pass    # the harness's own decoding of the fuzzer's octets into text
        if state["execs"] % 256 == 0 and time.time() - state["t"] > 1.0:   # libFuzzer leaves through _exit: no atexit
            state["t"] = time.time()
            dump()

    atheris.Setup([sys.argv[0], corpus, f"-max_total_time={int(float(seconds))}", "-max_len=4096", f"-seed={int(seed) + 1}", "-rss_limit_mb=3000",
                   "-timeout=30", "-print_final_stats=0", "-verbosity=0"], safe)
    atheris.Fuzz()


def _ath_record(e: Entry, ex: BaseException, data: bytes, state: dict) -> None:
    org = lib_origin(ex)
    if org is None:
        return
    mech = f"foreign-exception:{type(ex).__name__}@{org}"
    if mech in state["mechs"]:
        return
    state["mechs"].add(mech)
    state["violations"].append({"mechanism": mech, "description": f"{e.name} [atheris] parse: {type(ex).__name__}: {str(ex)[:200]}",
                                "case": {"entry": e.name, "how": "atheris", "input": replayable(bytes(data))}})
