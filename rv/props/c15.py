"""C15 - miniscript typing, compilation, read-back and satisfaction are consistent.

Workload: type-directed random BIP379 expression trees (plus the vendored corpus and same-type
subtree mutations of it), P2WSH and tapscript, kept where the library calls them sane.  Per expression:
size identity, script read-back, text round trip; per assignment of available signatures / preimages /
nVersion-nLockTime-nSequence: if ``satisfy`` answers, the witness must be accepted by the library's
engine *and* by the Core model on a real P2WSH / tapscript spend, stay within max_witness_size /
max_stack_items / max_ops / max_exec_stack_items (executed ops and stack depth observed through a hook
on the engine, M6), and the spending condition - judged by ``rv.ref.miniscript.holds`` from the
expression alone - must be true.  "Condition true but no satisfaction" is a statistic.
"""

from __future__ import annotations

import json
import os

from ..ctx import Ctx, is_lib_exc, outcome, tb_origin
from ..hooks import Reach, rebind
from ..ref import miniscript as rm

PROPERTY = "C15"
RULE = (
    "expressions: the 97-expression Core corpus (keys/digests remapped to a signing pool), same-basic-type subtree "
    "replacements in it and in earlier sane expressions, and fresh type-directed trees (target type B/V/K/W, only the "
    "fragments BIP379 allows for it, depth 1..6 quick / larger and near-limit chains thorough), both contexts, keys from a "
    "small pool so that repeats occur; kept when the library says is_sane. Assignments per expression: key subsets (all, "
    "none, drop-one, single, random), preimage subsets (right, absent, filed under another hash, wrong size), "
    "nVersion/nLockTime/nSequence at, below and above every after()/older() incl. the other unit, the disable bit, ignored "
    "bits and a final sequence, several sighash types. Distinct = distinct (context, expression text, assignment); every "
    "case is non-trivial (the library's answer is compared with two interpreters and a semantic evaluator)."
)
ASSUMPTIONS = [
    "rv/ref/core.py is Bitcoin Core's verdict on a spend (self-tested here on script_tests.json, tx_valid.json, tx_invalid.json)",
    "rv/ref/miniscript.py: BIP379's translation table reproduces the 63 scripts of Core's fixed_tests corpus and its type "
    "table the corpus' valid/non-malleable/needs-signature/timelock-mix answers; its semantic evaluator agrees with an "
    "exhaustive witness search under the Core model on 40+ small expressions x environments (all run as self-tests)",
    "signatures offered to satisfy() are valid (reference signers over the Core model's own sighash); a preimage mapping "
    "never files wrong bytes of the right size under a digest (the documented precondition of SpendContext)",
    "no signature can be produced for a key that did not sign and no preimage for an unknown digest (what 'condition false' means)",
]

VEC = os.path.join(os.path.dirname(os.path.dirname(os.path.dirname(os.path.abspath(__file__)))), "vectors")
NUMS = bytes.fromhex("50929b74c1a04954b78b4b6035e97a5e078a5a0f28ec96d547bfee9ace803ac0")
CTXS = (rm.P2WSH, rm.TAPSCRIPT)
SHORT = {rm.P2WSH: "wsh", rm.TAPSCRIPT: "tap"}

MECH_FUNCS = [
    "btclib.descriptors.miniscript:_leaf_properties", "btclib.descriptors.miniscript:_wrapper_properties",
    "btclib.descriptors.miniscript:_and_properties", "btclib.descriptors.miniscript:_or_properties",
    "btclib.descriptors.miniscript:_andor_properties", "btclib.descriptors.miniscript:_thresh_properties",
    "btclib.descriptors.miniscript:_fragment_script", "btclib.descriptors.miniscript:_leaf_fragment_script",
    "btclib.descriptors.miniscript:_multi_fragment_script", "btclib.descriptors.miniscript:_verify_state",
    "btclib.descriptors.miniscript:_computed_script_size", "btclib.descriptors.miniscript:_computed_ops",
    "btclib.descriptors.miniscript:_computed_stack", "btclib.descriptors.miniscript:_computed_witness",
    "btclib.descriptors.miniscript:parse", "btclib.descriptors.miniscript:_read_fragment",
    "btclib.descriptors.miniscript:_read_wrappers", "btclib.descriptors.miniscript:_sugared_text",
    "btclib.descriptors.miniscript:from_script", "btclib.descriptors.miniscript:_decomposed",
    "btclib.descriptors.miniscript:_Decoder.decode", "btclib.descriptors.miniscript:Miniscript.satisfy",
    "btclib.descriptors.miniscript:_computed_input", "btclib.descriptors.miniscript:_better",
    "btclib.descriptors.miniscript:_and_input", "btclib.descriptors.miniscript:_or_input",
    "btclib.descriptors.miniscript:_andor_input", "btclib.descriptors.miniscript:_thresh_input",
    "btclib.descriptors.miniscript:_multi_input", "btclib.descriptors.miniscript:SpendContext._after",
    "btclib.descriptors.miniscript:SpendContext._older", "btclib.script.engine:verify_input",
    "btclib.script.engine.tapscript:verify_script_path_vc0",
]
NEED_REACHED = ["_fragment_script", "_computed_script_size", "_computed_ops", "_computed_stack", "_computed_witness", "parse",
                "from_script", "_Decoder.decode", "Miniscript.satisfy", "_computed_input", "_better", "_and_input", "_or_input",
                "_andor_input", "_thresh_input", "_multi_input", "SpendContext._after", "SpendContext._older", "verify_input",
                "verify_script_path_vc0"]


def legal_fragments(c: str) -> list[str]:
    return [f for f in rm.ALL_FRAGMENTS if f != ("multi_a" if c == rm.P2WSH else "multi")]


def plan(tier: str, seed: int) -> list[dict]:
    q = tier == "quick"
    specs = [{"name": "oracle-selftest", "fn": "shard_selftest", "_budget_s": 150, "_timeout_s": 900}]
    for c in CTXS:
        for i in range(6 if q else 7):
            specs.append({"name": f"expr-{SHORT[c]}-{i}", "fn": "shard_expr", "context": c, "assignments": 10 if q else 22,
                          "max_depth": 6 if q else 9, "_budget_s": 62 if q else 1150, "_timeout_s": 600 if q else 3000})
        specs.append({"name": f"typing-{SHORT[c]}", "fn": "shard_typing", "context": c, "samples": 5000 if q else 60000,
                      "_budget_s": 50 if q else 600, "_timeout_s": 600 if q else 3000})
        # near misses of the type table: every generated or replaced subtree may lack a property its parent requires
        # (s: over a non-o argument, a V where a B is asked, ...): what the library must not call sane
        specs.append({"name": f"nearmiss-{SHORT[c]}-0", "fn": "shard_expr", "context": c, "assignments": 6 if q else 12, "loose_p": 0.9,
                      "max_depth": 4 if q else 6, "_budget_s": 62 if q else 900, "_timeout_s": 600 if q else 3000})
        specs.append({"name": f"big-{SHORT[c]}", "fn": "shard_big", "context": c, "assignments": 4 if q else 10,
                      "_budget_s": 55 if q else 900, "_timeout_s": 600 if q else 3000})
    return specs


def finalize(m: dict, tier: str) -> list[str]:
    out = []
    st, mon, c, r, s = m["selftest"], m["monitors"], m["classes"], m["reached"], m["stats"]
    for name in ("script_tests.json", "miniscript_fixed_tests.json:scripts", "miniscript_fixed_tests.json:types",
                 "semantic-evaluator-vs-exhaustive-witness-search"):
        if not st.get(name):
            out.append(f"oracle self-test {name} did not run")
    for cx in CTXS:
        sh = SHORT[cx]
        for f in legal_fragments(cx):
            if not mon.get(f"satisfied-spend:{sh}:{f}"):
                out.append(f"fragment {f} never appeared in a satisfied {cx} spend")
        for k in ("size-identity", "read-back", "text-round-trip", "engine-verdict", "core-model-verdict",
                  "bound:witness-size", "bound:stack-items", "bound:exec-stack(M6)", "condition-false=>no-satisfaction"):
            if not mon.get(f"{k}:{sh}"):
                out.append(f"monitor {k} never evaluated in {cx}")
        for k in ("satisfied", "refused:condition-false", "timelock-at-boundary", "timelock-other-unit", "preimage-missing",
                  "key-missing"):
            if not c.get(f"assign:{sh}:{k}"):
                out.append(f"assignment class {k} never evaluated in {cx}")
        if not c.get(f"expr:{sh}:insane:repeated-key"):
            out.append(f"no expression with a repeated key reached the library in {cx}")
    if not mon.get("solver-entry:wsh") or not s.get("solver:answered:condition-true") or not s.get("solver:refused:condition-false"):
        out.append("the PSBT entry (descriptors.miniscript_solver) never answered and refused")
    if not mon.get("bound:ops(M6):wsh"):
        out.append("executed-op hook (M6) never evaluated on a P2WSH spend")
    if not mon.get("bound:ops(branch-free script):tap"):
        out.append("max_ops never compared with a branch-free tapscript")
    if not mon.get("bound:ops(M6):wsh:checkmultisig"):
        out.append("executed-op hook (M6) never saw an executed CHECKMULTISIG")
    for f in NEED_REACHED:
        if not r.get(f):
            out.append(f"mechanism {f} never entered")
    if not s.get("origin:corpus") or not s.get("origin:corpus-mutation") or not s.get("origin:fresh"):
        out.append("an expression source (corpus / mutation / fresh) produced no sane expression")
    return out


# =============================================================== self-tests
def shard_selftest(ctx: Ctx) -> None:
    """The oracles against published vectors and against each other; the library is not consulted."""
    from .c08 import shard_selftest as core_selftest

    core_selftest(ctx)
    _selftest_vectors(ctx)
    _selftest_semantics(ctx)
    ctx.case("selftest", "vectors", nontrivial=False)


def _selftest_vectors(ctx: Ctx) -> None:
    data = json.load(open(os.path.join(VEC, "miniscript_fixed_tests.json")))
    n_script = n_type = bad = 0
    for v in data:
        for cx, skey, inv in ((rm.P2WSH, "p2wsh_script", "p2wsh_invalid"), (rm.TAPSCRIPT, "tapscript_script", "tapscript_invalid")):
            want_valid = v["valid"] and not v[inv]
            try:
                n = rm.parse(v["miniscript"], cx)
            except rm.ParseError as e:
                if want_valid:
                    bad += 1
                    ctx.oracle_broken("miniscript_fixed_tests.json", f"reference parser refuses {v['miniscript'][:60]}: {e}")
                continue
            n_type += 1
            if n.has("B") != want_valid:
                bad += 1
                ctx.oracle_broken("miniscript_fixed_tests.json:types", f"validity of {v['miniscript'][:60]} in {cx}")
                continue
            if not want_valid:
                continue
            if v[skey]:
                n_script += 1
                if rm.script(n).hex() != v[skey]:
                    bad += 1
                    ctx.oracle_broken("miniscript_fixed_tests.json:scripts", f"{v['miniscript'][:60]} in {cx}")
            for prop, key, neg in (("m", "non_malleable", False), ("s", "needs_signature", False), ("k", "mixed_timelocks", True)):
                if ((prop in n.t) != neg) != v[key]:
                    bad += 1
                    ctx.oracle_broken("miniscript_fixed_tests.json:types", f"{key} of {v['miniscript'][:60]} in {cx}")
            for sugar in (True, False):
                t = rm.text(n, sugar)
                if rm.script(rm.parse(t, cx)) != rm.script(n):
                    bad += 1
                    ctx.oracle_broken("reference text writer/reader", t[:80])
    if not bad:
        ctx.oracle_ok("miniscript_fixed_tests.json:scripts", n_script)
        ctx.oracle_ok("miniscript_fixed_tests.json:types", n_type)
    # the two lock-time rules against the Core model's own transcription
    from ..ref import core as cm

    n = 0
    vals = [1, 2, 100, 65535, 65536, (1 << 22) | 1, (1 << 22) | 100, (1 << 22) | 65535, 499999999, 500000000, 500000001, 2**31 - 1]
    seqs = [0, 1, 2, 99, 100, 101, 65535, 65536 + 100, (1 << 22), (1 << 22) | 100, (1 << 22) | 99, (1 << 31) | 100, 0xFFFFFFFF,
            0xFFFFFFFE, (1 << 30) | 100, (1 << 22) | (1 << 25) | 101]
    locks = [0, 1, 99, 100, 101, 499999999, 500000000, 500000001, 500000100, 0xFFFFFFFF, 2**31 - 1]
    for ver in (0, 1, 2, 3, 0xFFFFFFFF):
        for seq in seqs:
            for lock in locks:
                tx = cm.Tx(ver, [cm.TxIn(bytes(32), 0, b"", seq)], [], lock)
                ck = cm.Checker(tx, 0, 0)
                env = rm.Env(frozenset(), frozenset(), ver, lock, seq)
                for v in vals:
                    n += 2
                    if rm.after_met(v, env) != ck.check_lock_time(v) or rm.older_met(v, env) != ck.check_sequence(v):
                        ctx.oracle_broken("timelock rules (BIP65/BIP112 text vs Core transcription)", f"{v} {ver} {lock} {seq}")
                        return
    ctx.oracle_ok("timelock-rules-vs-core-model", n)


# (context, expression with %(A)s %(B)s keys and %(H)s digests, longest witness searched)
_SEM_EXPRS = [
    (0, "pk(%(A)s)", 1), (0, "pkh(%(A)s)", 2), (0, "c:pk_k(%(A)s)", 1),
    (0, "and_v(v:pk(%(A)s),pk(%(B)s))", 2), (0, "and_b(pk(%(A)s),s:pk(%(B)s))", 2), (0, "and_b(pk(%(A)s),a:pk(%(B)s))", 2),
    (0, "or_b(pk(%(A)s),s:pk(%(B)s))", 2), (0, "t:or_c(pk(%(A)s),v:pk(%(B)s))", 2), (0, "or_d(pk(%(A)s),pk(%(B)s))", 2),
    (0, "or_i(pk(%(A)s),pk(%(B)s))", 2), (0, "c:or_i(pk_k(%(A)s),pk_h(%(B)s))", 3),
    (0, "andor(pk(%(A)s),pk(%(B)s),sha256(%(S)s))", 2), (0, "andor(pk(%(A)s),older(10),after(100))", 1),
    (0, "thresh(2,pk(%(A)s),s:pk(%(B)s),a:sha256(%(S)s))", 3), (0, "thresh(1,pk(%(A)s),s:pk(%(B)s))", 2),
    (0, "thresh(2,pk(%(A)s),s:pk(%(B)s))", 2), (0, "multi(1,%(A)s,%(B)s)", 2), (0, "multi(2,%(A)s,%(B)s)", 3),
    (0, "and_v(v:multi(1,%(A)s,%(B)s),older(10))", 2),
    (0, "and_v(v:pk(%(A)s),after(100))", 1), (0, "and_v(v:pk(%(A)s),older(10))", 1), (0, "and_v(v:older(4194314),pk(%(A)s))", 1),
    (0, "and_v(v:after(500000100),pk(%(A)s))", 1), (0, "j:and_v(v:pk(%(A)s),1)", 1), (0, "and_b(pk(%(A)s),adv:older(10))", 2),
    (0, "and_v(v:pk(%(A)s),n:older(10))", 1), (0, "and_v(v:pk(%(A)s),sha256(%(S)s))", 2), (0, "and_v(v:pk(%(A)s),hash256(%(D)s))", 2),
    (0, "and_v(v:pk(%(A)s),ripemd160(%(R)s))", 2), (0, "and_v(v:pk(%(A)s),hash160(%(H)s))", 2), (0, "l:pk(%(A)s)", 2),
    (0, "u:pk(%(A)s)", 2), (0, "or_d(pk(%(A)s),and_v(v:pk(%(B)s),older(10)))", 2), (0, "and_v(v:pk(%(A)s),or_i(0,after(100)))", 2),
    (0, "and_n(pk(%(A)s),pk(%(B)s))", 2), (0, "or_b(pk(%(A)s),a:pkh(%(B)s))", 3),
    (1, "pk(%(A)s)", 1), (1, "pkh(%(A)s)", 2), (1, "multi_a(1,%(A)s,%(B)s)", 2), (1, "multi_a(2,%(A)s,%(B)s)", 2),
    (1, "and_v(v:pk(%(A)s),older(10))", 1), (1, "or_d(pk(%(A)s),pkh(%(B)s))", 3), (1, "thresh(1,pk(%(A)s),s:pk(%(B)s))", 2),
    (1, "and_v(v:multi_a(1,%(A)s,%(B)s),after(100))", 2), (1, "and_b(pk(%(A)s),adv:older(10))", 2),
    (1, "or_i(and_v(v:pk(%(A)s),sha256(%(S)s)),pk(%(B)s))", 3), (1, "t:or_c(pk(%(A)s),v:pk(%(B)s))", 2),
]


def _selftest_semantics(ctx: Ctx) -> None:
    """holds() <=> some witness over the relevant element alphabet is accepted by the Core model (all standard flags)."""
    import functools
    import itertools

    from ..ref import core as cm
    from ..ref import signers as sg

    cm.ecdsa_verify = functools.lru_cache(maxsize=None)(cm.ecdsa_verify)      # pure functions: memoised for the search
    cm.schnorr_verify = functools.lru_cache(maxsize=None)(cm.schnorr_verify)
    pool = sg.KeyPool(2, 4, b"c15-selftest")
    spool = sg.SchnorrPool(pool)
    pubs = [sg.pub_compressed(Q) for _, Q in pool.keys]
    pre = rm.h_sha256(b"c15 selftest preimage")
    subst = {"A": pubs[0].hex(), "B": pubs[1].hex(), "S": rm.h_sha256(pre).hex(), "D": rm.h_hash256(pre).hex(),
             "R": rm.h_ripemd160(pre).hex(), "H": rm.h_hash160(pre).hex()}
    n_env = n_runs = 0
    for ci, tmpl, maxlen in _SEM_EXPRS:
        if ctx.out_of_time():
            ctx.notes.append("semantic self-test: budget reached")
            break
        cx = CTXS[ci]
        node = rm.parse(tmpl % subst, cx)
        if not node.has("B"):       # the evaluator speaks about well-typed expressions only
            ctx.oracle_broken("semantic self-test template is ill-typed", tmpl)
            return
        script = rm.script(node)
        spk, tail, leaf = _output_for(cx, script, 0, None)
        frs = {x.frag for x in rm.walk(node)}
        has_hash = bool(frs & set(rm.HASHES))
        txs = [(2, 0, 0xFFFFFFFF)]
        if "after" in frs or "older" in frs:
            txs = [(2, 0, 0xFFFFFFFF), (2, 100, 10), (2, 500000100, (1 << 22) | 10), (1, 100, 10), (2, 99, 9), (2, 100, 0xFFFFFFFF)]
        for ver, lock, seq in txs:
            tx = cm.Tx(ver, [cm.TxIn(b"\x07" * 32, 1, b"", seq, [])], [cm.TxOut(900, b"\x51")], lock)
            spent = [cm.TxOut(1000, spk)]
            sigs = []
            for i in range(2):
                if cx == rm.P2WSH:
                    h = cm.segwit_sighash(script, tx, 0, 1, 1000)
                    sigs.append(sg.der(*sg.ecdsa_sign(pool, pool.keys[i][0], h, i)) + b"\x01")
                else:
                    h = cm.taproot_sighash(tx, 0, spent, 0, cm.TAPSCRIPT, cm.ExecData(tapleaf_hash=leaf))
                    d, px = spool.items[i]
                    sigs.append(spool.sign(d, px, h, i))
            pkh_keys = [k for x in rm.walk(node) if x.frag == "pk_h" for k in x.keys]
            for signed in ((), (0,), (1,), (0, 1)):
                if any(pubs[i] not in rm.all_keys(node) for i in signed):
                    continue
                for known in ((False, True) if has_hash else (False,)):
                    env = rm.Env(frozenset(pubs[i] for i in signed), frozenset(
                        (f, rm.HASH_FN[f](pre)) for f in rm.HASHES) if known else frozenset(), ver, lock, seq)
                    alphabet = [b"", b"\x01"] + [sigs[i] for i in signed]
                    alphabet += [k[1:] if cx == rm.TAPSCRIPT else k for k in pkh_keys]
                    if has_hash:
                        alphabet += [bytes(32)] + ([pre] if known else [])
                    found = False
                    for ln in range(maxlen + 1):
                        for w in itertools.product(alphabet, repeat=ln):
                            tx.vin[0].witness = list(w) + tail
                            n_runs += 1
                            if cm.run(b"", spk, tx.vin[0].witness, cm.ALL_FLAGS, cm.Checker(tx, 0, 1000, spent)) == "OK":
                                found = True
                                break
                        if found:
                            break
                    n_env += 1
                    if found != rm.holds(node, env):
                        ctx.oracle_broken("semantic evaluator vs exhaustive witness search",
                                          f"{tmpl} in {cx}: holds={not found} but search says {found}; signed={signed} "
                                          f"preimage={known} tx={(ver, lock, seq)}")
                        return
    ctx.oracle_ok("semantic-evaluator-vs-exhaustive-witness-search", n_env)
    ctx.stat("selftest:witnesses-searched", n_runs)


# ================================================================== world
def _output_for(cx: str, script: bytes, depth: int, rng):
    """(scriptPubKey, witness tail, tapleaf hash) of an output that commits to ``script``."""
    from ..ref import core as cm
    from ..ref import signers as sg

    if cx == rm.P2WSH:
        return b"\x00\x20" + cm.sha256(script), [script], b""
    leaf = cm.tapleaf_hash(0xC0, script)
    k, path = leaf, b""
    for _ in range(depth):
        e = bytes(rng.randrange(256) for _ in range(32))
        path += e
        k = cm.tagged_hash(b"TapBranch", k + e) if k < e else cm.tagged_hash(b"TapBranch", e + k)
    qx, parity, _ = sg.taproot_tweak(NUMS, k)
    return b"\x51\x20" + qx, [script, bytes([0xC0 | parity]) + NUMS + path], leaf


class World:
    """Key / preimage pools, the library's names, the bridge from a reference tree to a library node."""

    def __init__(self, ctx: Ctx, cx: str, n_keys: int = 14):
        from btclib.descriptors import miniscript as lm
        from btclib.descriptors.key_expression import KeyExpression

        from ..ref import core as cm
        from ..ref import signers as sg
        from .c08 import Lib

        self.ctx, self.cx, self.rng, self.lm, self.cm, self.sg = ctx, cx, ctx.rng, lm, cm, sg
        self.sh = SHORT[cx]
        self.tap = cx == rm.TAPSCRIPT
        self.pool = sg.KeyPool(n_keys, 6, b"c15")
        self.spool = sg.SchnorrPool(self.pool)
        pubs = [sg.pub_compressed(Q) for _, Q in self.pool.keys]
        # the key as the expression holds it: under tapscript every other key is written x-only (its even-y lift)
        self.ekeys = [(b"\x02" + p[1:]) if self.tap and i % 2 == 0 else p for i, p in enumerate(pubs)]
        self.kidx = {k: i for i, k in enumerate(self.ekeys)}
        self.xonly_text = frozenset(k for i, k in enumerate(self.ekeys) if self.tap and i % 2 == 0)
        self.kexpr = {k: KeyExpression(pub_key=k, x_only=k in self.xonly_text) for k in self.ekeys}
        self.script_key = {k: (k[1:] if self.tap else k) for k in self.ekeys}
        self.key_hashes = {rm.h_hash160(v): v for v in self.script_key.values()}
        self.pre = [rm.h_sha256(b"c15 preimage %d" % i) for i in range(5)]
        self.digests = {(f, rm.HASH_FN[f](p)): p for f in rm.HASHES for p in self.pre}
        self.lib = Lib()
        self.meter = Meter()
        self.meter.install()

    def to_lib(self, root: rm.Node):
        M, cx = self.lm.Miniscript, self.cx
        return rm.fold(root, lambda n, subs: M(n.frag, cx, tuple(subs), tuple(self.kexpr[k] for k in n.keys), n.k, n.data))

    def text(self, root: rm.Node, sugar: bool = True) -> str:
        return rm.text(root, sugar, self.xonly_text)


class Meter:
    """M6: executed-op count and stack depth of the library's interpreter, per run."""

    def __init__(self):
        self.ops = self.depth = self.n_ops = self.n_depth = 0

    def reset(self):
        self.ops = self.depth = 0

    def install(self) -> None:
        from btclib.script.engine import script as es
        from btclib.script.engine import script_op_codes as soc

        o1, o2 = es.script_op_count, soc.assert_stack_size

        def count(c, inc):
            r = o1(c, inc)
            self.n_ops += 1
            if r > self.ops:
                self.ops = r
            return r

        def depth(stack, altstack):
            self.n_depth += 1
            d = len(stack) + len(altstack)
            if d > self.depth:
                self.depth = d
            return o2(stack, altstack)

        self.bound = (rebind(o1, count), rebind(o2, depth))


def lib_equal(a, b) -> bool:
    """Structural equality of two library nodes without recursion (a deep tree must not cost a RecursionError)."""
    todo = [(a, b)]
    while todo:
        x, y = todo.pop()
        if (x.fragment, x.context, x.keys, x.threshold, x.data, len(x.subs)) != (y.fragment, y.context, y.keys, y.threshold,
                                                                                y.data, len(y.subs)):
            return False
        todo.extend(zip(x.subs, y.subs))
    return True


# ============================================================== generator
class ExprGen:
    """Type-directed trees: pick the basic type wanted, then only among the rows of BIP379's table that produce it."""

    OLDER = [1, 2, 10, 16, 17, 144, 1000, 65535, (1 << 22) | 1, (1 << 22) | 16, (1 << 22) | 144, (1 << 22) | 65535, 65536 + 7,
             (1 << 22) | (1 << 20) | 5, 2**31 - 1, 128, 255, 256, 32768]
    AFTER = [1, 16, 17, 100, 127, 128, 255, 256, 32767, 32768, 500000, 499999999, 500000000, 500000001, 1231488000, 1567547623,
             2**31 - 1, 8388608]

    def __init__(self, w: World, loose_p: float = 0.08, dup_p: float = 0.02, max_multi: int = 4):
        self.w, self.rng, self.cx = w, w.rng, w.cx
        self.loose_p, self.dup_p, self.max_multi = loose_p, dup_p, max_multi
        self.used: list = []
        self.loose = False

    def N(self, frag, subs=(), **kw) -> rm.Node:
        return rm.Node(frag, self.cx, tuple(subs), **kw)

    # -------------------------------------------------------------- leaves
    def key(self) -> bytes:
        unused = [k for k in self.w.ekeys if k not in self.used]
        if self.used and (not unused or self.rng.random() < self.dup_p):
            k = self.rng.choice(self.used)
        else:
            k = self.rng.choice(unused)
        self.used.append(k)
        return k

    def pk(self, h=None) -> rm.Node:
        h = self.rng.random() < 0.33 if h is None else h
        return self.N("c:", [self.N("pk_h" if h else "pk_k", keys=(self.key(),))])

    def multi(self) -> rm.Node:
        r = self.rng
        n = r.choice([1, 2, 2, 3, 3, 4][: self.max_multi + 2]) if r.random() < 0.92 else r.randrange(1, min(20, len(self.w.ekeys)) + 1)
        n = min(n, len(self.w.ekeys))
        return self.N("multi_a" if self.w.tap else "multi", keys=tuple(self.key() for _ in range(n)), k=r.randrange(1, n + 1))

    def hashf(self) -> rm.Node:
        f = self.rng.choice(rm.HASHES)
        return self.N(f, data=rm.HASH_FN[f](self.rng.choice(self.w.pre)))

    def lock(self) -> rm.Node:
        r = self.rng
        if r.random() < 0.5:
            return self.N("older", k=r.choice(self.OLDER) if r.random() < 0.8 else r.choice([r.randrange(1, 65536), (1 << 22) | r.randrange(1, 65536)]))
        return self.N("after", k=r.choice(self.AFTER) if r.random() < 0.8 else r.choice([r.randrange(1, 500000000), r.randrange(500000000, 2**31)]))

    def leaf(self, basic: str, need: str) -> rm.Node:
        r = self.rng
        if basic == "K":
            return self.N("pk_h" if r.random() < 0.4 else "pk_k", keys=(self.key(),))
        if basic == "V":
            if "z" in need:
                return self.N("v:", [self.lock() if r.random() < 0.93 else self.N("1")])
            return self.N("v:", [self.leaf("B", "")])
        if basic == "W":
            b = self.leaf("B", need.replace("z", ""))
            return self.N("s:" if "o" in b.t and r.random() < 0.5 else "a:", [b])
        # B
        if "z" in need:
            return self.lock() if "d" not in need else self.N("0")
        if len(self.used) + 1 >= len(self.w.ekeys):      # the pool is used up: a hash has d, u, o and n as well
            return self.hashf() if need.strip("mskf") or r.random() < 0.5 else self.lock()
        k = r.random()
        if need.strip("mskf") or k < 0.46:          # d, u, o, n wanted: a key check has them all (pk_h lacks o)
            if "o" in need:
                return self.pk(False) if k < 0.75 else self.hashf()
            if k < 0.46:
                return self.pk()
            return self.multi() if k < 0.7 else self.hashf() if k < 0.93 else self.pk()
        if k < 0.60:
            return self.multi()
        if k < 0.76:
            return self.hashf()
        if k < 0.95:
            return self.lock()
        return self.N("1" if k < 0.975 else "0")

    # ------------------------------------------------------------ composites
    def gen(self, basic: str, need: str, depth: int) -> rm.Node:
        want = basic + need
        for _ in range(6):
            n = self._try(basic, need, depth)
            if n is not None and (n.has(want) or (self.loose and (n.basic == basic or self.rng.random() < 0.4))):
                return n          # loose: the requirement (or even the type) is left for the library to refuse
        for _ in range(4):
            n = self.leaf(basic, need)
            if n.has(want):
                return n
        return self.leaf(basic, need)

    def _try(self, basic: str, need: str, depth: int):
        r, N, g = self.rng, self.N, self.gen
        if depth <= 0 or r.random() < 0.1 or len(self.used) + 2 >= len(self.w.ekeys):
            return self.leaf(basic, need)
        d = lambda: depth - r.choice([1, 1, 1, 2])  # noqa: E731
        du = "".join(c for c in need if c in "du")
        u = "u" if "u" in need else ""
        if basic == "K":
            p = r.choices(["leaf", "and_v", "or_i", "andor"], [5, 3, 3, 2])[0]
            if p == "leaf" or "d" in need and p == "and_v":
                return self.leaf("K", need)
            if p == "and_v":
                return N("and_v", [g("V", "", d()), g("K", u, d())])
            if p == "or_i":
                a, b = g("K", du, d()), g("K", u, d())
                return N("or_i", [a, b] if r.random() < 0.5 else [b, a])
            return N("andor", [g("B", "du", d()), g("K", u, d()), g("K", du, d())])
        if basic == "V":
            p = r.choices(["v:", "and_v", "or_c", "or_i", "andor"], [8, 4, 4, 2, 2])[0]
            z = "z" if "z" in need else ""
            if p == "v:" or (z and p in ("or_i",)):
                return N("v:", [g("B", z, d())])
            if p == "and_v":
                return N("and_v", [g("V", z, d()), g("V", z, d())])
            if p == "or_c":
                return N("or_c", [g("B", "du" + z, d()), g("V", z, d())])
            if p == "or_i":
                return N("or_i", [g("V", "", d()), g("V", "", d())])
            return N("andor", [g("B", "du" + z, d()), g("V", z, d()), g("V", z, d())])
        if basic == "W":
            if r.random() < 0.5:
                b = g("B", du + "o", d())
                if "o" in b.t or self.loose:      # loose: the library is asked about an s: over a two-element argument
                    return N("s:", [b])
                return N("a:", [b])
            return N("a:", [g("B", du, d())])
        # B
        names = ["leaf", "c:", "d:", "j:", "n:", "and_v", "and_b", "or_b", "or_d", "or_i", "andor", "thresh", "t:", "l:", "u:", "and_n"]
        wts = [4, 5, 4, 4, 3, 9, 7, 6, 7, 7, 6, 8, 2, 2, 2, 3]
        if "d" in need:
            for nm in ("and_v", "t:"):
                wts[names.index(nm)] = 0
        if "d" in need and "u" in need and not self.w.tap:
            wts[names.index("d:")] = 0
        if "z" in need or "o" in need or "n" in need:
            if r.random() < 0.5:
                return self.leaf("B", need)
        p = r.choices(names, wts)[0]
        if p == "leaf":
            return self.leaf("B", need)
        if p == "c:":
            return N("c:", [g("K", du, d())])
        if p == "d:":
            return N("d:", [g("V", "z", d())])
        if p == "j:":
            return N("j:", [g("B", "n" + u, d())])
        if p == "n:":
            return N("n:", [g("B", du.replace("u", ""), d())])
        if p == "and_v":
            return N("and_v", [g("V", "", d()), g("B", u, d())])
        if p == "and_b":
            return N("and_b", [g("B", du.replace("u", ""), d()), g("W", du.replace("u", ""), d())])
        if p == "or_b":
            return N("or_b", [g("B", "d", d()), g("W", "d", d())])
        if p == "or_d":
            return N("or_d", [g("B", "du", d()), g("B", du, d())])
        if p == "or_i":
            a, b = g("B", du, d()), g("B", u, d())
            return N("or_i", [a, b] if r.random() < 0.5 else [b, a])
        if p == "andor":
            return N("andor", [g("B", "du", d()), g("B", u, d()), g("B", du, d())])
        if p == "thresh":
            n = r.choice([1, 2, 2, 3, 3, 3, 4, 5])
            subs = [g("B", "du", d())] + [g("W", "du", d()) for _ in range(n - 1)]
            return N("thresh", subs, k=r.randrange(1, n + 1))
        if p == "t:":
            return N("and_v", [g("V", "", d()), N("1")])
        if p == "l:":
            return N("or_i", [N("0"), g("B", u, d())])
        if p == "and_n":
            return N("andor", [g("B", "du", d()), g("B", u, d()), N("0")])
        return N("or_i", [g("B", u, d()), N("0")])

    def fresh(self, depth: int) -> rm.Node:
        self.used = []
        self.loose = self.rng.random() < self.loose_p
        root = self.gen("B", "", depth)
        return self.signed(root)

    def signed(self, root: rm.Node) -> rm.Node:
        """An expression nobody needs to sign is not sane: put a key check in front of it (most of the time)."""
        if root.has("B") and "s" not in root.t and self.rng.random() < 0.85:
            v = self.N("v:", [self.pk()])
            root = self.N("and_v", [v, root]) if self.rng.random() < 0.7 else self.N("and_b", [self.pk(), self.N("a:", [root])])
        return root

    # -------------------------------------------------------------- mutation
    def mutate(self, root: rm.Node) -> rm.Node:
        """Replace one subtree by a generated one of the same basic type (and the same d/u/z/o/n where that holds)."""
        r = self.rng
        self.loose = r.random() < self.loose_p
        for _ in range(5):
            # pick a node by walking down at random
            path, node = [], root
            while node.subs and r.random() < 0.75:
                i = r.randrange(len(node.subs))
                path.append((node, i))
                node = node.subs[i]
            if not node.basic:
                continue
            self.used = [k for k in rm.all_keys(root)]
            for k in rm.all_keys(node):
                if k in self.used:
                    self.used.remove(k)
            need = "".join(c for c in "duzon" if c in node.t) if r.random() < 0.6 else "".join(c for c in "du" if c in node.t)
            new = self.gen(node.basic, need, r.choice([0, 1, 1, 2, 2, 3]))
            for parent, i in reversed(path):
                subs = list(parent.subs)
                subs[i] = new
                kw = {"keys": parent.keys, "k": parent.k, "data": parent.data}
                if parent.frag == "thresh" and r.random() < 0.2:
                    kw["k"] = r.randrange(1, len(subs) + 1)
                new = rm.Node(parent.frag, self.cx, tuple(subs), **kw)
            if new.has("B") or self.loose:
                return self.signed(new)
        return root


def load_corpus(w: World) -> list:
    """The vendored corpus in this context, its keys and digests replaced by the pool's (same repetition pattern)."""
    out = []
    for v in json.load(open(os.path.join(VEC, "miniscript_fixed_tests.json"))):
        try:
            n = rm.parse(v["miniscript"], w.cx)
        except rm.ParseError:
            continue
        if not n.has("B"):
            continue
        kmap: dict = {}
        hmap: dict = {}

        def f(x, subs):
            keys = []
            for k in x.keys:
                if k not in kmap:
                    kmap[k] = w.ekeys[len(kmap) % len(w.ekeys)]
                keys.append(kmap[k])
            data = x.data
            if x.frag in rm.HASHES:
                if data not in hmap:
                    hmap[data] = w.pre[len(hmap) % len(w.pre)]
                data = rm.HASH_FN[x.frag](hmap[data])
            return rm.Node(x.frag, w.cx, tuple(subs), tuple(keys), x.k, data)

        m = rm.fold(n, f)
        if m.has("B"):
            out.append(m)
    return out


# ============================================================ the monitors
def insane_reason(ln) -> str:
    if not ln.is_valid_top_level:
        return "not-a-valid-B"
    if not ln.is_non_malleable:
        return "malleable"
    if not ln.is_signature_required:
        return "no-signature-needed"
    if ln.mixes_timelocks:
        return "timelock-mix"
    if ln.has_duplicate_keys:
        return "repeated-key"
    if not ln.is_within_resource_limits:
        return "resource-limits"
    return "subexpression"


class ExprChecker:
    """Everything done with one expression."""

    def __init__(self, w: World, n_assign: int):
        self.w, self.ctx, self.rng, self.n_assign = w, w.ctx, w.rng, n_assign
        self.seen: set = set()
        self.sane: list = []

    # ---------------------------------------------------------- expression
    def expression(self, root: rm.Node, origin: str) -> bool:
        w, ctx, sh = self.w, self.ctx, self.w.sh
        txt = w.text(root)
        if txt in self.seen:
            ctx.stat("expr:repeat")
            return False
        self.seen.add(txt)
        o = outcome(w.to_lib, root)
        if o[0] == "raise":
            if not is_lib_exc(o[1]):
                ctx.violation(f"constructor-foreign-exception:{type(o[1]).__name__}@{tb_origin(o[1])}",
                              f"Miniscript(...) of {txt[:200]} raised {o[1]!r}", {"context": w.cx, "expression": txt})
            ctx.case(f"expr:{sh}:refused-by-constructor", txt)
            return False
        ln = o[1]
        sane = bool(ln.is_sane)
        ref_sane = rm.sane_guess(root)
        ctx.stat(f"sanity:lib={'sane' if sane else 'insane'}/bip379-table={'sane' if ref_sane else 'insane'}")
        if sane and not ref_sane:
            # the library's sanity is BIP379's less nothing (it adds the resource limits): an expression the table
            # refuses and the library calls sane is a typing rule given away; what follows below then shows the price
            why = ("no-type" if not root.t else "not-B" if not root.has("B") else "malleable" if not root.has("m") else
                   "no-signature" if not root.has("s") else "timelock-mix" if not root.has("k") else "repeated-key")
            ctx.violation(f"sane-although-bip379-table-refuses:{why}",
                          f"is_sane is True for {txt[:300]}, which BIP379's type table refuses ({why})", {"context": w.cx, "expression": txt, "origin": origin})
        if not sane:
            ctx.case(f"expr:{sh}:insane:{insane_reason(ln)}", txt, nontrivial=False)
            return False
        ctx.case(f"expr:{sh}:sane", txt, sample={"context": w.cx, "expression": txt, "origin": origin})
        ctx.stat(f"origin:{origin}")
        desc = {"context": w.cx, "expression": txt, "origin": origin}

        # --- size identity
        o = outcome(ln.script)
        if o[0] == "raise":
            mech = "script-refused-for-sane-expression" if is_lib_exc(o[1]) else f"script-foreign-exception:{type(o[1]).__name__}@{tb_origin(o[1])}"
            ctx.violation(mech, f"script() of a sane expression raised {o[1]!r}", desc)
            return False
        script = o[1]
        ctx.mon(f"size-identity:{sh}")
        if len(script) != ln.script_size:
            ctx.violation("script-size-differs-from-script_size",
                          f"len(script()) = {len(script)} but script_size = {ln.script_size}", {**desc, "script": script})
        if script != rm.script(root):
            ctx.stat("script-differs-from-bip379-table")      # not stated by the property: reported, not judged
            ctx.notes.append(f"script differs from BIP379's table: {txt[:160]}")
        # --- read-back
        ctx.mon(f"read-back:{sh}")
        o = outcome(w.lm.from_script, script, w.cx, w.key_hashes)
        if o[0] == "raise":
            mech = "read-back-refuses-own-script" if is_lib_exc(o[1]) else f"read-back-foreign-exception:{type(o[1]).__name__}@{tb_origin(o[1])}"
            ctx.violation(mech, f"from_script(script()) raised {o[1]!r}"[:500], {**desc, "script": script})
        else:
            o2 = outcome(o[1].script)
            if o2[0] == "raise" or o2[1] != script:
                ctx.violation("read-back-compiles-to-another-script",
                              f"from_script(script()).script() gives {o2[1]!r:.200}", {**desc, "script": script, "read_back": str(o[1])[:400]})
            elif not lib_equal(o[1], ln):
                ctx.stat("read-back:same-script-other-expression")
        # --- text round trip
        ctx.mon(f"text-round-trip:{sh}")
        o = outcome(str, ln)
        if o[0] == "raise":
            ctx.violation(f"str-raises:{type(o[1]).__name__}", f"str(node) raised {o[1]!r}", desc)
        else:
            o2 = outcome(w.lm.parse, o[1], w.cx)
            if o2[0] == "raise":
                mech = "text-form-refused-by-parse" if is_lib_exc(o2[1]) else f"parse-foreign-exception:{type(o2[1]).__name__}@{tb_origin(o2[1])}"
                ctx.violation(mech, f"parse(str(node)) raised {o2[1]!r}"[:500], {**desc, "text": o[1][:600]})
            elif not lib_equal(o2[1], ln):
                ctx.violation("text-form-parses-to-another-expression", f"parse(str(node)) != node; str = {o[1][:300]}",
                              {**desc, "text": o[1][:600], "reparsed": str(o2[1])[:600]})
        for sugar in (True, False):                # the BIP's own spellings, written by the reference: statistics only
            o2 = outcome(w.lm.parse, w.text(root, sugar), w.cx)
            if o2[0] == "raise" or not lib_equal(o2[1], ln):
                ctx.stat(f"bip379-spelling-not-read-as-the-node:{'sugared' if sugar else 'plain'}")
        self.sane.append(root)
        self.assignments(root, ln, script, desc)
        return True

    # --------------------------------------------------------- assignments
    def _tx_variants(self, olders: list, afters: list, count: int) -> list:
        r = self.rng
        out = []

        def seq_for(n, how):
            low = n & 0xFFFF
            if how == "at":
                return n
            if how == "above":
                return (n & ~0xFFFF) | min(0xFFFF, low + r.choice([1, 1, 100]))
            if how == "max":
                return (n & (1 << 22)) | 0xFFFF
            if how == "below":
                return (n & ~0xFFFF) | (low - 1) if low else n
            if how == "other-unit":
                return (n ^ (1 << 22)) | 0xFFFF
            if how == "disabled":
                return n | (1 << 31)
            return (n & ((1 << 22) | 0xFFFF)) | (1 << 16) | (1 << 25) | (1 << 30)        # ignored bits set

        def lock_for(n, how):
            if how == "at":
                return n
            if how == "above":
                return min(0xFFFFFFFF, n + r.choice([1, 1, 1000])) if n != 499999999 else n
            if how == "max":
                return 499999999 if n < 500000000 else 0xFFFFFFFF
            if how == "below":
                return n - 1
            return n + 500000000 if n < 500000000 else n - 500000000                  # other unit

        # 1. as open as one transaction can be: the dominant unit of each kind, at its maximum
        seq_open = 0xFFFFFFFE
        if olders:
            unit = r.choice(olders) & (1 << 22)
            seq_open = unit | 0xFFFF
        lock_open = 0
        if afters:
            lock_open = 0xFFFFFFFF if r.choice(afters) >= 500000000 else 499999999
        out.append((2, lock_open, seq_open, "open"))
        if olders and afters:      # and the other unit of both
            out.append((2, 499999999 if lock_open == 0xFFFFFFFF else 0xFFFFFFFF, seq_open ^ (1 << 22), "open-other-units"))
        # 2. nothing met
        out.append((r.choice([1, 2]), 0, 0xFFFFFFFF, "closed"))
        # 3. boundaries of single locks
        while len(out) < count:
            ver = r.choices([2, 1, 3, 0xFFFFFFFF, 0], [82, 8, 5, 3, 2])[0]
            lock, seq, tag = lock_open, seq_open, "random"
            k = r.random()
            if olders and (k < 0.45 or not afters):
                n = r.choice(olders)
                how = r.choice(["at", "at", "above", "below", "below", "other-unit", "disabled", "ignored-bits", "max"])
                seq = seq_for(n, how)
                tag = "older:" + how
            elif afters:
                n = r.choice(afters)
                how = r.choice(["at", "at", "above", "below", "below", "other-unit", "max", "final"])
                if how == "final":
                    lock, seq = lock_for(n, "at"), 0xFFFFFFFF
                else:
                    lock = lock_for(n, how)
                    if r.random() < 0.3 and olders:
                        seq = seq_for(r.choice(olders), r.choice(["at", "above", "below"]))
                tag = "after:" + how
            else:
                lock, seq = r.choice([0, 1, 500000000]), r.choice([0, 0xFFFFFFFE, 0xFFFFFFFF, 5])
            out.append((ver, lock, seq, tag))
        return out

    def _psbt_solver(self, root, env, truth, tx, spent, spk, amount, script, sigs, maps, tail, case, sh, ttag) -> None:
        """The PSBT entry, ``descriptors.miniscript_solver``: what it answers is judged like what ``satisfy`` answers."""
        from btclib.descriptors.descriptors import miniscript_solver

        from ..gen.spends import Case

        w, ctx, cm = self.w, self.w.ctx, self.w.cm
        po = outcome(_solver_psbt, tx, spent, script, sigs, maps)
        if po[0] == "raise":
            ctx.stat(f"solver:psbt-not-built:{type(po[1]).__name__}")
            return
        psbt = po[1]
        if (psbt.tx.version, psbt.tx.lock_time, psbt.tx.vin[0].sequence) != (env.version, env.locktime, env.sequence):
            ctx.stat("solver:transaction-read-differently")     # e.g. a version the library reads as signed
            return
        so = outcome(miniscript_solver, psbt, 0)
        ctx.mon(f"solver-entry:{sh}")
        scase = {**case, "entry": "descriptors.miniscript_solver"}
        if so[0] == "raise":
            if not is_lib_exc(so[1]):
                ctx.violation(f"satisfy-foreign-exception:{type(so[1]).__name__}@{tb_origin(so[1])}", f"miniscript_solver raised {so[1]!r}"[:500], scase)
            ctx.stat("solver:refused:condition-" + ("true" if truth else "false"))
            return
        if so[1] is None:
            ctx.stat("solver:not-its-business")     # a pk_h() whose key the input does not name, a script it does not read back
            return
        wit = [bytes(x) for x in so[1][1].stack]
        scase["witness"] = wit
        ctx.stat("solver:answered:condition-" + ("true" if truth else "false"))
        if bytes(so[1][0]) != b"" or not wit or wit[-1] != script:
            ctx.violation("solver-answer-malformed", f"script_sig {bytes(so[1][0]).hex()}, last witness element is "
                          f"{'the script' if wit and wit[-1] == script else 'not the script'}", scase)
            return
        if not truth:
            what = _why_false(root, env)
            ctx.violation(f"satisfaction-although-condition-false:{what}",
                          f"miniscript_solver answered a witness of {len(wit)} elements although the spending condition is false "
                          f"({what}): {case['expression'][:200]}", scase)
        tx.vin[0].witness = wit
        c = Case(f"miniscript-solver:{sh}", tx, spent, 0, cm.ALL_FLAGS, {})
        lo = w.lib.run(c)
        model = cm.run(b"", spk, list(tx.vin[0].witness), cm.ALL_FLAGS, cm.Checker(tx, 0, amount, spent))
        tx.vin[0].witness = []
        ctx.mon(f"engine-verdict:{sh}")
        ctx.mon(f"core-model-verdict:{sh}")
        if lo[0] == "raise" and not is_lib_exc(lo[1]):
            ctx.violation(f"engine-foreign-exception:{type(lo[1]).__name__}@{tb_origin(lo[1])}", f"verify_input raised {lo[1]!r}", scase)
        elif lo[0] == "raise" or model != "OK":
            who = "engine-and-core-model" if lo[0] == "raise" and model != "OK" else "engine-only" if lo[0] == "raise" else "core-model-only"
            ctx.violation(f"satisfaction-rejected:{who}:{model if model != 'OK' else 'core-accepts'}:{_blame(root, wit[:-1], ttag)}",
                          f"the witness miniscript_solver produced is refused ({who}; Core model: {model}) for {case['expression'][:160]}", scase)
        else:
            ctx.stat("solver:satisfied-and-accepted-by-both")

    def assignments(self, root: rm.Node, ln, script: bytes, desc: dict) -> None:
        w, ctx, r, cm, sg, sh = self.w, self.ctx, self.rng, self.w.cm, self.w.sg, self.w.sh
        keys = list(dict.fromkeys(rm.all_keys(root)))
        hashes = list(dict.fromkeys((x.frag, x.data) for x in rm.walk(root) if x.frag in rm.HASHES))
        olders = [x.k for x in rm.walk(root) if x.frag == "older"]
        afters = [x.k for x in rm.walk(root) if x.frag == "after"]
        frags = sorted({x.frag for x in rm.walk(root)})
        spk, tail, leaf = _output_for(w.cx, script, r.choice([0, 0, 1, 2]), r)
        amount = r.choice([1000, 0, 21 * 10**14, 12345678])
        n_tx = max(2, min(self.n_assign, 2 + (3 if olders or afters else 0) + len(olders) + len(afters)))
        variants = self._tx_variants(olders, afters, n_tx)
        txs = []
        for ver, lock, seq, tag in variants:
            vin = [cm.TxIn(bytes([0x31]) * 32, 3, b"", seq, [])]
            spent = [cm.TxOut(amount, spk)]
            if r.random() < 0.25:
                vin.append(cm.TxIn(bytes([0x32]) * 32, 0, b"", r.choice([0, 0xFFFFFFFF, 7]), []))
                spent.append(cm.TxOut(5000, b"\x51"))
            vout = [cm.TxOut(r.choice([0, 1, 900]), r.choice([b"\x51", b"\x6a\x01x", b""])) for _ in range(r.choice([1, 1, 2]))]
            txs.append((cm.Tx(ver, vin, vout, lock), spent, {}, tag))
        bounds = {"ops": ln.max_ops, "stack": ln.max_stack_items, "exec": ln.max_exec_stack_items, "wit": ln.max_witness_size}
        toks = rm.script_tokens(root)
        straight = None
        if script == rm.serialize(toks) and not any(t in (("op", "OP_IF"), ("op", "OP_NOTIF")) for t in toks):
            straight = rm.count_ops(toks)

        def signature(ti: int, key: bytes, ht: int) -> bytes:
            tx, spent, cache, _ = txs[ti]
            if (key, ht) not in cache:
                i = w.kidx[key]
                if w.tap:
                    h = cm.taproot_sighash(tx, 0, spent, ht, cm.TAPSCRIPT, cm.ExecData(tapleaf_hash=leaf))
                    d, px = w.spool.items[i]
                    s = w.spool.sign(d, px, h, i + ti)
                    cache[(key, ht)] = s if ht == 0 else s + bytes([ht])
                else:
                    h = cm.segwit_sighash(script, tx, 0, ht, amount)
                    cache[(key, ht)] = sg.der(*sg.ecdsa_sign(w.pool, w.pool.keys[i][0], h, i + ti)) + bytes([ht])
            return cache[(key, ht)]

        for ai in range(self.n_assign):
            ti = ai % len(txs)
            tx, spent, _, ttag = txs[ti]
            ver, lock, seq = tx.version, tx.lock_time, tx.vin[0].sequence
            # ---- which keys have signed
            how = r.choice(["all", "all", "drop-one", "drop-one", "single", "none", "p85", "p60", "p30"]) if ai else "all"
            if how == "all" or not keys:
                signed = list(keys)
            elif how == "drop-one":
                signed = list(keys)
                signed.remove(r.choice(signed))
            elif how == "single":
                signed = [r.choice(keys)]
            elif how == "none":
                signed = []
            else:
                p = int(how[1:]) / 100
                signed = [k for k in keys if r.random() < p]
            # ---- which preimages are known, and what else lies in the mappings
            hk = r.choice(["all", "all", "drop-one", "none", "random"]) if ai else "all"
            known = [h for h in hashes if hk == "all" or (hk == "random" and r.random() < 0.5)]
            if hk == "drop-one" and hashes:
                known = list(hashes)
                known.remove(r.choice(known))
            maps: dict = {f: {} for f in rm.HASHES}
            for f, dg in known:
                maps[f][dg] = w.digests[(f, dg)]
            decoy = ""
            for f, dg in hashes:
                if (f, dg) not in known and r.random() < 0.35:
                    pre = w.digests[(f, dg)]
                    if r.random() < 0.8:      # the right preimage, filed where it opens nothing: under another function
                        g = r.choice([x for x in rm.HASHES if x != f])
                        maps[g][rm.HASH_FN[g](pre)] = pre
                        decoy = "other-function"
                    else:                     # bytes of the wrong size under the right digest: BIP379 takes 32 and no other
                        maps[f][dg] = pre[:31] if r.random() < 0.5 else pre + b"\x00"
                        decoy = "wrong-size"
            # what is known is what the mappings really hold (a decoy may be the right entry of another leaf)
            known = [(f, dg) for f, dg in hashes if len(maps[f].get(dg, b"")) == 32 and rm.HASH_FN[f](maps[f][dg]) == dg]
            extra = [k for k in w.ekeys if k not in keys]
            ht = (r.choice([0, 0, 0, 1, 2, 3, 0x81, 0x82, 0x83]) if w.tap else r.choice([1, 1, 1, 2, 3, 0x81, 0x82, 0x83]))
            if ht & 3 == 3 and len(tx.vout) < 1:
                ht = 1
            sigs = {}
            for k in signed:
                # a taproot key answers to both spellings: the 32 bytes of the script and the 33 of the KEY expression
                sigs[w.script_key[k] if w.tap and r.random() < 0.5 else k] = signature(ti, k, ht)
            if extra and r.random() < 0.2:      # a signature nobody asked for, by a key outside the expression
                k = r.choice(extra)
                sigs[k] = signature(ti, k, ht)
            env = rm.Env(frozenset(signed), frozenset(known), ver, lock, seq)
            truth = rm.holds(root, env)
            spend = w.lm.SpendContext(sha256_preimages=maps["sha256"], hash256_preimages=maps["hash256"],
                                      ripemd160_preimages=maps["ripemd160"], hash160_preimages=maps["hash160"],
                                      locktime=lock, sequence=seq, version=ver)
            case = {**desc, "script": script, "version": ver, "locktime": lock, "sequence": seq, "tx_variant": ttag,
                    "signed_keys": [k.hex() for k in signed], "known_preimages": [[f, d.hex()] for f, d in known],
                    "decoy_preimage": decoy, "hash_type": ht, "condition_holds": truth}
            akey = (w.cx, desc["expression"], ver, lock, seq, tuple(signed), tuple(known), decoy, ht)
            # classes of the assignment, for the evidence histogram
            if ttag.endswith((":at", ":below", ":above")):
                ctx.classes[f"assign:{sh}:timelock-at-boundary"] += 1
            if ttag.endswith(":other-unit") or ttag == "open-other-units":
                ctx.classes[f"assign:{sh}:timelock-other-unit"] += 1
            if len(known) < len(hashes):
                ctx.classes[f"assign:{sh}:preimage-missing"] += 1
            if len(signed) < len(keys):
                ctx.classes[f"assign:{sh}:key-missing"] += 1
            if decoy:
                ctx.classes[f"assign:{sh}:decoy-preimage:{decoy}"] += 1

            if not w.tap:
                self._psbt_solver(root, env, truth, tx, spent, spk, amount, script, sigs, maps, tail, case, sh, ttag)
            o = outcome(ln.satisfy, sigs, spend)
            if o[0] == "raise":
                if not is_lib_exc(o[1]):
                    ctx.violation(f"satisfy-foreign-exception:{type(o[1]).__name__}@{tb_origin(o[1])}",
                                  f"satisfy raised {o[1]!r}"[:500], case)
                if not truth:
                    ctx.mon(f"condition-false=>no-satisfaction:{sh}")
                    ctx.case(f"assign:{sh}:refused:condition-false", akey)
                else:
                    why = "malleable-or-unsigned" if "non-malleable" in str(o[1]) else "wrong-size-preimage" if decoy == "wrong-size" else "none-found"
                    ctx.stat(f"converse:condition-true-but-no-satisfaction:{why}")
                    ctx.case(f"assign:{sh}:refused:condition-true", akey)
                continue
            wit = [bytes(x) for x in o[1]]
            case["witness"] = wit
            ctx.case(f"assign:{sh}:satisfied", akey, sample=case)
            if not truth:
                ctx.mon(f"condition-false=>no-satisfaction:{sh}")
                what = _why_false(root, env)
                ctx.violation(f"satisfaction-although-condition-false:{what}",
                              f"satisfy() answered a witness of {len(wit)} elements although the spending condition is false "
                              f"({what}): {desc['expression'][:200]}", case)
            # ---- the two interpreters on a real spend
            from ..gen.spends import Case

            tx.vin[0].witness = wit + tail
            c = Case(f"miniscript:{sh}", tx, spent, 0, cm.ALL_FLAGS, {})
            w.meter.reset()
            lo = w.lib.run(c)
            ops_seen, depth_seen = w.meter.ops, w.meter.depth
            model = cm.run(b"", spk, list(tx.vin[0].witness), cm.ALL_FLAGS, cm.Checker(tx, 0, amount, spent))
            tx.vin[0].witness = []
            ctx.mon(f"engine-verdict:{sh}")
            ctx.mon(f"core-model-verdict:{sh}")
            case["core_model"] = model
            case["engine"] = "OK" if lo[0] == "ok" else repr(lo[1])[:300]
            if lo[0] == "raise" and not is_lib_exc(lo[1]):
                ctx.violation(f"engine-foreign-exception:{type(lo[1]).__name__}@{tb_origin(lo[1])}", f"verify_input raised {lo[1]!r}", case)
            elif lo[0] == "raise" or model != "OK":
                who = "engine-and-core-model" if lo[0] == "raise" and model != "OK" else "engine-only" if lo[0] == "raise" else "core-model-only"
                ctx.violation(f"satisfaction-rejected:{who}:{model if model != 'OK' else 'core-accepts'}:{_blame(root, wit, ttag)}",
                              f"the witness satisfy() produced is refused ({who}; Core model: {model}; engine: {case['engine'][:120]}) "
                              f"for {desc['expression'][:160]}", case)
            else:
                ctx.stat("satisfied-and-accepted-by-both")
                for f in frags:
                    ctx.monitors[f"satisfied-spend:{sh}:{f}"] += 1
            # ---- bounds
            size = sum(len(x) + len(cm.ser_compact(len(x))) for x in wit)
            for name, seen, bound in (("witness-size", size, bounds["wit"]), ("stack-items", len(wit), bounds["stack"])):
                ctx.mon(f"bound:{name}:{sh}")
                if bound is None or seen > bound:
                    ctx.violation(f"bound-exceeded:{name}" if bound is not None else f"bound-absent-but-satisfied:{name}",
                                  f"{name}: the satisfaction has {seen}, the node predicts at most {bound}", {**case, "observed": seen, "bound": bound})
            if lo[0] == "ok":
                if not w.tap:
                    ctx.mon(f"bound:ops(M6):{sh}")
                    if "multi" in frags and ops_seen > rm.count_ops(toks):
                        ctx.mon(f"bound:ops(M6):{sh}:checkmultisig")
                    if bounds["ops"] is None or ops_seen > bounds["ops"]:
                        ctx.violation("bound-exceeded:executed-ops", f"the engine counted {ops_seen} executed ops, max_ops is {bounds['ops']}",
                                      {**case, "observed": ops_seen, "bound": bounds["ops"]})
                elif straight is not None:
                    # no interpreter counts ops under tapscript; where the script has no branch every opcode of it runs
                    ctx.mon(f"bound:ops(branch-free script):{sh}")
                    if bounds["ops"] is None or straight > bounds["ops"]:
                        ctx.violation("bound-exceeded:executed-ops", f"the branch-free script executes its {straight} non-push "
                                      f"opcodes, max_ops is {bounds['ops']}", {**case, "observed": straight, "bound": bounds["ops"]})
                ctx.mon(f"bound:exec-stack(M6):{sh}")
                if bounds["exec"] is None or depth_seen > bounds["exec"]:
                    ctx.violation("bound-exceeded:exec-stack-items", f"stack + altstack reached {depth_seen} elements, "
                                  f"max_exec_stack_items is {bounds['exec']}", {**case, "observed": depth_seen, "bound": bounds["exec"]})
                if not w.meter.n_depth:
                    ctx.inconclusive_("stack-depth hook never called: engine no longer goes through script_op_codes.assert_stack_size")


def _solver_psbt(tx, spent, script: bytes, sigs: dict, maps: dict):
    """The psbt a Signer would hand to a Finalizer for input 0 of ``tx`` (a model transaction)."""
    from btclib.psbt.psbt import Psbt
    from btclib.script import ScriptPubKey
    from btclib.tx import Tx as LTx
    from btclib.tx import TxOut as LTxOut

    ltx = LTx.parse(tx.ser(False))
    psbt = Psbt.from_tx(ltx, check_validity=False)
    for i, so in enumerate(spent):
        psbt.inputs[i].witness_utxo = LTxOut(so.value, ScriptPubKey(so.spk, check_validity=False), check_validity=False)
    pin = psbt.inputs[0]
    pin.witness_script = script
    pin.partial_sigs = dict(sigs)
    pin.sha256_preimages, pin.hash256_preimages = dict(maps["sha256"]), dict(maps["hash256"])
    pin.ripemd160_preimages, pin.hash160_preimages = dict(maps["ripemd160"]), dict(maps["hash160"])
    return psbt


def _why_false(root: rm.Node, env: rm.Env) -> str:
    """Which kind of leaf makes the condition false: the tag says how, not which value."""
    full = rm.Env(frozenset(rm.all_keys(root)), env.preimages, env.version, env.locktime, env.sequence)
    if rm.holds(root, full):
        return "signature-missing"
    allp = frozenset((x.frag, x.data) for x in rm.walk(root) if x.frag in rm.HASHES)
    if rm.holds(root, rm.Env(full.signed, allp, env.version, env.locktime, env.sequence)):
        return "preimage-missing"
    for x in rm.walk(root):
        if x.frag == "older" and not rm.older_met(x.k, env):
            flag = (x.k ^ env.sequence) & rm.SEQ_TYPE_FLAG
            return ("older-unmet:version<2" if env.version < 2 else "older-unmet:disable-bit" if env.sequence & rm.SEQ_DISABLE_FLAG
                    else "older-unmet:other-unit" if flag else "older-unmet:value")
    for x in rm.walk(root):
        if x.frag == "after" and not rm.after_met(x.k, env):
            return ("after-unmet:final-sequence" if env.sequence == rm.SEQ_FINAL else "after-unmet:other-unit"
                    if (x.k < rm.LOCKTIME_THRESHOLD) != (env.locktime < rm.LOCKTIME_THRESHOLD) else "after-unmet:value")
    return "unsatisfiable-expression"


def _blame(root: rm.Node, wit: list, ttag: str) -> str:
    """A stable hint of where a refused witness went wrong: the outermost combinator kinds present (not values)."""
    fr = {x.frag for x in rm.walk(root)}
    for f in ("thresh", "andor", "or_i", "or_d", "or_c", "or_b", "and_b", "multi", "multi_a", "j:", "d:"):
        if f in fr:
            return f"with-{f}"
    return "plain"


# ================================================================= shards
def _reach():
    reach = Reach()
    for d in MECH_FUNCS:
        reach.watch_path(d)
    reach.start()
    return reach


def shard_expr(ctx: Ctx) -> None:
    w = World(ctx, ctx.params["context"])
    reach = _reach()
    g = ExprGen(w, loose_p=ctx.params.get("loose_p", 0.08))
    ck = ExprChecker(w, ctx.params["assignments"])
    r = ctx.rng
    corpus = load_corpus(w)
    r.shuffle(corpus)
    part = int(ctx.shard.rsplit("-", 1)[1])
    # the corpus itself first (each shard a slice of it), then mutations of it and of what was found sane, and fresh trees
    for n in corpus[part::3]:
        if ctx.out_of_time():
            break
        ck.expression(n, "corpus")
    depths = [d for d in (1, 2, 2, 3, 3, 3, 4, 4, 4, 5, 5, 6, 7, 8, 9) if d <= ctx.params["max_depth"]]
    while not ctx.out_of_time():
        k = r.random()
        if k < 0.22:
            ck.expression(g.mutate(r.choice(corpus)), "corpus-mutation")
        elif k < 0.42 and ck.sane:
            ck.expression(g.mutate(r.choice(ck.sane[-200:])), "sane-mutation")
        else:
            ck.expression(g.fresh(r.choice(depths)), "fresh")
    ctx.stat("meter:op-count-calls", w.meter.n_ops)
    ctx.stat("meter:stack-size-calls", w.meter.n_depth)
    reach.stop()
    reach.report(ctx)


def shard_typing(ctx: Ctx) -> None:
    """Small expressions without type direction: every wrapper and combinator over every depth<=1 argument, embedded in a
    top-level frame that signs. Where BIP379's table gives the whole no sane type, the library must not call it sane
    (an expression it does call sane goes through every monitor of ExprChecker, the engine included)."""
    w = World(ctx, ctx.params["context"])
    reach = _reach()
    ck = ExprChecker(w, 4)
    r = ctx.rng
    cx = w.cx
    K = list(w.ekeys)

    def N(frag, subs=(), **kw):
        return rm.Node(frag, cx, tuple(subs), **kw)

    def leaves():
        ks = r.sample(K, 3)
        mk = "multi_a" if w.tap else "multi"
        return [N("pk_k", keys=(ks[0],)), N("pk_h", keys=(ks[1],)), N("c:", [N("pk_k", keys=(ks[2],))]), N("older", k=10), N("after", k=100),
                N("sha256", data=rm.HASH_FN["sha256"](w.pre[0])), N("0"), N("1"), N(mk, keys=(ks[0], ks[1]), k=1)]

    WR = ["a:", "s:", "c:", "d:", "v:", "j:", "n:"]
    BIN = ["and_v", "and_b", "or_b", "or_c", "or_d", "or_i"]

    def level(args):
        out = []
        for x in args:
            out += [N(wr, [x]) for wr in WR]
        for f in BIN:
            for x in args:
                for y in args:
                    out.append(N(f, [x, y]))
        for x in r.sample(args, min(4, len(args))):
            for y in r.sample(args, min(4, len(args))):
                for z in r.sample(args, min(3, len(args))):
                    out.append(N("andor", [x, y, z]))
        return out

    def frames(x, key):
        """Top-level expressions holding x, with a key check beside it so that a signature is needed."""
        pk = N("c:", [N("pk_k", keys=(key,))])
        b = x.basic
        if b == "B" or not b:
            yield x
            yield N("and_v", [N("v:", [pk]), x])
            yield N("and_b", [pk, N("a:", [x])])
            yield N("and_b", [pk, N("s:", [x])])
            yield N("or_b", [pk, N("s:", [x])])
            yield N("thresh", [pk, N("s:", [x]), N("a:", [x])], k=2)
            yield N("or_d", [pk, x])
            yield N("andor", [pk, x, N("0")])
            yield N("and_v", [N("v:", [x]), pk])
            yield N("j:", [x])
            yield N("and_v", [N("v:", [pk]), N("d:", [N("v:", [x])])])
        if b == "W":
            yield N("and_b", [pk, x])
            yield N("or_b", [pk, x])
            yield N("thresh", [pk, x], k=2)
        if b == "V":
            yield N("and_v", [x, pk])
            yield N("or_c", [pk, x])
        if b == "K":
            yield N("c:", [x])
            yield N("and_v", [N("v:", [pk]), N("c:", [x])])

    n = 0
    while n < ctx.params["samples"] and not ctx.out_of_time():
        L0 = leaves()
        L1 = [x for x in level(L0) if x.t]          # typed depth-1 arguments, of every basic type
        pool = L0 + r.sample(L1, min(len(L1), 60))
        cands = level(pool)
        r.shuffle(cands)
        spare = [k for k in K if all(k not in rm.all_keys(x) for x in L0)] or K
        for x in cands[:400]:
            for top in frames(x, r.choice(spare)):
                n += 1
                ref_sane = rm.sane_guess(top)
                ctx.stat("typing:table-sane" if ref_sane else "typing:table-refuses")
                if ref_sane and r.random() < 0.9:
                    continue                       # the typed trees are the other shards' business; a tenth keeps this one honest
                ck.expression(top, "typing-sane" if ref_sane else "typing-near-miss")
    ctx.exhaustive.append(f"{SHORT[cx]}: every wrapper and binary combinator over the 9 leaves, as an argument of every wrapper and combinator again (sampled), in 11 signing frames")
    reach.stop()
    reach.report(ctx)


def shard_big(ctx: Ctx) -> None:
    """Near the limits: long chains, wide thresholds and quorums, deep wrappers."""
    cx = ctx.params["context"]
    tap = cx == rm.TAPSCRIPT
    q = ctx.tier == "quick"
    w = World(ctx, cx, n_keys=(40 if q else 110) if tap else (28 if q else 60))
    reach = _reach()
    g = ExprGen(w, loose_p=0.0, dup_p=0.0)
    ck = ExprChecker(w, ctx.params["assignments"])
    r = ctx.rng
    N = g.N

    def pk():
        return N("c:", [N("pk_k", keys=(g.key(),))])

    def builders():
        nk = len(w.ekeys)
        # and_b chain of n key checks
        n = r.randrange(5, nk)
        g.used = []
        x = pk()
        for _ in range(n - 1):
            x = N("and_b", [pk(), N("a:", [x])])
        yield x
        # thresh over many keys
        g.used = []
        n = r.randrange(4, nk)
        yield N("thresh", [pk()] + [N(r.choice(["s:", "a:"]), [pk()]) for _ in range(n - 1)], k=r.randrange(1, n + 1))
        # a wide quorum
        g.used = []
        n = r.randrange(5, nk if tap else 21)
        yield N("multi_a" if tap else "multi", keys=tuple(g.key() for _ in range(n)), k=r.randrange(1, n + 1))
        # nested or_i / or_d ladders ending in a key, each step with its own key
        g.used = []
        x = pk()
        for _ in range(r.randrange(4, min(nk, 30))):
            f = r.choice(["or_i", "or_i", "or_d", "andor"])
            if f == "or_i":
                x = N("or_i", [x, pk()] if r.random() < 0.5 else [pk(), x])
            elif f == "or_d":
                x = N("or_d", [pk(), x])
            else:
                x = N("andor", [pk(), N("older", k=r.choice([1, 144])) if r.random() < 0.3 else pk(), x])
        yield x
        # deep wrappers: n:n:...:pk and ladders of j:/d: under and_v
        g.used = []
        x = pk()
        for _ in range(r.randrange(10, 60 if q else 400)):
            x = N("n:", [x])
        yield x
        g.used = []
        x = pk()
        for _ in range(r.randrange(3, 12 if q else 30)):
            x = N("and_v", [N("v:", [pk()]), N(r.choice(["j:", "n:"]), [x])])
        yield x
        # thresh of multis and hashes with locks
        g.used = []
        n = r.randrange(3, 7)
        subs = [g.multi()] + [N("a:", [r.choice([g.multi, g.hashf, pk])()]) for _ in range(n - 1)]
        yield N("and_v", [N("v:", [pk()]), N("thresh", subs, k=r.randrange(1, n + 1))])
        # a generated tree, deeper than the regular shards go
        yield g.fresh(r.choice([6, 7, 8]) if q else r.choice([8, 10, 12]))

    while not ctx.out_of_time():
        for root in builders():
            if ctx.out_of_time():
                break
            ck.expression(root, "big")
    ctx.stat("meter:op-count-calls", w.meter.n_ops)
    reach.stop()
    reach.report(ctx)
