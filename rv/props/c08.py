"""C08 - the script engine gives Bitcoin Core's verdict.

Reference-model monitor: every generated spend is judged by ``rv.ref.core`` (a
transcription of Core's interpreter.cpp, self-tested on Core's own vectors) and by
the library's ``verify_input``; accept/reject must agree, a refusal must be the
library's exception, and for signature-free programs the final stack must be Core's.
"""

from __future__ import annotations

import json
import os
import re

from ..ctx import Ctx, is_lib_exc, outcome, raised_inside_lib, tb_origin
from ..hooks import ArmRecorder, Reach, backend_available, set_backend

PROPERTY = "C08"
RULE = (
    "spends generated from a weighted grammar (random programs over all 256 byte values, structured conditionals, "
    "number/limit edge builders, signature templates in every wrapping with valid/high-s/lax-DER/wrong-key/empty/"
    "undefined-hashtype signatures and every key encoding, taproot key and script paths incl. OP_SUCCESS, CHECKSIGADD, "
    "sigops budget, control blocks) x random flag subsets closed under Core's preconditions. Distinct = distinct "
    "(transaction bytes, spent outputs, input, flags); every case is non-trivial (both interpreters are run and compared)."
)
ASSUMPTIONS = [
    "rv/ref/core.py is Bitcoin Core's verdict: it reproduces every applicable vector of script_tests.json (error codes "
    "included up to naming), tx_valid.json and tx_invalid.json; no Core binary exists in the sandbox",
    "signatures are produced by reference signers over the model's own sighash transcriptions (validated on sighash.json / BIP341 vectors)",
]

VEC = os.path.join(os.path.dirname(os.path.dirname(os.path.dirname(os.path.abspath(__file__)))), "vectors")

MECH_FUNCS = [
    "btclib.script.engine:verify_input", "btclib.script.engine:_verify_witness_program", "btclib.script.engine:_verify_witness_v0",
    "btclib.script.engine:_verify_taproot", "btclib.script.engine:validate_push_only", "btclib.script.engine.script:verify_script",
    "btclib.script.engine.script:op_checksig", "btclib.script.engine.script:find_and_delete",
    "btclib.script.engine.script:calculate_script_code", "btclib.script.engine.script:assert_nullfail",
    "btclib.script.engine.script:assert_nulldummy", "btclib.script.engine.script:dsa_verify",
    "btclib.script.engine.tapscript:verify_key_path", "btclib.script.engine.tapscript:op_checksig",
    "btclib.script.engine.tapscript:verify_script_path_vc0", "btclib.script.engine.script_op_codes:op_checklocktimeverify",
    "btclib.script.engine.script_op_codes:op_checksequenceverify", "btclib.script.engine.script_op_codes:assert_minimal_push",
    "btclib.script.taproot:check_output_pubkey",
]

KINDS = ["bare", "limit", "sig", "wrapped", "tap-key", "tap-script"]


def plan(tier: str, seed: int) -> list[dict]:
    q = tier == "quick"
    specs = [{"name": "oracle-selftest", "fn": "shard_selftest", "_budget_s": 200, "_timeout_s": 900}]
    # (kind, shards, cases per shard)
    table = [("bare", 3, 9000 if q else 120000), ("limit", 1, 1500 if q else 12000), ("sig", 5, 1100 if q else 12000),
             ("wrapped", 2, 5000 if q else 60000), ("tap-key", 1, 1000 if q else 10000), ("tap-script", 3, 1400 if q else 15000),
             ("stack", 1, 40000 if q else 600000)]
    for kind, n, cases in table:
        for i in range(n):
            specs.append({"name": f"{kind}-{i}", "fn": "shard_diff", "kind": kind, "cases": cases,
                          "_budget_s": 100 if q else 1100, "_timeout_s": 600 if q else 3000})
    return specs


def finalize(m: dict, tier: str) -> list[str]:
    out = []
    if not m["selftest"].get("script_tests.json"):
        out.append("Core-model self-test on script_tests.json did not run")
    c, r, a, s = m["classes"], m["reached"], m["arms"], m["stats"]
    for need in ("bare:random", "bare:conditionals", "bare:numbers", "bare:locktime", "tap:keypath", "tap:checksig", "tap:checksigadd",
                 "tap:success", "tap:budget", "tap:control", "wrapped:p2sh-extra", "wrapped:p2wsh", "wrapped:p2sh",
                 "stack:final-stack-compared"):
        if not c.get(need):
            out.append(f"spend form {need} never exercised")
    for wrap in ("bare", "p2sh", "p2wsh", "p2sh-p2wsh", "p2wpkh", "p2sh-p2wpkh"):
        if not any(k.startswith("spend:") and k.endswith(":" + wrap) for k in c):
            out.append(f"signature spend wrapped as {wrap} never exercised")
    for f in ("verify_input", "verify_script", "op_checksig", "_verify_taproot", "verify_script_path_vc0", "verify_key_path",
              "_verify_witness_v0", "find_and_delete"):
        if not r.get(f):
            out.append(f"mechanism {f} never entered")
    from ..ref.core import FLAG_NAMES
    for fl in FLAG_NAMES:
        if not s.get(f"flag:{fl}"):
            out.append(f"flag {fl} never set in a case")
    if not s.get("verdict:both-accept") or not s.get("verdict:both-reject"):
        out.append("no case accepted by both / rejected by both: the comparison never had both polarities")
    if not s.get("model-accepts:tapscript-sig") or not s.get("model-accepts:ecdsa-sig"):
        out.append("no spend with a valid signature was accepted by the model (signers broken?)")
    if backend_available() and not (a.get("bindings") and a.get("python")):
        out.append("both arithmetic arms were not observed")
    return out


# ------------------------------------------------------------------ running
def _norm(msg: str) -> str:
    msg = re.sub(r"\(command.*$", "", msg)
    msg = re.sub(r"0x[0-9a-fA-F]+|\b[0-9a-fA-F]{8,}\b|\d+", "#", msg)
    return re.sub(r"\s+", " ", msg).strip()[:60]


class Lib:
    """The library side: build its Tx from the model's and call verify_input."""

    def __init__(self):
        from btclib.exceptions import BTClibValueError
        from btclib.script import ScriptPubKey, Witness
        from btclib.script.engine import ScriptFlag, verify_input, verify_transaction
        from btclib.script.engine.script import verify_script
        from btclib.script.engine import tapscript as tapscript_engine
        from btclib.script.engine import script_op_codes

        tap_run_ops = getattr(tapscript_engine, "verify_script_path_vc0", None)
        from btclib.tx import OutPoint, Tx, TxIn, TxOut

        self.__dict__.update(locals())
        from ..ref.core import F

        self.flagmap = {name: ScriptFlag[name] for name in F}
        self.F = F

    def flags(self, f: int):
        r = self.ScriptFlag(0)
        for name, bit in self.F.items():
            if f & bit:
                r |= self.flagmap[name]
        return r

    def build(self, case):
        vin = [self.TxIn(self.OutPoint(i.prev_hash[::-1], i.prev_n, check_validity=False), i.script_sig, i.sequence,
                         self.Witness(i.witness), check_validity=False) for i in case.tx.vin]
        vout = [self.TxOut(o.value, self.ScriptPubKey(o.spk, check_validity=False), check_validity=False) for o in case.tx.vout]
        tx = self.Tx(case.tx.version & 0xFFFFFFFF, case.tx.lock_time, vin, vout, check_validity=False)
        prev = [self.TxOut(o.value, self.ScriptPubKey(o.spk, check_validity=False), check_validity=False) for o in case.spent]
        return prev, tx

    def run(self, case):
        prev, tx = self.build(case)
        return outcome(self.verify_input, prev, tx, case.n_in, self.flags(case.flags))


def model_run(case) -> str:
    from ..ref import core as cm

    i = case.tx.vin[case.n_in]
    ck = cm.Checker(case.tx, case.n_in, case.spent[case.n_in].value, case.spent)
    return cm.run(i.script_sig, case.spent[case.n_in].spk, list(i.witness), case.flags, ck)


def classify(case, model: str, lib_o) -> str | None:
    """None when the two agree; otherwise the mechanism tag of the divergence."""
    if lib_o[0] == "raise" and not is_lib_exc(lib_o[1]):
        return f"foreign-exception:{type(lib_o[1]).__name__}@{tb_origin(lib_o[1])}"
    lib_ok = lib_o[0] == "ok"
    if lib_ok == (model == "OK"):
        return None
    # a divergence explained by an input feature with a known cause is tagged by that cause, whichever way the
    # script turns it (a failed signature check becomes an acceptance behind OP_NOT)
    from ..ref.core import F
    if not case.flags & (F["DERSIG"] | F["LOW_S"] | F["STRICTENC"]):
        cause = _cause_of_refusal(case)
        if cause:
            return f"diverges:{cause}"
    if lib_ok:
        return f"accepts-where-core-rejects:{model}"
    return f"rejects-where-core-accepts:{_norm(str(lib_o[1]))}"


def _cause_of_refusal(case) -> str | None:
    """Diagnose a refusal Core does not share by the *input feature* that explains it (stable across messages)."""
    from btclib.ecc.dsa import Sig

    from ..ref import core as cm

    i = case.tx.vin[case.n_in]
    elements = list(i.witness)
    pc = 0
    while True:
        op = cm.get_op(i.script_sig, pc)
        if op is None:
            break
        if op[1]:
            elements.append(op[1])
        pc = op[2]
    # signatures can also sit inside the scripts themselves
    for script in [case.spent[case.n_in].spk] + [e for e in elements if len(e) > 75]:
        pc = 0
        while True:
            op = cm.get_op(script, pc)
            if op is None:
                break
            if op[1]:
                elements.append(op[1])
            pc = op[2]
    for el in elements:
        if len(el) > 8 and el[0] == 0x30 and cm.parse_der_lax(el[:-1]) is not None:
            try:
                Sig.parse(el[:-1], strict=False, check_validity=False)
            except Exception:  # noqa: BLE001 - the library cannot read what Core's lax parser reads
                return "lax-DER-signature-core-reads-and-library-cannot"
    return None


def shard_selftest(ctx: Ctx) -> None:
    """The oracle against Core's published vectors; the library is not consulted."""
    from ..ref import core as cm
    from ..ref.core import F

    NUMS = bytes.fromhex("50929b74c1a04954b78b4b6035e97a5e078a5a0f28ec96d547bfee9ace803ac0")

    def tap_out(script):
        lh = cm.tapleaf_hash(0xC0, script)
        Pt = cm.lift_x(int.from_bytes(NUMS, "big"))
        t = int.from_bytes(cm.tagged_hash(b"TapTweak", NUMS + lh), "big")
        Q = cm.ec_add(Pt, cm.ec_mul(t, cm.G))
        return Q[0].to_bytes(32, "big"), bytes([0xC0 | (Q[1] & 1)]) + NUMS

    data = json.load(open(os.path.join(VEC, "script_tests.json")))
    n = bad = 0
    for x in data:
        if len(x) == 1:
            continue
        wit, amount, i = [], 0, 0
        if isinstance(x[0], list):
            wit, amount, i = x[0][:-1], int(round(x[0][-1] * 10**8)), 1
        ss_s, spk_s, flags_s, exp = x[i], x[i + 1], x[i + 2], x[i + 3]
        witness, q = [], None
        for e in wit:
            if e.startswith("#SCRIPT#"):
                witness.append(cm.parse_asm(e[8:]))
            elif e == "#CONTROLBLOCK#":
                q, ctrl = tap_out(witness[-1])
                witness.append(ctrl)
            else:
                witness.append(bytes.fromhex(e))
        if q is not None:
            spk_s = spk_s.replace("#TAPROOTOUTPUT#", "0x" + q.hex())
        ss, spk, flags = cm.parse_asm(ss_s), cm.parse_asm(spk_s), cm.parse_flags(flags_s)
        if flags & F["CLEANSTACK"]:
            flags |= F["P2SH"] | F["WITNESS"]
        credit = cm.Tx(1, [cm.TxIn(bytes(32), 0xFFFFFFFF, bytes([0, 0]), 0xFFFFFFFF)], [cm.TxOut(amount, spk)], 0)
        spend = cm.Tx(1, [cm.TxIn(credit.txid(), 0, ss, 0xFFFFFFFF, witness)], [cm.TxOut(amount, b"")], 0)
        got = cm.run(ss, spk, witness, flags, cm.Checker(spend, 0, amount, [credit.vout[0]]))
        n += 1
        if (got == "OK") != (exp == "OK"):
            bad += 1
            ctx.oracle_broken("script_tests.json", f"{x[-1] if isinstance(x[-1], str) else ''}: model {got}, Core {exp}")
    ctx.oracle_ok("script_tests.json", n - bad)

    def trim(f):
        if not f & F["P2SH"]:
            f &= ~F["WITNESS"]
        if not f & F["WITNESS"]:
            f &= ~F["CLEANSTACK"]
        return f

    def fill(f):
        if f & F["CLEANSTACK"]:
            f |= F["WITNESS"]
        if f & F["WITNESS"]:
            f |= F["P2SH"]
        return f

    for fname, valid in (("tx_valid.json", True), ("tx_invalid.json", False)):
        n = bad = 0
        for x in json.load(open(os.path.join(VEC, fname))):
            if len(x) == 1 or not isinstance(x[0], list) or "BADTX" in x[2]:
                continue
            prevs = {}
            for p in x[0]:
                prevs[(bytes.fromhex(p[0])[::-1], p[1] & 0xFFFFFFFF)] = (cm.parse_asm(p[2]), p[3] if len(p) > 3 else 0)
            tx = cm.parse_tx(bytes.fromhex(x[1]))
            vf = cm.parse_flags(x[2])
            flags = trim(~vf & cm.ALL_FLAGS) if valid else fill(vf)
            try:
                spent = [cm.TxOut(prevs[(i.prev_hash, i.prev_n)][1], prevs[(i.prev_hash, i.prev_n)][0]) for i in tx.vin]
            except KeyError:
                continue
            res = [cm.run(i.script_sig, spent[k].spk, i.witness, flags, cm.Checker(tx, k, spent[k].value, spent))
                   for k, i in enumerate(tx.vin)]
            n += 1
            if all(r == "OK" for r in res) != valid:
                bad += 1
                ctx.oracle_broken(fname, x[1][:40])
        ctx.oracle_ok(fname, n - bad)
    ctx.case("selftest", "vectors", nontrivial=False)


def shard_diff(ctx: Ctx) -> None:
    from ..gen.spends import Gen
    from ..ref import core as cm
    from ..ref.core import F, FLAG_NAMES

    reach = Reach()
    for d in MECH_FUNCS:
        reach.watch_path(d)
    reach.start()
    arms = ArmRecorder(ctx)
    arms.install()
    lib = Lib()
    g = Gen(ctx.rng)
    kind = ctx.params["kind"]
    maker = {"bare": g.bare_program, "limit": g.limit_edge, "sig": g.sig_spend, "wrapped": g.wrapped_random,
             "tap-key": g.tap_keypath, "tap-script": g.tap_scriptpath, "stack": None}[kind]
    have_bind = backend_available()
    for it in range(ctx.params["cases"]):
        if ctx.out_of_time():
            ctx.notes.append(f"{ctx.shard}: budget reached after {it} cases")
            break
        if kind == "stack":
            _stack_case(ctx, lib, g, cm)
            continue
        case = maker()
        model = model_run(case)
        # both arms on cases that reach signature checks; bindings by default
        arms_to_run = [True, False] if (have_bind and kind in ("sig", "tap-key", "tap-script") and it % 3 == 0) else [True if have_bind else None]
        for arm in arms_to_run:
            if arm is not None:
                set_backend(arm)
            lo = lib.run(case)
            mech = classify(case, model, lo)
            if mech:
                d = case.describe()
                d.update({"core_model": model, "library": "OK" if lo[0] == "ok" else repr(lo[1])[:200],
                          "arm": {True: "bindings", False: "python", None: "python"}[arm]})
                ctx.violation(mech, f"{case.tag}: Core model says {model}, library says "
                              f"{'OK' if lo[0] == 'ok' else 'REJECT: ' + str(lo[1])[:120]}", d)
            else:
                ctx.stat("verdict:both-accept" if model == "OK" else "verdict:both-reject")
        if have_bind:
            set_backend(True)
        ctx.case(case.tag, case.key(), sample=case.describe())
        ctx.stat(f"core:{model}")
        for fl in FLAG_NAMES:
            if case.flags & F[fl]:
                ctx.stats[f"flag:{fl}"] += 1
        if model == "OK":
            if case.tag.startswith("tap:") and any(len(w) in (64, 65) for w in case.tx.vin[case.n_in].witness[:-2]):
                ctx.stat("model-accepts:tapscript-sig")
            if case.tag.startswith("tap:keypath"):
                ctx.stat("model-accepts:tapscript-sig")
            if case.tag.startswith("spend:") and case.note.get("sig") in ("valid", "lax", "high-s"):
                ctx.stat("model-accepts:ecdsa-sig")
    reach.stop()
    reach.report(ctx)


def _stack_case(ctx: Ctx, lib: Lib, g, cm) -> None:
    """Signature-free program: the final stack must be Core's, element for element."""
    r = ctx.rng
    pushes = b"".join(g.push() for _ in range(r.randrange(0, 5)))
    body = r.choice([g.script, g.script, lambda n: g.arith_script(), lambda n: g.structured_script()])(r.randrange(1, 10))
    script = pushes + body
    if any(b in script for b in (b"\xac", b"\xad", b"\xae", b"\xaf", b"\xba")):
        script = script.replace(b"\xac", b"\x61").replace(b"\xad", b"\x61").replace(b"\xae", b"\x61").replace(b"\xaf", b"\x61").replace(b"\xba", b"\x61")
    flags = g.flags()
    if r.random() < 0.25 and getattr(lib, "tap_run_ops", None) is not None:
        return _tapscript_stack_case(ctx, lib, g, cm, pushes, body, flags)
    case = g._case("stack:final-stack-compared", script, b"", [], flags)
    ck = cm.Checker(case.tx, case.n_in, case.spent[case.n_in].value, case.spent)
    # the same program as a legacy script and as a witness v0 script (MINIMALIF and the initial stack are what differ)
    v0 = r.random() < 0.35
    init = [bytes(x) for x in g.items(r.randrange(0, 4))] if v0 or r.random() < 0.3 else []
    mstack: list = list(init)
    try:
        cm.eval_script(mstack, script, flags, ck, cm.WITNESS_V0 if v0 else cm.BASE)
        mres = "OK"
    except cm.ScriptErr as e:
        mres = e.code
    prev, tx = lib.build(case)
    lstack: list = list(init)
    lo = outcome(lib.verify_script, script, lstack, prev[case.n_in].value, tx, case.n_in, lib.flags(flags), v0, False)
    ctx.stat("stack:witness-v0" if v0 else "stack:legacy")
    d = {"script": script.hex(), "flags": case.describe()["flags"], "model": mres, "model_stack": [x.hex() for x in mstack[:20]],
         "tx": case.tx.ser(True).hex(), "sigversion": "witness_v0" if v0 else "base", "initial_stack": [x.hex() for x in init]}
    if lo[0] == "raise" and not is_lib_exc(lo[1]):
        ctx.violation(f"foreign-exception:{type(lo[1]).__name__}@{tb_origin(lo[1])}", f"verify_script raised {lo[1]!r}", d)
    elif (lo[0] == "ok") != (mres == "OK"):
        tag = f"evalscript-accepts-where-core-fails:{mres}" if lo[0] == "ok" else f"evalscript-fails-where-core-runs:{_norm(str(lo[1]))}"
        ctx.violation(tag, f"EvalScript divergence: Core model {mres}, library {'OK' if lo[0] == 'ok' else str(lo[1])[:100]}", d)
    elif mres == "OK" and [bytes(x) for x in lstack] != [bytes(x) for x in mstack]:
        d["library_stack"] = [bytes(x).hex() for x in lstack[:20]]
        ctx.violation("final-stack-differs", "same program, different final stack", d)
    else:
        ctx.stat("verdict:both-accept" if mres == "OK" else "verdict:both-reject")
    ctx.case("stack:final-stack-compared", (script, flags, case.tx.ser(False)), sample=d)


def _minimal_push(e: bytes) -> bytes:
    from ..gen.spends import push_data

    if len(e) == 0:
        return b"\x00"
    if len(e) == 1 and 1 <= e[0] <= 16:
        return bytes([0x50 + e[0]])
    if e == b"\x81":
        return b"\x4f"
    return push_data(e)


def _tapscript_stack_case(ctx: Ctx, lib: Lib, g, cm, pushes: bytes, body: bytes, flags: int) -> None:
    """The same programs under BIP342: the tapscript loop has its own dispatch table, CHECKSIGADD, consensus MINIMALIF,
    no op-count limit and a signature budget. Core's EvalScript(TAPSCRIPT) stack is made observable through the public
    verify_script_path_vc0 by appending, for every element the model leaves, `<element> OP_EQUALVERIFY` and then
    `OP_DEPTH OP_NOT`: the extended program succeeds exactly when the library's stack is the model's."""
    r = ctx.rng
    from ..gen.spends import push_data

    # signature opcodes stay in: operands that decide them without a real signature (empty signature, key types
    # BIP342 left upgradable, the empty key) plus a well-formed key with a 64-byte non-signature
    tail = b""
    for _ in range(r.randrange(0, 3)):
        sig = r.choice([b"", b"", b"\x01", bytes(64), bytes(r.randrange(256) for _ in range(64)), bytes(65)])
        key = r.choice([b"", b"\x01", b"\x02" + bytes(32), bytes(31), g.pool.key(r.randrange(4))[1][0].to_bytes(32, "big")])
        form = r.randrange(3)
        if form == 0:
            tail += push_data(sig) + push_data(key) + r.choice([b"\xac", b"\xad", b"\xac\x69"])
        elif form == 1:
            tail += push_data(sig) + r.choice([b"\x00", b"\x51", b"\x01\x7f", b"\x04\xff\xff\xff\x7f", b"\x05\x00\x00\x00\x00\x01"]) + push_data(key) + b"\xba"
        else:
            tail += push_data(sig) + push_data(key) + b"\xac" + r.choice([b"\x63\x51\x68", b"\x64\x52\x67\x53\x68", b"\x91"])
    script = pushes + (body if r.random() < 0.8 else b"") + tail + (g.script(r.randrange(0, 4)) if r.random() < 0.3 else b"")
    if r.random() < 0.9:  # mostly without OP_SUCCESSx, which ends validation before any stack exists
        pc = 0
        while pc < len(script):
            op = cm.get_op(script, pc)
            if op is None:
                break
            if cm.is_op_success(op[0]):
                script = script[:pc] + b"\x61" + script[pc + 1:]
                pc += 1
            else:
                pc = op[2]
    budget = r.choice([0, 49, 50, 99, 100, 149, 5000])
    init = [bytes(x) for x in g.items(r.randrange(0, 4))] if r.random() < 0.5 else []

    def model(sc, whole):
        case = g._case("stack:tapscript-final-stack-compared", sc, b"", [], flags)
        ck = cm.Checker(case.tx, case.n_in, case.spent[case.n_in].value, case.spent)
        ed = cm.ExecData(annex=None, tapleaf_hash=cm.tapleaf_hash(0xC0, sc), weight_left=budget)
        st = list(init)
        try:
            if whole:
                cm.execute_witness_script(st, sc, flags, cm.TAPSCRIPT, ck, ed)
            else:
                cm.eval_script(st, sc, flags, ck, cm.TAPSCRIPT, ed)
            return case, "OK", st
        except cm.ScriptErr as e:
            return case, e.code, st

    _, loop_res, mstack = model(script, False)
    observed = script
    if loop_res == "OK" and len(mstack) <= 40:
        observed = script + b"".join(_minimal_push(bytes(e)) + b"\x88" for e in reversed(mstack)) + b"\x74\x91"
        ctx.stat("stack:tapscript:stack-made-observable")
    case, mres, _ = model(observed, True)
    prev, tx = lib.build(case)
    lo = outcome(lib.tap_run_ops, observed, list(init), prev, tx, case.n_in, b"", budget, lib.flags(flags))
    ctx.stat("stack:tapscript")
    d = {"script": script.hex(), "observed_script": observed.hex(), "flags": case.describe()["flags"], "model": mres, "model_loop": loop_res,
         "model_stack": [bytes(x).hex() for x in mstack[:20]], "tx": case.tx.ser(True).hex(), "sigversion": "tapscript",
         "initial_stack": [x.hex() for x in init], "budget": budget}
    if lo[0] == "raise" and not is_lib_exc(lo[1]):
        ctx.violation(f"foreign-exception:{type(lo[1]).__name__}@{tb_origin(lo[1])}", f"verify_script_path_vc0 raised {lo[1]!r}", d)
    elif (lo[0] == "ok") != (mres == "OK"):
        if lo[0] == "ok":
            tag = f"tapscript-accepts-where-core-fails:{mres}"
        elif observed is not script and "OP_EQUALVERIFY" in str(lo[1]).upper() or (observed is not script and "equalverify" in _norm(str(lo[1]))):
            tag = "final-stack-differs:tapscript"
        else:
            tag = f"tapscript-fails-where-core-runs:{_norm(str(lo[1]))}"
        ctx.violation(tag, f"tapscript divergence: Core model {mres}, library {'OK' if lo[0] == 'ok' else str(lo[1])[:100]}", d)
    else:
        ctx.stat("verdict:both-accept" if mres == "OK" else "verdict:both-reject")
        if mres == "OK" and tail:
            ctx.stat("stack:tapscript:sigop-program-ran")
    ctx.case("stack:tapscript-final-stack-compared", (script, flags, budget, tuple(init)), sample=d)
