"""C05 - wire formats are canonical: parse and serialize are mutually inverse.

Round-trip monitor over a registry built by introspection (every class of btclib.* defined in its module with
parse+serialize or to_dict+from_dict).  For each class: valid objects generated field by field (boundary values of
every integer field and CompactSize width) must parse back equal from their serialization, with check_validity on
and off, and through JSON; every byte string the parser accepts (reference encodings, vendored samples and their
structure-aware mutants) must serialize back to exactly those bytes.  PSBT: fixed point and no (map, key, value)
pair lost, judged with the independent map reader rv/ref/psbtmap.py.  Tx/Block sizes, weight, ids are compared with
rv/ref/txcodec.py computed from the bytes.
"""

from __future__ import annotations

import base64
import hashlib
import json
import os

from ..ctx import Ctx, is_lib_exc, outcome, tb_origin
from ..hooks import Reach, rebind_method
from ..ref import psbtmap as pm
from ..ref import txcodec as tc
from ..ref import wirefmt as wf
from ..ref.wirefmt import B, CS, OPT, REST, SUB, TX, U, VB, VEC

PROPERTY = "C05"
RULE = (
    "registry = every btclib class with parse+serialize or to_dict+from_dict found by pkgutil introspection (a class without a "
    "generator makes the run inconclusive). Objects are generated from declarative layouts: one pass sets each integer field to each "
    "of its boundary values (0, 1, 2^(k-1)-1, 2^(k-1), 2^k-2, 2^k-1; signed: min, -1, 0, 1, max), each var-bytes length and each "
    "count to 0, 1, 252, 253 (lengths also 65535, 65536), then random cases; PSBTs are generated map by map (every BIP174/370/371/"
    "373/375 key type) and taken from the vendored BIP vectors. Byte corpus = reference encodings of those values + vendored "
    "tx_valid.json transactions, block_200000/481824, PSBT vectors; mutants: truncation at every field boundary, 1..9 appended "
    "bytes, every wider CompactSize for every prefix, +-1 on every count and length, integer field edits, segwit marker/flag edits "
    "incl. all-empty witness record, PSBT duplicate/reordered/unknown keys, PSBT_IN_SIGHASH_TYPE=0, v2-only fields in v0, empty "
    "values, key data on whole-value keys. A case is non-trivial when the object was accepted as valid and compared after a round "
    "trip, or the bytes were accepted by the parser and compared with their re-serialization; distinct = distinct (class, bytes, "
    "check_validity)."
)
ASSUMPTIONS = [
    "python equality (dataclass __eq__) is the notion of 'equal object'; json.dumps/json.loads is the JSON boundary",
    "rv/ref/txcodec.py (BIP141/144 reader, ids and sizes from bytes) is self-tested on every run: merkle root of block 200000 and "
    "481824 from its txids, the BIP141 witness commitment of block 481824 from its wtxids, writer==reader on tx_valid.json",
    "rv/ref/psbtmap.py (BIP174 map grammar only) is self-tested on the BIP174/370/371/373/375 vectors: map count = 1 + inputs + "
    "outputs, writer==reader, duplicate-key vectors detected",
    "rv/ref/wirefmt.py layouts are used to *produce* encodings and field maps for mutation, never to judge; the version/verack "
    "samples of the Bitcoin wiki and the CompactSize table self-test the reader/writer",
    "TxOut/ScriptPubKey objects are generated on mainnet (the wire does not carry the network); TxPayload/BlockPayload objects with "
    "include_witness == is_segwit (documented: the flag is not recoverable otherwise); dsa.Sig/ssa.Sig/bms.Sig on secp256k1 (the only "
    "curve the parsers answer with); Block objects are valid only with proof of work: the two vendored blocks; generated blocks are "
    "judged by the bytes rule only",
    "expected refusals are not judged (C19/C06 own them): only 'accepted => reproduced' and 'valid object => equal after round trip'",
    "dsa.Sig.parse(strict=False), Psbt.b64decode of non-canonical base64 and Bip21 text->object->text are lenient by documentation: "
    "recorded as statistics",
]
VECDIR = os.path.join(os.path.dirname(os.path.dirname(os.path.dirname(os.path.abspath(__file__)))), "vectors")

N = 0xFFFFFFFFFFFFFFFFFFFFFFFFFFFFFFFEBAAEDCE6AF48A03BBFD25E8CD0364141
GENESIS_TIME = 1231006505

# ------------------------------------------------------------------ layouts
NETADDR = [U("services", 8), B("ip", 16), U("port", 2, big=True)]
TSADDR = [U("timestamp", 4), SUB("address", NETADDR)]
ADDRV2 = [U("timestamp", 4), CS("services"), U("network_id", 1),
          VB("address", lens=(0, 1, 4, 10, 16, 32, 252, 253, 512), max_len=512), U("port", 2, big=True)]
HDR = [U("version", 4, signed=True), B("prev", 32), B("root", 32), U("time", 4), B("bits", 4), U("nonce", 4)]
INVENTORY = [U("type", 4), B("hash", 32)]
OUTPOINT = [B("tx_id", 32), U("vout", 4)]
TXIN = [SUB("prev_out", OUTPOINT), VB("script_sig"), U("sequence", 4)]
TXOUT = [U("value", 8, signed=True), VB("script")]
WITNESS = [VEC("stack", [VB("item")], counts=(0, 1, 2, 252, 253))]
LOCATOR = [U("version", 4, signed=True), VEC("locator", [B("h", 32)], counts=(0, 1, 2, 100, 101), max_count=101), B("hash_stop", 32)]
INVVEC = [VEC("items", INVENTORY, counts=(0, 1, 2, 252, 253, 1000), max_count=50000)]
FRANGE = [U("filter_type", 1), U("start_height", 4), B("stop_hash", 32)]
NONCE8 = [U("nonce", 8)]
PREFILLED = [CS("diff", values=(0, 1, 2, 252, 253, 65535), small=6), TX("tx")]

LAYOUTS = {
    "address.NetworkAddress": NETADDR,
    "address.TimestampedNetworkAddress": TSADDR,
    "address.Addr": [VEC("addresses", TSADDR, counts=(0, 1, 2, 252, 253, 1000), max_count=1000)],
    "addrv2.NetworkAddressV2": ADDRV2,
    "addrv2.AddrV2": [VEC("addresses", ADDRV2, counts=(0, 1, 2, 252, 253, 1000), max_count=1000)],
    "addrv2.SendAddrV2": [],
    "block_filters._FilterRangeRequest": FRANGE,
    "block_filters.GetCFilters": FRANGE,
    "block_filters.GetCFHeaders": FRANGE,
    "block_filters.CFilter": [U("filter_type", 1), B("block_hash", 32), VB("filter_bytes")],
    "block_filters.CFHeaders": [U("filter_type", 1), B("stop_hash", 32), B("previous_filter_header", 32),
                                VEC("filter_hashes", [B("h", 32)], counts=(0, 1, 2, 252, 253, 2000), max_count=2000)],
    "block_filters.GetCFCheckpt": [U("filter_type", 1), B("stop_hash", 32)],
    "block_filters.CFCheckpt": [U("filter_type", 1), B("stop_hash", 32), VEC("filter_headers", [B("h", 32)], counts=(0, 1, 2, 252, 253))],
    "compact_blocks.SendCmpct": [U("announce", 1, values=(0, 1)), U("version", 8)],
    "compact_blocks.PrefilledTransaction": PREFILLED,
    "compact_blocks.CmpctBlock": [SUB("header", HDR), U("nonce", 8), VEC("short_ids", [U("id", 6)], counts=(0, 1, 2, 252, 253)),
                                  VEC("prefilled", PREFILLED, counts=(0, 1, 2, 3))],
    "compact_blocks.GetBlockTxn": [B("block_hash", 32), VEC("indexes", [CS("diff", values=(0, 1, 2, 252, 253), small=5)], counts=(0, 1, 2, 252, 253))],
    "compact_blocks.BlockTxn": [B("block_hash", 32), VEC("transactions", [TX("tx")], counts=(0, 1, 2, 3, 252, 253), heavy=True)],
    "data.TxPayload": [TX("tx")],
    "data.BlockPayload": [SUB("header", HDR), VEC("transactions", [TX("tx")], counts=(0, 1, 2, 3))],
    "handshake.Version": [U("version", 4, signed=True), U("services", 8), U("timestamp", 8, signed=True), SUB("addr_recv", NETADDR),
                          SUB("addr_from", NETADDR), U("nonce", 8), VB("user_agent", lens=(0, 1, 16, 252, 253, 256), max_len=256),
                          U("start_height", 4, signed=True), OPT(U("relay", 1, values=(0, 1)))],
    "handshake.Verack": [],
    "inventory.Inventory": INVENTORY,
    "inventory._InventoryPayload": INVVEC,
    "inventory.Inv": INVVEC,
    "inventory.GetData": INVVEC,
    "inventory.NotFound": INVVEC,
    "inventory._LocatorPayload": LOCATOR,
    "inventory.GetBlocks": LOCATOR,
    "inventory.GetHeaders": LOCATOR,
    "inventory.Headers": [VEC("headers", [SUB("header", HDR), CS("txcount", values=(0,))], counts=(0, 1, 2, 252, 253, 2000), max_count=2000)],
    "keepalive._NoncePayload": NONCE8,
    "keepalive.Ping": NONCE8,
    "keepalive.Pong": NONCE8,
    "negotiation.GetAddr": [],
    "negotiation.Mempool": [],
    "negotiation.SendHeaders": [],
    "negotiation.WtxidRelay": [],
    "negotiation.FeeFilter": [U("feerate", 8, signed=True)],
    "out_point.OutPoint": OUTPOINT,
    "tx_in.TxIn": TXIN,
    "tx_out.TxOut": TXOUT,
    "witness.Witness": WITNESS,
    "tx.Tx": [TX("tx")],
    "block_header.BlockHeader": HDR,
    "block.Block": [SUB("header", HDR), VEC("transactions", [TX("tx")], counts=(0, 1, 2, 3, 252, 253), heavy=True)],
    "ssa.Sig": [U("r", 32, big=True), U("s", 32, big=True)],
    "bms.Sig": [U("rf", 1, values=tuple(range(27, 43))), U("r", 32, big=True), U("s", 32, big=True)],
    "key_origin.BIP32KeyOrigin": [B("fp", 4), REST("path", 4)],
    "bip32.BIP32KeyData": [B("version", 4), U("depth", 1), B("parent_fp", 4), U("index", 4, big=True), B("chain_code", 32), B("key", 33)],
    "message.Message": [B("magic", 4), B("command", 12), U("length", 4), B("checksum", 4), REST("payload")],
}
# classes with a hand-written driver (no layout): their keys complete the generator list
CUSTOM = ["dsa.Sig", "ecies.Envelope", "borromean.BorromeanSig", "block_filter.BasicBlockFilter", "bip21.Bip21", "network.Network",
          "psbt.Psbt", "psbt_in.PsbtIn", "psbt_out.PsbtOut"]
DICT_CLASSES = ["key_origin.BIP32KeyOrigin", "block.Block", "block_header.BlockHeader", "network.Network", "psbt.Psbt", "psbt_in.PsbtIn",
                "psbt_out.PsbtOut", "witness.Witness", "out_point.OutPoint", "tx.Tx", "tx_in.TxIn", "tx_out.TxOut"]
PRIVATE_BASES = ["block_filters._FilterRangeRequest", "inventory._InventoryPayload", "inventory._LocatorPayload", "keepalive._NoncePayload"]
ALL_KEYS = sorted(set(LAYOUTS) | set(CUSTOM))

GROUPS = {
    "p2p-a": ["address.NetworkAddress", "address.TimestampedNetworkAddress", "address.Addr", "addrv2.NetworkAddressV2", "addrv2.AddrV2",
              "addrv2.SendAddrV2", "handshake.Version", "handshake.Verack", "message.Message"],
    "p2p-b": ["block_filters._FilterRangeRequest", "block_filters.GetCFilters", "block_filters.GetCFHeaders", "block_filters.CFilter",
              "block_filters.CFHeaders", "block_filters.GetCFCheckpt", "block_filters.CFCheckpt", "keepalive._NoncePayload", "keepalive.Ping",
              "keepalive.Pong", "negotiation.GetAddr", "negotiation.Mempool", "negotiation.SendHeaders", "negotiation.WtxidRelay",
              "negotiation.FeeFilter"],
    "p2p-c": ["inventory.Inventory", "inventory._InventoryPayload", "inventory.Inv", "inventory.GetData", "inventory.NotFound",
              "inventory._LocatorPayload", "inventory.GetBlocks", "inventory.GetHeaders", "inventory.Headers", "compact_blocks.SendCmpct",
              "compact_blocks.GetBlockTxn"],
    "p2p-d": ["compact_blocks.PrefilledTransaction", "compact_blocks.CmpctBlock", "compact_blocks.BlockTxn", "data.TxPayload",
              "data.BlockPayload"],
    "tx": ["out_point.OutPoint", "tx_in.TxIn", "tx_out.TxOut", "witness.Witness", "tx.Tx"],
    "block": ["block_header.BlockHeader", "block.Block"],
    "keys": ["ssa.Sig", "bms.Sig", "dsa.Sig", "key_origin.BIP32KeyOrigin", "bip32.BIP32KeyData", "ecies.Envelope", "borromean.BorromeanSig",
             "block_filter.BasicBlockFilter", "bip21.Bip21", "network.Network"],
}

MECH = [
    "btclib.utils:read_exactly", "btclib.utils:assert_no_trailing", "btclib.utils:bytesio_from_binarydata",
    "btclib.utils:fields_from_json_object", "btclib.utils:list_from_json_array", "btclib.utils:int_from_json_number",
    "btclib.var_int:parse", "btclib.var_int:_parse_number", "btclib.var_int:serialize", "btclib.var_int:_size",
    "btclib.var_bytes:parse", "btclib.var_bytes:serialize",
    "btclib.tx.tx:Tx.parse", "btclib.tx.tx:Tx.serialize", "btclib.tx.tx:Tx._serialized_size",
    "btclib.p2p.inventory:Headers.parse", "btclib.p2p.handshake:Version.parse", "btclib.p2p.handshake:Verack.parse",
    "btclib.psbt.psbt_utils:deserialize_map", "btclib.psbt.psbt:Psbt.parse", "btclib.psbt.psbt:Psbt.serialize",
    "btclib.psbt.psbt_in:PsbtIn.parse", "btclib.psbt.psbt_in:PsbtIn.serialize", "btclib.psbt.psbt_in:PsbtIn.to_dict",
    "btclib.psbt.psbt_in:PsbtIn.from_dict", "btclib.psbt.psbt_out:PsbtOut.parse", "btclib.psbt.psbt_out:PsbtOut.serialize",
    "btclib.bip32.bip32:BIP32KeyData.parse", "btclib.block.block_header:BlockHeader.parse", "btclib.ecc.bms:Sig.parse",
    "btclib.ecc.ssa:Sig.parse", "btclib.ecc.dsa:Sig.parse",
]


# --------------------------------------------------------------------- plan
def plan(tier: str, seed: int) -> list[dict]:
    q = tier == "quick"
    bud, tmo = (60, 500) if q else (520, 2400)
    specs = [{"name": "core", "fn": "shard_core", "_budget_s": bud, "_timeout_s": tmo}]
    parts = 1 if q else 3
    for g in GROUPS:
        for p in range(parts if g not in ("block",) else (1 if q else 2)):
            specs.append({"name": f"{g}-{p}", "fn": "shard_group", "group": g, "part": p, "_budget_s": bud, "_timeout_s": tmo})
    if q:
        specs.append({"name": "tx-1", "fn": "shard_group", "group": "tx", "part": 1, "_budget_s": bud, "_timeout_s": tmo})
    for p in range(2 if q else 4):
        specs.append({"name": f"psbt-vec-{p}", "fn": "shard_psbt_vectors", "part": p, "parts": 2 if q else 4, "_budget_s": bud, "_timeout_s": tmo})
    for p in range(2 if q else 5):
        specs.append({"name": f"psbt-gen-{p}", "fn": "shard_psbt_generated", "part": p, "_budget_s": bud, "_timeout_s": tmo})
    return specs


def finalize(m: dict, tier: str) -> list[str]:
    out = []
    c, mon, st, r, a, sel = m["classes"], m["monitors"], m["stats"], m["reached"], m["arms"], m["selftest"]
    for k in ("txcodec:block-merkle-roots", "txcodec:witness-commitment", "txcodec:tx_valid-writer", "psbtmap:vectors",
              "psbtmap:duplicate-key-vectors", "wirefmt:wiki-samples", "compact-size-table"):
        if not sel.get(k):
            out.append(f"oracle self-test {k} did not run")
    if not st.get("registry:discovered"):
        out.append("class registry was not built")
    for k in ALL_KEYS:
        if not st.get(f"registry:{k}"):
            out.append(f"generator list names {k} but introspection did not find it")
        if k == "network.Network":
            if not mon.get(f"json:{k}"):
                out.append(f"{k}: JSON round trip never evaluated")
            continue
        if not c.get(f"obj:{k}"):
            out.append(f"registry class {k}: no valid object was generated and round-tripped")
        if not mon.get(f"accepted:{k}"):
            out.append(f"registry class {k}: the parser accepted no byte string (bytes rule never evaluated)")
        if k not in ("bip21.Bip21",) and not c.get(f"mut:{k}"):
            out.append(f"registry class {k}: no mutant evaluated")
    for k in DICT_CLASSES:
        if not mon.get(f"json:{k}"):
            out.append(f"{k}: JSON round trip never evaluated")
    for k in ("var_int:roundtrip", "var_int:nonminimal", "var_bytes:roundtrip", "text:b58-xkey", "text:b64-psbt", "text:b64-bms", "text:b64-ecies",
              "text:b64-bip322", "kind:truncate", "kind:append", "kind:nonminimal", "kind:count+1", "kind:count-1", "kind:int-edit",
              "kind:segwit-all-empty-witness", "kind:segwit-flag", "kind:psbt-duplicate-key", "kind:psbt-reorder", "kind:psbt-unknown-key",
              "kind:psbt-sighash-0", "kind:psbt-v2-field-in-v0", "kind:psbt-empty-value", "kind:psbt-keydata-on-whole-value-key",
              "vendored:tx_valid", "vendored:block", "vendored:psbt", "m3:tx", "m3:block", "psbt:pairs", "psbt:fixed-point",
              "psbt:in-map", "psbt:out-map", "psbt:v0", "psbt:v2", "psbt:generated", "psbt:taproot-derivation-json"):
        if not c.get(k):
            out.append(f"input class {k} never evaluated")
    for k in ("check_validity=on", "check_validity=off"):
        if not a.get(k):
            out.append(f"arm {k} never exercised")
    for f in ("assert_no_trailing", "read_exactly", "_parse_number", "Tx.parse", "Tx._serialized_size", "Headers.parse", "Version.parse",
              "Verack.parse", "deserialize_map", "Psbt.parse", "Psbt.serialize", "PsbtIn.parse", "PsbtIn.serialize", "PsbtIn.from_dict",
              "PsbtOut.parse", "BIP32KeyData.parse", "BlockHeader.parse", "fields_from_json_object", "list_from_json_array"):
        if not r.get(f):
            out.append(f"mechanism {f} never entered")
    if not mon.get("M3:Tx.serialize"):
        out.append("M3 hook on Tx.serialize never evaluated")
    return out


# -------------------------------------------------------------------- world
class World:
    """btclib names (imported inside the shard) + generation helpers."""

    def __init__(self, ctx: Ctx):
        import importlib
        import inspect
        import pkgutil

        import btclib
        from btclib import var_bytes, var_int
        from btclib.exceptions import BTClibException

        self.ctx, self.rng = ctx, ctx.rng
        self.var_int, self.var_bytes, self.LibExc = var_int, var_bytes, BTClibException
        self.registry: dict[str, type] = {}
        self.import_failures = []
        for mi in pkgutil.walk_packages(btclib.__path__, "btclib."):
            try:
                mod = importlib.import_module(mi.name)
            except Exception as e:  # noqa: BLE001 - reported, the registry would be incomplete
                self.import_failures.append(f"{mi.name}: {e!r}")
                continue
            for n, c in vars(mod).items():
                if inspect.isclass(c) and c.__module__ == mod.__name__:
                    ps = hasattr(c, "parse") and hasattr(c, "serialize")
                    dj = hasattr(c, "to_dict") and hasattr(c, "from_dict")
                    if ps or dj:
                        self.registry[f"{mod.__name__.split('.')[-1]}.{n}"] = c
        g = self.registry.get
        self.Tx, self.TxIn, self.TxOut, self.OutPoint, self.Witness = g("tx.Tx"), g("tx_in.TxIn"), g("tx_out.TxOut"), g("out_point.OutPoint"), g("witness.Witness")
        self.BlockHeader, self.Block = g("block_header.BlockHeader"), g("block.Block")
        from btclib.script import ScriptPubKey

        self.ScriptPubKey = ScriptPubKey
        self._pool = None
        self.deadline = float("inf")

    def over(self) -> bool:
        """The current class's share of the shard budget is spent."""
        import time

        return time.time() > self.deadline

    # ---- secp256k1 points by the reference arithmetic (small pool, ~9 ms each)
    @property
    def pool(self):
        if self._pool is None:
            from ..ref import ec as rec

            E = rec.SECP256K1
            ks = [1, 2, 3, N - 1] + [self.rng.randrange(1, N) for _ in range(6)]
            self._pool = [E.mul(k, E.G) for k in ks]
        return self._pool

    def pub33(self, i=None):
        P = self.pool[self.rng.randrange(len(self.pool)) if i is None else i % len(self.pool)]
        return bytes([2 + (P[1] & 1)]) + P[0].to_bytes(32, "big")

    def xonly(self, i=None):
        return self.pub33(i)[1:]

    def rb(self, n):
        return self.rng.randbytes(n) if n else b""

    def blob(self, n):
        r = self.rng.random()
        return bytes(n) if r < 0.15 else b"\xff" * n if r < 0.3 else self.rb(n)

    # ---- library objects from reference values
    def tx(self, t: tc.RTx, cv: bool):
        vin = [self.TxIn(self.OutPoint(i.prev_hash[::-1], i.prev_n, check_validity=cv), i.script_sig, i.sequence,
                         self.Witness(i.witness, check_validity=cv), check_validity=cv) for i in t.vin]
        vout = [self.TxOut(o.value, self.ScriptPubKey(o.script, "mainnet", check_validity=False), check_validity=cv) for o in t.vout]
        return self.Tx(t.version, t.lock_time, vin, vout, check_validity=cv)

    def hdr(self, v, cv):
        from datetime import datetime, timezone

        return self.BlockHeader(v["version"], v["prev"][::-1], v["root"][::-1], datetime.fromtimestamp(v["time"], timezone.utc),
                                v["bits"][::-1], v["nonce"], check_validity=cv)

    def netaddr(self, v, cv):
        return self.registry["address.NetworkAddress"](v["services"], v["ip"], v["port"], check_validity=cv)


# ------------------------------------------------------- value generation
U32B = [0, 1, 2, 0x7FFFFFFF, 0x80000000, 0xFFFFFFFE, 0xFFFFFFFF]


def rand_rtx(w: World, big: str | None = None, valid: bool = True) -> tc.RTx:
    """A transaction in reference form; ``big`` asks for one boundary-size feature."""
    r = w.rng
    coinbase = r.random() < 0.12
    n_in = 1 if coinbase else r.choice([1, 1, 2, 3, 4])
    n_out = r.choice([1, 1, 2, 3, 5])
    if big == "vin252":
        n_in, coinbase = 252, False
    elif big == "vin253":
        n_in, coinbase = 253, False
    elif big == "vout252":
        n_out = 252
    elif big == "vout253":
        n_out = 253
    vin = []
    for k in range(n_in):
        ss_len = r.choice([0, 0, 1, 2, 23, 72, 107, 252, 253]) if big != "script65536" else r.choice([65535, 65536])
        if coinbase:
            vin.append(tc.RTxIn(bytes(32), 0xFFFFFFFF, w.rb(r.choice([2, 3, 50, 100])), r.choice(U32B)))
        else:
            h = w.rb(32) if k or r.random() < 0.9 else b"\x00" * 31 + b"\x01"
            vin.append(tc.RTxIn(h, r.choice(U32B + [r.getrandbits(32)]), w.blob(ss_len), r.choice(U32B + [r.getrandbits(32)])))
        if big == "script65536":
            big = None
    budget = 21 * 10**14
    vout = []
    for _ in range(n_out):
        val = r.choice([0, 1, 546, budget, max(0, budget - 1), r.randrange(10**9), r.randrange(budget + 1)])
        val = min(val, budget)
        budget -= val
        s_len = r.choice([0, 1, 22, 25, 34, 35, 80, 252, 253])
        vout.append(tc.RTxOut(val, w.blob(s_len)))
    r.shuffle(vout)
    if r.random() < 0.5 or big in ("wit252", "wit253", "wititem65536"):
        for i in vin:
            k = r.choice([0, 1, 2, 3])
            i.witness = [w.blob(r.choice([0, 1, 32, 64, 72, 252, 253])) for _ in range(k)]
        if not any(i.witness for i in vin):
            vin[r.randrange(n_in)].witness = [w.blob(r.choice([0, 1, 64]))]
        if big == "wit252":
            vin[0].witness = [w.blob(r.choice([0, 1, 2])) for _ in range(252)]
        elif big == "wit253":
            vin[0].witness = [w.blob(r.choice([0, 1, 2])) for _ in range(253)]
        elif big == "wititem65536":
            vin[-1].witness = [w.blob(65535), w.blob(65536)]
    t = tc.RTx(r.choice(U32B + [1, 2, 3]), vin, vout, r.choice(U32B + [499999999, 500000000]))
    if not valid:
        kind = r.randrange(5)
        if kind == 0 and len(vin) > 1:
            vin[1].prev_hash, vin[1].prev_n = vin[0].prev_hash, vin[0].prev_n       # same outpoint twice
        elif kind == 1:
            vout[0].value = r.choice([-1, 21 * 10**14 + 1, -(1 << 63), (1 << 63) - 1])
        elif kind == 2:
            t.vout = []
        elif kind == 3:
            t.vin = []
        else:
            vin[0].prev_hash, vin[0].prev_n = bytes(32), 0xFFFFFFFF                  # coinbase-like input among others / odd script size
            vin[0].script_sig = w.rb(r.choice([0, 1, 101]))
    return t


def rand_leaf(w: World, f, heavy_ok=False):
    r = w.rng
    if isinstance(f, U):
        return r.choice(f.bounds()) if r.random() < 0.5 else f.rand(r)
    if isinstance(f, B):
        return w.blob(f.size)
    if isinstance(f, VB):
        n = r.choice([0, 1, 2, 5, 20, 33]) if r.random() < 0.85 else r.choice([x for x in f.lens if x <= 600])
        return w.blob(n)
    if isinstance(f, CS):
        if f.small is not None:
            return r.randrange(f.small)
        return r.choice(f.values) if r.random() < 0.5 else r.getrandbits(r.choice([3, 8, 16, 32, 64]))
    if isinstance(f, TX):
        return rand_rtx(w)
    if isinstance(f, REST):
        return w.rb(f.unit * r.choice([0, 1, 2, 3, 10]))
    raise TypeError(f)


def rand_values(w: World, layout) -> dict:
    r = w.rng
    v = {}
    for f in layout:
        if isinstance(f, SUB):
            v[f.name] = rand_values(w, f.layout)
        elif isinstance(f, VEC):
            v[f.name] = [rand_values(w, f.elem) for _ in range(r.choice([0, 1, 1, 2, 3, 4]))]
        elif isinstance(f, OPT):
            v[f.name] = None if r.random() < 0.4 else rand_leaf(w, f.field)
        else:
            v[f.name] = rand_leaf(w, f)
    return v


def directives(layout, path=()):
    """Every (path, what) of the systematic boundary pass."""
    out = []
    for f in layout:
        p = path + (f.name,)
        if isinstance(f, U):
            out += [(p, ("set", b)) for b in f.bounds()]
        elif isinstance(f, CS):
            out += [(p, ("set", b)) for b in f.values]
        elif isinstance(f, VB):
            out += [(p, ("len", n)) for n in f.lens]
            if f.max_len is not None:
                out.append((p, ("len", f.max_len + 1)))
        elif isinstance(f, VEC):
            out += [(p, ("count", n)) for n in f.counts]
            if f.max_count is not None and f.max_count <= 2000:
                out.append((p, ("count", f.max_count + 1)))
            out += directives(f.elem, p + (0,))
        elif isinstance(f, SUB):
            out += directives(f.layout, p)
        elif isinstance(f, OPT):
            out += [(p, ("set", None))] + [(p, ("set", b)) for b in f.field.bounds()]
        elif isinstance(f, TX):
            out += [(p, ("tx", k)) for k in ("vin252", "vin253", "vout252", "vout253", "wit252", "wit253", "script65536", "wititem65536", "invalid")]
        elif isinstance(f, REST):
            out += [(p, ("len", n * f.unit)) for n in (0, 1, 63, 64, 255, 256)]
    return out


def _field_at(layout, name):
    return next(f for f in layout if f.name == name)


def apply_directive(w: World, layout, v, path, what):
    """Mutates ``v`` in place; returns False when the path does not exist in this value (empty vector)."""
    lay, cur = layout, v
    for i, step in enumerate(path[:-1]):
        if isinstance(step, int):
            if not cur:
                cur.append(rand_values(w, lay))
            cur = cur[0]
            continue
        f = _field_at(lay, step)
        cur = cur[step]
        lay = f.elem if isinstance(f, VEC) else f.layout
    name = path[-1]
    if isinstance(name, int):
        return False
    f = _field_at(lay, name)
    op, arg = what
    if op == "set":
        cur[name] = arg
    elif op == "len":
        cur[name] = w.blob(arg)
    elif op == "count":
        if f.heavy or arg > 300:    # a few distinct elements, cycled: the count is what is being tested
            elems = [rand_values(w, f.elem) for _ in range(min(arg, 3))]
            cur[name] = [dict(elems[i % len(elems)]) for i in range(arg)]
        else:
            cur[name] = [rand_values(w, f.elem) for _ in range(arg)]
    elif op == "tx":
        cur[name] = rand_rtx(w, valid=False) if arg == "invalid" else rand_rtx(w, big=arg)
    return True


# ---------------------------------------------- making values likely valid
def fix_hdr(w, h):
    r = w.rng
    if r.random() < 0.85:
        h["version"] = r.choice([1, 2, 4, 0x20000000, 0x7FFFFFFF, r.randrange(1, 1 << 31)])
        h["time"] = r.choice([GENESIS_TIME, GENESIS_TIME + 1, 0xFFFFFFFF, r.randrange(GENESIS_TIME, 1 << 32)])
        h["bits"] = bytes.fromhex(r.choice(["1d00ffff", "1b0404cb", "207fffff", "03123456", "1703a30c", "01010000", "2100ffff"]))[::-1]


def fix_addrv2(w, a):
    r = w.rng
    if r.random() < 0.7:
        nid = r.randrange(1, 8)
        a["network_id"] = nid
        a["address"] = w.blob({1: 4, 2: 16, 3: 10, 4: 32, 5: 32, 6: 16, 7: 16}[nid])
    elif a["network_id"] in range(1, 8):
        a["network_id"] = r.choice([0, 8, 9, 127, 128, 255])


def fix_values(w: World, key: str, v: dict) -> None:
    r = w.rng
    if key in ("block_header.BlockHeader",):
        fix_hdr(w, v)
    if "header" in v and isinstance(v["header"], dict):
        fix_hdr(w, v["header"])
    if key == "inventory.Headers":
        for e in v["headers"]:
            fix_hdr(w, e["header"])
    if key == "tx_out.TxOut" and r.random() < 0.8:
        v["value"] = r.choice([0, 1, 546, 21 * 10**14 - 1, 21 * 10**14, r.randrange(21 * 10**14)])
    if key == "addrv2.NetworkAddressV2":
        fix_addrv2(w, v)
    if key == "addrv2.AddrV2":
        for a in v["addresses"]:
            fix_addrv2(w, a)
    if key == "compact_blocks.CmpctBlock":
        k, m = len(v["prefilled"]), len(v["short_ids"])
        pos = sorted(r.sample(range(m + k), k)) if k else []
        prev = -1
        for e, p in zip(v["prefilled"], pos):
            e["diff"] = p - prev - 1
            prev = p
    if key in ("ssa.Sig", "bms.Sig"):
        if r.random() < 0.85:
            v["r"] = w.pool[r.randrange(len(w.pool))][0]
            v["s"] = r.choice([1, N - 1, r.randrange(1, N)])
    if key == "key_origin.BIP32KeyOrigin" and len(v["path"]) > 4 * 255:
        v["path"] = v["path"][: 4 * 255]
    if key == "bip32.BIP32KeyData":
        prv = r.random() < 0.5
        if r.random() < 0.9:
            v["version"] = bytes.fromhex(r.choice(["0488ade4", "04358394", "049d7878", "04b2430c", "044a4e28", "045f18bc"] if prv else
                                                  ["0488b21e", "043587cf", "049d7cb2", "04b24746", "044a5262", "045f1cf6"]))
            v["key"] = (b"\x00" + r.choice([1, N - 1, r.randrange(1, N)]).to_bytes(32, "big")) if prv else w.pub33()
            if v["depth"] == 0 and r.random() < 0.8:
                v["parent_fp"], v["index"] = bytes(4), 0
    if key == "message.Message":
        cmd = r.choice([b"version", b"verack", b"", b"a", b"abcdefghijkl", b"tx", b"getcfcheckpt", b" ~", b"inv"])
        v["command"] = cmd.ljust(12, b"\x00")
        v["length"] = len(v["payload"])
        v["checksum"] = tc.sha256d(v["payload"])[:4]


MAKERS = {
    "address.NetworkAddress": lambda w, c, v, cv: w.netaddr(v, cv),
    "address.TimestampedNetworkAddress": lambda w, c, v, cv: c(v["timestamp"], w.netaddr(v["address"], cv), check_validity=cv),
    "address.Addr": lambda w, c, v, cv: c([w.registry["address.TimestampedNetworkAddress"](e["timestamp"], w.netaddr(e["address"], cv), check_validity=cv)
                                           for e in v["addresses"]], check_validity=cv),
    "addrv2.NetworkAddressV2": lambda w, c, v, cv: c(v["timestamp"], v["services"], v["network_id"], v["address"], v["port"], check_validity=cv),
    "addrv2.AddrV2": lambda w, c, v, cv: c([w.registry["addrv2.NetworkAddressV2"](e["timestamp"], e["services"], e["network_id"], e["address"], e["port"],
                                                                                check_validity=cv) for e in v["addresses"]], check_validity=cv),
    "block_filters.CFilter": lambda w, c, v, cv: c(v["filter_type"], v["block_hash"][::-1], v["filter_bytes"], check_validity=cv),
    "block_filters.CFHeaders": lambda w, c, v, cv: c(v["filter_type"], v["stop_hash"][::-1], v["previous_filter_header"][::-1],
                                                     [e["h"][::-1] for e in v["filter_hashes"]], check_validity=cv),
    "block_filters.GetCFCheckpt": lambda w, c, v, cv: c(v["filter_type"], v["stop_hash"][::-1], check_validity=cv),
    "block_filters.CFCheckpt": lambda w, c, v, cv: c(v["filter_type"], v["stop_hash"][::-1], [e["h"][::-1] for e in v["filter_headers"]], check_validity=cv),
    "compact_blocks.SendCmpct": lambda w, c, v, cv: c(bool(v["announce"]), v["version"], check_validity=cv),
    "compact_blocks.PrefilledTransaction": lambda w, c, v, cv: c(v["diff"], w.tx(v["tx"], cv), check_validity=cv),
    "compact_blocks.GetBlockTxn": lambda w, c, v, cv: c(v["block_hash"][::-1], _undiff([e["diff"] for e in v["indexes"]]), check_validity=cv),
    "compact_blocks.BlockTxn": lambda w, c, v, cv: c(v["block_hash"][::-1], [w.tx(e["tx"], cv) for e in v["transactions"]], check_validity=cv),
    "data.TxPayload": lambda w, c, v, cv: c(w.tx(v["tx"], cv), v["tx"].has_witness, check_validity=cv),
    "handshake.Version": lambda w, c, v, cv: c(v["version"], v["services"], v["timestamp"], w.netaddr(v["addr_recv"], cv), w.netaddr(v["addr_from"], cv),
                                               v["nonce"], v["user_agent"], v["start_height"], None if v["relay"] is None else bool(v["relay"]),
                                               check_validity=cv),
    "inventory.Inventory": lambda w, c, v, cv: c(v["type"], v["hash"][::-1], check_validity=cv),
    "inventory.Headers": lambda w, c, v, cv: c([w.hdr(e["header"], cv) for e in v["headers"]], check_validity=cv),
    "negotiation.FeeFilter": lambda w, c, v, cv: c(v["feerate"], check_validity=cv),
    "out_point.OutPoint": lambda w, c, v, cv: c(v["tx_id"][::-1], v["vout"], check_validity=cv),
    "tx_in.TxIn": lambda w, c, v, cv: c(w.OutPoint(v["prev_out"]["tx_id"][::-1], v["prev_out"]["vout"], check_validity=cv), v["script_sig"],
                                        v["sequence"], check_validity=cv),
    "tx_out.TxOut": lambda w, c, v, cv: c(v["value"], w.ScriptPubKey(v["script"], "mainnet", check_validity=False), check_validity=cv),
    "witness.Witness": lambda w, c, v, cv: c([e["item"] for e in v["stack"]], check_validity=cv),
    "tx.Tx": lambda w, c, v, cv: w.tx(v["tx"], cv),
    "block_header.BlockHeader": lambda w, c, v, cv: w.hdr(v, cv),
    "block.Block": lambda w, c, v, cv: c(w.hdr(v["header"], cv), [w.tx(e["tx"], cv) for e in v["transactions"]], check_validity=cv),
    "ssa.Sig": lambda w, c, v, cv: c(v["r"], v["s"], check_validity=cv),
    "bms.Sig": lambda w, c, v, cv: c(v["rf"], w.registry["dsa.Sig"](v["r"], v["s"], check_validity=cv), check_validity=cv),
    "key_origin.BIP32KeyOrigin": lambda w, c, v, cv: c(v["fp"], [int.from_bytes(v["path"][i:i + 4], "little") for i in range(0, len(v["path"]), 4)],
                                                       check_validity=cv),
    "bip32.BIP32KeyData": lambda w, c, v, cv: c(v["version"], v["depth"], v["parent_fp"], v["index"], v["chain_code"], v["key"], check_validity=cv),
    "message.Message": lambda w, c, v, cv: c(v["magic"], v["command"].rstrip(b"\x00").decode("ascii"), v["payload"], check_validity=cv),
}
for _k in ("block_filters._FilterRangeRequest", "block_filters.GetCFilters", "block_filters.GetCFHeaders"):
    MAKERS[_k] = lambda w, c, v, cv: c(v["filter_type"], v["start_height"], v["stop_hash"][::-1], check_validity=cv)
for _k in ("inventory._InventoryPayload", "inventory.Inv", "inventory.GetData", "inventory.NotFound"):
    MAKERS[_k] = lambda w, c, v, cv: c([w.registry["inventory.Inventory"](e["type"], e["hash"][::-1], check_validity=cv) for e in v["items"]], check_validity=cv)
for _k in ("inventory._LocatorPayload", "inventory.GetBlocks", "inventory.GetHeaders"):
    MAKERS[_k] = lambda w, c, v, cv: c(v["version"], [e["h"][::-1] for e in v["locator"]], v["hash_stop"][::-1], check_validity=cv)
for _k in ("keepalive._NoncePayload", "keepalive.Ping", "keepalive.Pong"):
    MAKERS[_k] = lambda w, c, v, cv: c(v["nonce"], check_validity=cv)
for _k in ("addrv2.SendAddrV2", "handshake.Verack", "negotiation.GetAddr", "negotiation.Mempool", "negotiation.SendHeaders", "negotiation.WtxidRelay"):
    MAKERS[_k] = lambda w, c, v, cv: c(check_validity=cv)


def _mk_cmpct(w, c, v, cv):
    PT = w.registry["compact_blocks.PrefilledTransaction"]
    idx = _undiff([e["diff"] for e in v["prefilled"]])
    return c(w.hdr(v["header"], cv), v["nonce"], [e["id"] for e in v["short_ids"]],
             [PT(i, w.tx(e["tx"], cv), check_validity=cv) for i, e in zip(idx, v["prefilled"])], check_validity=cv)


def _mk_blockpayload(w, c, v, cv):
    blk = w.Block(w.hdr(v["header"], cv), [w.tx(e["tx"], cv) for e in v["transactions"]], check_validity=cv)
    return c(blk, blk.is_segwit, check_validity=cv)


MAKERS["compact_blocks.CmpctBlock"] = _mk_cmpct
MAKERS["data.BlockPayload"] = _mk_blockpayload


def _undiff(diffs):
    out, prev = [], -1
    for d in diffs:
        prev = prev + 1 + d
        out.append(prev)
    return out


# ----------------------------------------------------------------- mutators
def _is_prefix(kind: str) -> bool:
    return kind.startswith(("len:", "count:", "cs:"))


def generic_mutants(w: World, b: bytes, fields, cap: int):
    """Structure-aware mutants of a reference encoding, stratified per kind, at most ``cap``."""
    r = w.rng
    by_kind: dict[str, list] = {}

    def add(kind, m):
        if m != b:
            by_kind.setdefault(kind, []).append(m)

    fields = list(fields)
    limit = 150 if len(b) < 3000 else 40
    if len(fields) > limit:        # the head (counts, first element), the tail, and a sample of the middle
        head, tail = fields[: limit // 3], fields[-limit // 6:]
        fields = head + r.sample(fields[limit // 3: -limit // 6], limit // 2) + tail
    bounds = sorted({off for off, _, _ in fields} | {off + wd for off, wd, _ in fields})
    if len(bounds) > limit:
        bounds = sorted(r.sample(bounds, limit))
    for off in bounds:
        if off < len(b):
            add("truncate", b[:off])
    for off in r.sample(range(len(b)), min(len(b), 6)) if b else []:
        add("truncate-mid", b[:off])
    for n in range(1, 10):
        add("append", b + (bytes(n) if n % 3 == 0 else w.rb(n) if n % 3 == 1 else b"\x00\x01"[: n] * 1 + b"\x01" * max(0, n - 2)))
    for off, wd, kind in fields:
        if _is_prefix(kind):
            val, _, _ = tc.read_compact_size(b, off)
            for width in (3, 5, 9):
                if width > wd:
                    add("nonminimal", b[:off] + tc.ser_compact_size_width(val, width) + b[off + wd:])
            tag = "count" if kind.startswith(("count:", "cs:")) else "len"
            if val < (1 << 64) - 1:
                add(f"{tag}+1", b[:off] + tc.ser_compact_size(val + 1) + b[off + wd:])
            if val:
                add(f"{tag}-1", b[:off] + tc.ser_compact_size(val - 1) + b[off + wd:])
            if tag == "count":
                add("count-edit", b[:off] + tc.ser_compact_size(r.choice([252, 253, 0xFFFF, 0x10000, 0xFFFFFFFF, 1 << 32, (1 << 64) - 1])) + b[off + wd:])
        elif kind.startswith("int:") or kind.startswith(("tx.", "in.prev_n", "in.sequence", "out.value", "hdr.")) and wd <= 8:
            if wd == 1:
                for x in (0, 1, 2, 3, 0x7F, 0x80, 0xFF):
                    add("int-edit", b[:off] + bytes([x]) + b[off + 1:])
            else:
                for pat in (bytes(wd), b"\xff" * wd, b"\x00" * (wd - 1) + b"\x80", b"\xff" * (wd - 1) + b"\x7f", b"\x01" + bytes(wd - 1), bytes(wd - 1) + b"\x01"):
                    add("int-edit", b[:off] + pat + b[off + wd:])
        elif wd:
            k = off + r.randrange(wd)
            add("bytes-edit", b[:k] + bytes([b[k] ^ (1 << r.randrange(8))]) + b[k + 1:])
    for _ in range(3):
        if b:
            k = r.randrange(len(b))
            add("random-flip", b[:k] + bytes([r.randrange(256)]) + b[k + 1:])
    add("empty", b"")
    # stratified selection
    out = []
    kinds = sorted(by_kind)
    per = max(2, cap // max(1, len(kinds)))
    for k in kinds:
        lst = by_kind[k]
        if len(lst) > per:
            lst = r.sample(lst, per)
        out += [(k, m) for m in lst]
    return out


def tx_mutants(w: World, t: tc.RTx):
    """Segwit marker/flag edits of one transaction (reference form -> bytes)."""
    r = w.rng
    out = []
    stripped = t.ser(False)
    full = t.ser(True)
    nin = len(t.vin)
    body = stripped[4:-4]
    # a witness record whose stacks are all empty (BIP144: must be refused / never written)
    out.append(("segwit-all-empty-witness", stripped[:4] + b"\x00\x01" + body + b"\x00" * nin + stripped[-4:]))
    if t.has_witness:
        for flag in (0, 2, 3, 0x81, 0xFF):
            out.append(("segwit-flag", full[:5] + bytes([flag]) + full[6:]))
        out.append(("segwit-marker-without-witness", stripped[:4] + b"\x00\x01" + body + stripped[-4:]))
        out.append(("segwit-witness-without-marker", full[:4] + full[6:]))
        k = r.randrange(nin)
        wit = b"".join(tc.ser_compact_size(len(i.witness)) + b"".join(tc.ser_compact_size(len(x)) + x for x in i.witness) if j != k else b"\x00"
                       for j, i in enumerate(t.vin))
        out.append(("segwit-one-stack-emptied", stripped[:4] + b"\x00\x01" + body + wit + stripped[-4:]))
    else:
        out.append(("segwit-flag", stripped[:4] + b"\x00\x02" + body + b"\x00" * nin + stripped[-4:]))
        out.append(("segwit-one-item-added", stripped[:4] + b"\x00\x01" + body + b"\x01\x00" + b"\x00" * (nin - 1) + stripped[-4:]))
    return out


# ------------------------------------------------------------------- judging
class ClassDriver:
    """parse / serialize / dict access to one registry class, with the keyword quirks of some classes."""

    def __init__(self, w: World, key: str, cls=None, parse_kw=None, ser_kw=None):
        self.w, self.key = w, key
        self.cls = cls if cls is not None else w.registry[key]
        self.parse_kw, self.ser_kw = parse_kw or {}, ser_kw or {}
        self.has_dict = key in DICT_CLASSES
        self.is_tx = key == "tx.Tx"

    def parse(self, b, cv):
        return self.cls.parse(b, check_validity=cv, **self.parse_kw)

    def ser(self, o, cv):
        if self.is_tx:
            return o.serialize(include_witness=True, check_validity=cv)
        return o.serialize(check_validity=cv, **self.ser_kw)


def _exc_tag(e: BaseException) -> str:
    return f"{type(e).__name__}@{tb_origin(e)}"


def note_refusal(ctx: Ctx, what: str, e: BaseException) -> None:
    """Refusals are not judged here; a foreign exception type is recorded for C19's benefit."""
    if not is_lib_exc(e):
        ctx.stat(f"foreign-exception:{what}:{_exc_tag(e)}")


def bytes_rule(ctx: Ctx, d: ClassDriver, b: bytes, kind: str, cvs=(False, True)) -> bool:
    """parser accepts b  =>  serialize() == b.  Returns whether some arm accepted."""
    acc = False
    for cv in cvs:
        ctx.arm("check_validity=on" if cv else "check_validity=off")
        o = outcome(d.parse, b, cv)
        if o[0] == "raise":
            note_refusal(ctx, f"{d.key}.parse", o[1])
            continue
        acc = True
        ctx.mon(f"accepted:{d.key}")
        ctx.stat(f"accepted-kind:{kind}")
        s = outcome(d.ser, o[1], cv)
        case = {"class": d.key, "bytes": b, "kind": kind, "check_validity": cv}
        if s[0] == "raise":
            ctx.violation(f"{d.key}:accepted-then-serialize-raises:{kind}", f"{d.key}.parse accepted {len(b)} bytes ({kind}) but serialize raised {s[1]!r}", case)
        elif s[1] != b:
            show = (lambda x: x[:60].hex()) if isinstance(b, bytes) else (lambda x: x[:120])
            ctx.violation(f"{d.key}:accepted-bytes-not-reproduced:{kind}",
                          f"{d.key}.parse(check_validity={cv}) accepted a {kind} encoding of {len(b)} bytes and serialize() gave {len(s[1])} different bytes: "
                          f"in={show(b)} out={show(s[1])}", {**case, "reserialized": s[1]})
    return acc


def object_rule(ctx: Ctx, d: ClassDriver, obj, tag: str, sample=None) -> bytes | None:
    """valid object => parse(serialize(x)) == x, check_validity on and off; returns the serialization."""
    first = None
    for cv in (True, False):
        ctx.arm("check_validity=on" if cv else "check_validity=off")
        s = outcome(d.ser, obj, cv)
        if s[0] == "raise":
            if cv and is_lib_exc(s[1]):
                ctx.stat(f"obj-serialize-refused:{d.key}")
                return None
            ctx.violation(f"{d.key}:valid-object-serialize-raises", f"{d.key} ({tag}) serialize(check_validity={cv}) raised {s[1]!r}", {"class": d.key, "object": repr(obj)[:600]})
            return None
        b = bytes(s[1]) if not isinstance(s[1], str) else s[1]
        if first is None:
            first = b
        elif b != first:
            ctx.violation(f"{d.key}:serialize-depends-on-check_validity", f"{d.key} serializes differently with check_validity on/off", {"class": d.key, "on": first, "off": b})
        p = outcome(d.parse, b, cv)
        case = {"class": d.key, "bytes": b, "check_validity": cv, "tag": tag}
        if p[0] == "raise":
            ctx.violation(f"{d.key}:valid-object-not-parsed-back", f"{d.key} ({tag}): parse(serialize(x), check_validity={cv}) raised {p[1]!r}", case)
        elif not (p[1] == obj):
            ctx.violation(f"{d.key}:object-roundtrip-differs", f"{d.key} ({tag}): parse(serialize(x)) != x with check_validity={cv}: {repr(p[1])[:200]} vs {repr(obj)[:200]}", case)
    ctx.case(f"obj:{d.key}", (d.key, first), sample=sample if sample is not None else {"class": d.key, "serialized": first, "tag": tag})
    return first


def json_rule(ctx: Ctx, key: str, cls, obj, tag: str = "") -> None:
    """from_dict(json.loads(json.dumps(to_dict(x)))) == x, check_validity on and off."""
    for cv in (True, False):
        t = outcome(obj.to_dict, check_validity=cv)
        if t[0] == "raise":
            if is_lib_exc(t[1]):
                ctx.stat(f"json:to_dict-refused:{key}")
            else:
                ctx.violation(f"{key}:to_dict-foreign-exception:{_exc_tag(t[1])}", f"{key}.to_dict raised {t[1]!r} ({tag})", {"class": key, "object": repr(obj)[:600]})
            continue
        j = outcome(lambda: json.loads(json.dumps(t[1])))
        if j[0] == "raise":
            ctx.violation(f"{key}:to_dict-not-json", f"{key}.to_dict() is not JSON-serializable: {j[1]!r}", {"class": key, "dict": repr(t[1])[:600]})
            continue
        f = outcome(cls.from_dict, j[1], check_validity=cv)
        ctx.mon(f"json:{key}")
        if f[0] == "raise":
            how = "library-refusal" if is_lib_exc(f[1]) else f"{type(f[1]).__name__}"
            ctx.violation(f"{key}:from_dict-of-to_dict-raises:{how}", f"{key}.from_dict(json(to_dict(x)), check_validity={cv}) raised {f[1]!r} ({tag})",
                          {"class": key, "json": j[1]})
        elif not (f[1] == obj):
            ctx.violation(f"{key}:json-roundtrip-differs", f"{key}.from_dict(json(to_dict(x))) != x ({tag})", {"class": key, "json": j[1]})


def m3_tx(ctx: Ctx, tx, b_full: bytes | None = None, where: str = "tx") -> None:
    """size / weight / vsize / id / hash of a library Tx against the reference reader on its own bytes."""
    full = tx.serialize(include_witness=True, check_validity=False)
    ref = outcome(tc.read_tx, full)
    if ref[0] == "raise" or ref[1].end != len(full):
        ctx.stat("m3:reference-cannot-read-library-bytes")
        return
    t = ref[1]
    want = {"size": len(full), "weight": 3 * t.stripped_size() + len(full), "vsize": -(-(3 * t.stripped_size() + len(full)) // 4),
            "id": t.txid(), "hash": tc.sha256d(full)[::-1]}
    stripped = tx.serialize(include_witness=False, check_validity=False)
    if stripped != t.ser(False):
        ctx.violation("Tx:stripped-serialization-differs", "serialize(include_witness=False) is not the BIP144 stripped form of serialize(True)",
                      {"full": full, "stripped": stripped})
    for k, v in want.items():
        got = getattr(tx, k)
        if got != v:
            ctx.violation(f"Tx:{k}-not-of-the-bytes", f"Tx.{k} = {got!r} but the serialization gives {v!r} ({where}, {len(full)} bytes, segwit={t.has_marker})",
                          {"tx": full, "field": k})
    ctx.case("m3:tx", ("m3", full))


def m3_block(ctx: Ctx, blk, where: str) -> None:
    full = blk.serialize(include_witness=True, check_validity=False)
    ref = outcome(tc.read_block, full)
    if ref[0] == "raise" or ref[1].end != len(full):
        ctx.stat("m3:reference-cannot-read-library-bytes")
        return
    rb = ref[1]
    want = {"size": len(full), "stripped_size": rb.stripped_size(), "weight": rb.weight(), "vsize": -(-rb.weight() // 4)}
    for k, v in want.items():
        got = getattr(blk, k)
        if got != v:
            ctx.violation(f"Block:{k}-not-of-the-bytes", f"Block.{k} = {got} but the serialization gives {v} ({where})", {"block_prefix": full[:200], "field": k})
    if blk.header.hash != rb.hash():
        ctx.violation("BlockHeader:hash-not-of-the-bytes", f"header hash {blk.header.hash.hex()} vs {rb.hash().hex()}", {"header": full[:80]})
    if blk.serialize(include_witness=False, check_validity=False) != rb.ser(False):
        ctx.violation("Block:stripped-serialization-differs", "Block.serialize(False) is not the stripped form", {"block_prefix": full[:200]})
    ctx.case("m3:block", ("m3b", full[:80], len(full)))


def install_m3_hook(ctx: Ctx, w: World) -> None:
    """M3: on every Tx.serialize the workload makes, len(result) equals the reported size."""
    def make(orig):
        def wrapper(self, include_witness, *, check_validity=True):
            out = orig(self, include_witness, check_validity=check_validity)
            ctx.mon("M3:Tx.serialize")
            want = self._serialized_size(include_witness) if isinstance(include_witness, bool) else None
            if want is not None and want != len(out):
                ctx.violation("Tx:_serialized_size-not-len-of-serialize",
                              f"Tx._serialized_size({include_witness}) = {want} but serialize gave {len(out)} bytes (segwit={self.is_segwit})",
                              {"tx": out, "include_witness": include_witness})
            return out
        wrapper.__wrapped_original__ = orig
        return wrapper
    rebind_method(w.Tx, "serialize", make)


def start_reach():
    reach = Reach()
    for dpath in MECH:
        reach.watch_path(dpath)
    reach.start()
    return reach


# ------------------------------------------------------- layout-driven class
def run_layout_class(ctx: Ctx, w: World, key: str, budget_s: float, rounds: int) -> None:
    import time

    layout = LAYOUTS[key]
    cls = w.registry[key]
    if key in PRIVATE_BASES:
        # the private bases format their trailing-bytes message with cls.command, which only subclasses define:
        # observed (AttributeError on the bare base), then driven through a probe subclass that adds nothing else
        o = outcome(cls.parse, wf.write(layout, rand_values(w, layout)))
        if o[0] == "raise" and isinstance(o[1], AttributeError):
            ctx.stat(f"private-base-needs-command:{key}")
        cls = type(cls.__name__ + "Probe", (cls,), {"command": "probe"})
    d = ClassDriver(w, key, cls)
    make = MAKERS[key]
    t_end = time.time() + max(3.0, budget_s)     # every class is served a little even when the shard is late
    dirs = directives(layout)
    quick = ctx.tier == "quick"
    if quick and len(dirs) > 90:
        heavy = [x for x in dirs if x[1][0] in ("count", "len", "tx")]
        light = [x for x in dirs if x[1][0] not in ("count", "len", "tx")]
        dirs = heavy + w.rng.sample(light, min(len(light), 60))
    todo = [(p, what) for p, what in dirs] + [None] * rounds
    if not layout:
        todo = [None]
    cap = 40 if quick else 120
    for it, dr in enumerate(todo):
        if time.time() > t_end:
            ctx.notes.append(f"{key}: class budget reached after {it}/{len(todo)} values")
            break
        v = rand_values(w, layout)
        fix_values(w, key, v)
        tag = "random"
        if dr is not None:
            if not apply_directive(w, layout, v, dr[0], dr[1]):
                continue
            tag = f"{'.'.join(str(x) for x in dr[0])}={dr[1][0]}:{dr[1][1]}"
            if key == "message.Message" and dr[0][-1] == "payload":
                v["length"], v["checksum"] = len(v["payload"]), tc.sha256d(v["payload"])[:4]
        try:
            rb = wf.write(layout, v)
        except (tc.RefError, OverflowError, ValueError):
            ctx.stat("reference-writer-refused-values")
            continue
        try:
            _, fields, _ = wf.read_all(layout, rb)
        except tc.RefError:             # e.g. no inputs and one output: the bytes read as a segwit marker (BIP144's known ambiguity)
            ctx.stat("reference-encoding-ambiguous")
            fields = []
        mk = outcome(make, w, cls, v, True)
        if mk[0] == "raise":
            if not is_lib_exc(mk[1]):
                ctx.stat(f"foreign-exception:{key}.__init__:{_exc_tag(mk[1])}")
            ctx.stat(f"gen-invalid:{key}")
        else:
            obj = mk[1]
            sb = object_rule(ctx, d, obj, tag, sample={"class": key, "values": repr(wf.strip_tx(v))[:500], "encoding": rb[:300]})
            if sb is not None:
                ctx.stat("ref-encoding-agrees" if sb == rb else f"ref-encoding-differs:{key}")
            if d.has_dict:
                json_rule(ctx, key, d.cls, obj, tag)
            if key == "tx.Tx":
                m3_tx(ctx, obj, where=tag)
        bytes_rule(ctx, d, rb, "reference-encoding")
        big = len(rb) > 4000
        muts = generic_mutants(w, rb, fields, cap if not big else 12)
        if key in ("tx.Tx", "data.TxPayload") and "tx" in v:
            muts += tx_mutants(w, v["tx"])
        for kind, m in muts:
            if time.time() > t_end + 2:
                break
            ctx.case(f"mut:{key}", (key, m))
            ctx.classes[f"kind:{kind}"] += 1
            bytes_rule(ctx, d, m, kind, cvs=(False, True) if (it + len(m)) % 3 == 0 else (False,))


# ------------------------------------------------------- hand-written drivers
def _mut_loop(ctx: Ctx, w: World, d: ClassDriver, b: bytes, fields, extra=(), cap=40):
    for kind, m in list(generic_mutants(w, b, fields, cap)) + list(extra):
        ctx.case(f"mut:{d.key}", (d.key, m))
        ctx.classes[f"kind:{kind}"] += 1
        bytes_rule(ctx, d, m, kind, cvs=(False, True) if len(m) % 2 else (False,))


def run_dsa(ctx: Ctx, w: World, rounds: int) -> None:
    from ..ref import der
    from ..ref import ec as rec

    E = rec.SECP256K1
    d = ClassDriver(w, "dsa.Sig")
    r_small = [x for x in range(1, 400) if E.lift_x(x) is not None]
    rs = [r_small[0], max(x for x in r_small if x < 128), min(x for x in r_small if x >= 128), max(x for x in r_small if x < 256),
          min(x for x in r_small if x >= 256)] + [P[0] % N for P in w.pool if P[0] % N]
    ss = [1, 127, 128, 255, 256, (1 << 255) - 1, 1 << 255, N - 1, N // 2, N // 2 + 1]
    cases = [(r, s) for r in rs[:6] for s in ss] + [(w.rng.choice(rs), w.rng.randrange(1, N)) for _ in range(rounds)]
    for r, s in cases:
        if w.over():
            break
        rb = der.encode(r, s)
        lr = rb[3]
        fields = [(0, 1, "der.seq-tag"), (1, 1, "len:der.seq"), (2, 1, "der.int-tag"), (3, 1, "len:der.r"), (4, lr, "der.r"),
                  (4 + lr, 1, "der.int-tag"), (5 + lr, 1, "len:der.s"), (6 + lr, rb[5 + lr], "der.s")]
        mk = outcome(d.cls, r, s, check_validity=True)
        if mk[0] == "ok":
            sb = object_rule(ctx, d, mk[1], f"r={r.bit_length()}bits s={s.bit_length()}bits")
            ctx.stat("ref-encoding-agrees" if sb == rb else "ref-encoding-differs:dsa.Sig")
        else:
            ctx.stat("gen-invalid:dsa.Sig")
        bytes_rule(ctx, d, rb, "reference-encoding")
        rbytes, sbytes = rb[4:4 + lr], rb[6 + lr:]
        def seq(ri, si):
            body = b"\x02" + bytes([len(ri)]) + ri + b"\x02" + bytes([len(si)]) + si
            return b"\x30" + bytes([len(body)]) + body
        extra = [("der-zero-padded-r", seq(b"\x00" + rbytes, sbytes)), ("der-zero-padded-s", seq(rbytes, b"\x00" + sbytes)),
                 ("der-negative-r", seq(rbytes[1:] if rbytes[0] == 0 and len(rbytes) > 1 else b"\x80" + rbytes, sbytes)),
                 ("der-long-form-length", b"\x30\x81" + rb[1:]), ("der-junk-inside-sequence", rb[:1] + bytes([rb[1] + 1]) + rb[2:] + b"\x00"),
                 ("der-empty-integer", seq(b"", sbytes)), ("der-wrong-tag", b"\x31" + rb[1:]), ("der-sighash-byte-appended", rb + b"\x01")]
        _mut_loop(ctx, w, d, rb, fields, extra)
        # lax mode is lenient by documentation: a statistic, not a verdict
        for kind, m in extra[:4]:
            o = outcome(d.cls.parse, m, strict=False)
            if o[0] == "ok" and o[1].serialize() != m:
                ctx.stat("dsa.Sig:lax-parse-not-reproduced")


def run_envelope(ctx: Ctx, w: World, rounds: int) -> None:
    d = ClassDriver(w, "ecies.Envelope")
    for it in range(rounds):
        if w.over():
            break
        nblocks = [1, 2, 3, 16, 4096][it % 5] if it < 10 else w.rng.randrange(1, 9)
        parts = (b"BIE1", w.pub33(it), w.rb(16 * nblocks), w.blob(32))
        rb = b"".join(parts)
        fields = [(0, 4, "bytes:magic"), (4, 33, "bytes:eph_pub_key"), (37, 16 * nblocks, "rest:ciphertext"), (37 + 16 * nblocks, 32, "bytes:mac")]
        mk = outcome(d.cls, *parts, check_validity=True)
        if mk[0] == "ok":
            sb = object_rule(ctx, d, mk[1], f"{nblocks} blocks")
            ctx.stat("ref-encoding-agrees" if sb == rb else "ref-encoding-differs:ecies.Envelope")
            t = outcome(lambda: d.cls.b64decode(mk[1].b64encode()))
            if t[0] == "raise" or t[1] != mk[1] or mk[1].b64encode() != base64.b64encode(rb).decode():
                ctx.violation("ecies.Envelope:b64-roundtrip-differs", f"b64decode(b64encode(x)) -> {t[1]!r}", {"bytes": rb})
            ctx.case("text:b64-ecies", ("b64e", rb))
        else:
            ctx.stat("gen-invalid:ecies.Envelope")
        bytes_rule(ctx, d, rb, "reference-encoding")
        if len(rb) < 5000:
            _mut_loop(ctx, w, d, rb, fields)


def run_borromean(ctx: Ctx, w: World, rounds: int) -> None:
    key = "borromean.BorromeanSig"
    shapes = [(1,), (2,), (1, 1), (3, 2), (1, 2, 3), (252,), (253,), (2,) * 40]
    for it in range(rounds + len(shapes)):
        if w.over():
            break
        rsizes = shapes[it] if it < len(shapes) else tuple(w.rng.randrange(1, 5) for _ in range(w.rng.randrange(1, 5)))
        d = ClassDriver(w, key, parse_kw={"rsizes": rsizes})
        s = [[w.rng.choice([0, 1, N - 1, w.rng.randrange(N)]) for _ in range(k)] for k in rsizes]
        e0 = w.blob(32)
        rb = e0 + b"".join(x.to_bytes(32, "big") for ring in s for x in ring)
        fields = [(0, 32, "bytes:e0")] + [(32 + 32 * i, 32, "int:s") for i in range(sum(rsizes))]
        mk = outcome(d.cls, e0, s, check_validity=True)
        if mk[0] == "ok":
            sb = object_rule(ctx, d, mk[1], f"rings {rsizes[:6]}")
            ctx.stat("ref-encoding-agrees" if sb == rb else f"ref-encoding-differs:{key}")
        bytes_rule(ctx, d, rb, "reference-encoding")
        if len(rb) < 3000:
            _mut_loop(ctx, w, d, rb, fields[:12], cap=24)


def run_block_filter(ctx: Ctx, w: World, rounds: int) -> None:
    from ..ref import gcs

    key = "block_filter.BasicBlockFilter"
    counts = [0, 1, 2, 3, 10, 252, 253, 300]
    for it in range(rounds + len(counts)):
        if w.over():
            break
        n = counts[it] if it < len(counts) else w.rng.randrange(0, 40)
        block_hash = w.rb(32)                      # display order, as BasicBlockFilter holds it
        items = {w.rb(w.rng.randrange(1, 40)) for _ in range(n)}
        enc = gcs.construct_gcs(items, gcs.key_from_block_hash(block_hash[::-1]))
        rb = tc.ser_compact_size(len(items)) + enc
        d = ClassDriver(w, key, parse_kw={"block_hash": block_hash})
        fields = [(0, len(rb) - len(enc), "count:elements"), (len(rb) - len(enc), len(enc), "rest:encoded_set")]
        mk = outcome(d.cls, block_hash, len(items), enc, check_validity=True)
        if mk[0] == "ok":
            sb = object_rule(ctx, d, mk[1], f"{len(items)} elements")
            ctx.stat("ref-encoding-agrees" if sb == rb else f"ref-encoding-differs:{key}")
        else:
            ctx.stat(f"gen-invalid:{key}")
        bytes_rule(ctx, d, rb, "reference-encoding")
        if len(rb) < 4000:
            _mut_loop(ctx, w, d, rb, fields, cap=30)


def run_bip21(ctx: Ctx, w: World, rounds: int) -> None:
    from ..ref import base58 as r58

    key = "bip21.Bip21"
    d = ClassDriver(w, key)
    addrs = [r58.check_encode(b"\x00" + w.rb(20)), r58.check_encode(b"\x05" + w.rb(20)), r58.check_encode(b"\x6f" + w.rb(20)),
             "bc1qw508d6qejxtdg4y5r3zarvary0c5xw7kv8f3t4", "BC1QW508D6QEJXTDG4Y5R3ZARVARY0C5XW7KV8F3T4"]
    amounts = [None, "0", "1", "0.00000001", "21000000", "20999999.99999999", "1.10", "0.5", "100"]
    texts = [None, "", "a", "Luke-Jr", "with space", "amp&ersand=eq", "100%", "ünï cödé ✓", "#frag?", "a+b", "%41", "x" * 300]
    for it in range(rounds + 40):
        if w.over():
            break
        r = w.rng
        others = {}
        for _ in range(r.choice([0, 0, 1, 2])):
            others[r.choice(["lightning", "pj", "pjos", "x-y", "k k", "ké", "Amount2"])] = r.choice([t for t in texts if t is not None])
        args = (addrs[it % len(addrs)], amounts[it % len(amounts)] if it < 27 else r.choice(amounts), r.choice(texts), r.choice(texts), others)
        mk = outcome(d.cls, *args, check_validity=True)
        if mk[0] == "raise":
            ctx.stat(f"gen-invalid:{key}")
            continue
        uri = object_rule(ctx, d, mk[1], "uri", sample={"class": key, "args": repr(args)[:300]})
        if uri is not None:
            # its own output is the one text whose reproduction is owed
            bytes_rule(ctx, d, uri, "own-serialization", cvs=(True, False))
            for variant in (uri.replace("bitcoin:", "BITCOIN:"), uri + "#f", uri.replace("?", "?&", 1)):
                o = outcome(d.parse, variant, True)
                if o[0] == "ok" and o[1].serialize() != variant:
                    ctx.stat("bip21:lenient-text-not-reproduced")


def run_network(ctx: Ctx, w: World) -> None:
    from btclib.network import NETWORKS

    cls = w.registry["network.Network"]
    for name, net in NETWORKS.items():
        json_rule(ctx, "network.Network", cls, net, name)
        ctx.case("obj:network.Network", ("net", name), sample={"class": "network.Network", "name": name})


CUSTOM_RUNNERS = {"dsa.Sig": run_dsa, "ecies.Envelope": run_envelope, "borromean.BorromeanSig": run_borromean,
                  "block_filter.BasicBlockFilter": run_block_filter, "bip21.Bip21": run_bip21}


# ------------------------------------------------------------ vendored corpora
def vendored_txs():
    out = []
    for fn in ("tx_valid.json", "tx_invalid.json"):
        for row in json.load(open(os.path.join(VECDIR, fn))):
            if len(row) == 3 and isinstance(row[1], str):
                try:
                    out.append((fn, bytes.fromhex(row[1])))
                except ValueError:
                    pass
    return out


def run_vendored_txs(ctx: Ctx, w: World, part: int, parts: int) -> None:
    d = ClassDriver(w, "tx.Tx")
    dp = ClassDriver(w, "data.TxPayload")
    txs = vendored_txs()
    for i, (fn, b) in enumerate(txs):
        if i % parts != part or ctx.out_of_time():
            continue
        ref = outcome(tc.read_tx, b)
        acc = bytes_rule(ctx, d, b, f"vendored:{fn}")
        bytes_rule(ctx, dp, b, f"vendored:{fn}", cvs=(False,))
        ctx.case("vendored:tx_valid", ("vtx", b), sample={"file": fn, "tx": b})
        if not acc or ref[0] == "raise":
            continue
        o = outcome(d.parse, b, False)
        if o[0] == "ok":
            m3_tx(ctx, o[1], where=f"vendored {fn}")
            json_rule(ctx, "tx.Tx", d.cls, o[1], f"vendored {fn}") if outcome(o[1].assert_valid)[0] == "ok" else None
        t = ref[1]
        if t.end == len(b):
            muts = generic_mutants(w, b, t.fields, 30) + tx_mutants(w, t)
            for kind, m in muts:
                ctx.case("mut:tx.Tx", ("tx.Tx", m))
                ctx.classes[f"kind:{kind}"] += 1
                bytes_rule(ctx, d, m, kind, cvs=(False,))


def run_vendored_blocks(ctx: Ctx, w: World) -> None:
    d = ClassDriver(w, "block.Block")
    dh = ClassDriver(w, "block_header.BlockHeader")
    dp = ClassDriver(w, "data.BlockPayload")
    files = ["block_200000.bin"] + (["block_481824_complete.bin"] if ctx.tier != "quick" or ctx.params.get("part", 0) == 0 else [])
    for fn in files:
        b = open(os.path.join(VECDIR, fn), "rb").read()
        ctx.case("vendored:block", ("vb", fn), sample={"file": fn, "bytes": len(b)})
        bytes_rule(ctx, d, b, f"vendored:{fn}")
        bytes_rule(ctx, dh, b[:80], f"vendored:{fn}")
        bytes_rule(ctx, dp, b, f"vendored:{fn}", cvs=(False,))
        o = outcome(d.parse, b, True)
        if o[0] == "raise":
            ctx.stat(f"vendored-block-refused:{fn}")
            continue
        blk = o[1]
        object_rule(ctx, d, blk, f"vendored {fn}", sample={"class": "block.Block", "file": fn})
        object_rule(ctx, dh, blk.header, f"vendored {fn}")
        BP = w.registry["data.BlockPayload"]
        object_rule(ctx, dp, BP(blk, blk.is_segwit), f"vendored {fn}", sample={"class": "data.BlockPayload", "file": fn})
        m3_block(ctx, blk, fn)
        if len(b) < 400000 or ctx.tier != "quick":
            json_rule(ctx, "block.Block", d.cls, blk, fn)
        json_rule(ctx, "block_header.BlockHeader", dh.cls, blk.header, fn)
        for k, tx in enumerate(blk.transactions):
            if k % (7 if ctx.tier == "quick" else 2) == 0 and not ctx.out_of_time():
                m3_tx(ctx, tx, where=f"{fn}[{k}]")
        # block-level mutants: header fields, the count, a few transaction boundaries, marker edits of one transaction
        rbk = tc.read_block(b)
        keep = [f for f in rbk.fields if f[2].startswith(("hdr.", "count:block"))] + rbk.fields[7:40]
        for kind, m in generic_mutants(w, b, keep, 24):
            if ctx.out_of_time():
                break
            ctx.case("mut:block.Block", ("block.Block", len(m), kind, hashlib.sha256(m).digest()))
            ctx.classes[f"kind:{kind}"] += 1
            bytes_rule(ctx, d, m, kind, cvs=(False,))
        # the same, on a three-transaction cut of the block (cheap to parse, so many more mutants)
        small_txs = rbk.txs[:3]
        sb = rbk.header + b"\x03" + b"".join(t.ser(True) for t in small_txs) if len(rbk.txs) >= 3 else None
        if sb:
            sf = tc.read_block(sb).fields
            bytes_rule(ctx, d, sb, "block-cut", cvs=(False,))
            for kind, m in generic_mutants(w, sb, sf, 80):
                ctx.case("mut:block.Block", ("block.Block", m))
                ctx.classes[f"kind:{kind}"] += 1
                bytes_rule(ctx, d, m, kind, cvs=(False,))
                bytes_rule(ctx, dp, m, kind, cvs=(False,))


# ------------------------------------------------------------------- shards
def shard_group(ctx: Ctx) -> None:
    w = World(ctx)
    install_m3_hook(ctx, w)
    reach = start_reach()
    group, part = ctx.params["group"], ctx.params["part"]
    keys = GROUPS[group]
    quick = ctx.tier == "quick"
    if group == "tx":
        run_vendored_txs(ctx, w, part, 2 if quick else 3)
    elif group == "block":
        run_vendored_blocks(ctx, w)
    import time

    for n_done, key in enumerate(keys):
        per = max(3.0, ctx.time_left() / (len(keys) - n_done))
        rounds = (150 if quick else 3000)
        if key in CUSTOM_RUNNERS:
            w.deadline = time.time() + per
            CUSTOM_RUNNERS[key](ctx, w, rounds)
            w.deadline = float("inf")
        elif key == "network.Network":
            run_network(ctx, w)
        else:
            run_layout_class(ctx, w, key, per, rounds)
    reach.stop()
    reach.report(ctx)


# ----------------------------------------------------------------- self-tests
def _walk_strings(x):
    if isinstance(x, str):
        yield x
    elif isinstance(x, dict):
        for v in x.values():
            yield from _walk_strings(v)
    elif isinstance(x, list):
        for v in x:
            yield from _walk_strings(v)


PSBT_FILES = ["bip174_test_vectors.json", "bip370_test_vectors.json", "bip371_test_vectors.json", "bip373_test_vectors.json",
              "bip375_test_vectors.json", "btclib_test_vectors.json"]


def vendored_psbts() -> list[tuple[str, bytes]]:
    """Every string of the PSBT vector files that decodes (base64 or hex) to something starting with the magic."""
    out, seen = [], set()
    for fn in PSBT_FILES:
        for s in _walk_strings(json.load(open(os.path.join(VECDIR, fn)))):
            if len(s) < 16:
                continue
            b = None
            if s.startswith("cHNidP"):
                try:
                    b = base64.b64decode(s, validate=True)
                except ValueError:
                    b = None
            elif s.lower().startswith("70736274ff"):
                try:
                    b = bytes.fromhex(s)
                except ValueError:
                    b = None
            if b is not None and b not in seen:
                seen.add(b)
                out.append((fn, b))
    return out


def selftest(ctx: Ctx) -> None:
    # --- CompactSize table and wiki samples
    d = json.load(open(os.path.join(VECDIR, "p2p_wiki_samples.json")))
    ok = 0
    for v, hx in d["compact_size"]:
        enc = bytes.fromhex(hx)
        if tc.ser_compact_size(v) != enc or tc.read_compact_size(enc, 0) != (v, len(enc), True):
            ctx.oracle_broken("compact-size-table", str(v))
        else:
            ok += 1
    ctx.oracle_ok("compact-size-table", ok)
    msg = bytes.fromhex(d["version_message"])
    try:
        env, _, canon = wf.read_all(LAYOUTS["message.Message"], msg)
        ver, _, canon2 = wf.read_all(LAYOUTS["handshake.Version"], env["payload"])
        want = d["version_fields"]
        good = (canon and canon2 and env["magic"].hex() == "f9beb4d9" and env["command"].rstrip(b"\x00") == b"version" and env["length"] == len(env["payload"])
                and env["checksum"] == tc.sha256d(env["payload"])[:4] and all(ver[k] == want[k] for k in ("version", "services", "timestamp", "nonce", "start_height"))
                and ver["user_agent"].decode() == want["user_agent"] and ver["relay"] is None
                and wf.write(LAYOUTS["handshake.Version"], ver) == env["payload"])
        va = bytes.fromhex(d["verack_message"])
        env2, _, c3 = wf.read_all(LAYOUTS["message.Message"], va)
        good = good and c3 and env2["payload"] == b"" and env2["checksum"] == tc.sha256d(b"")[:4]
    except (tc.RefError, KeyError) as e:
        good = False
        ctx.notes.append(f"wirefmt self-test: {e!r}")
    if good:
        ctx.oracle_ok("wirefmt:wiki-samples", 2)
    else:
        ctx.oracle_broken("wirefmt:wiki-samples")
    # --- txcodec: writer == reader on Core's tx_valid.json, merkle roots and witness commitment of real blocks
    n = bad = 0
    for fn, b in vendored_txs():
        if fn != "tx_valid.json":
            continue
        try:
            t = tc.read_tx(b)
            if t.end != len(b) or t.ser(True) != b or (not t.has_marker and t.ser(False) != b):
                bad += 1
        except tc.RefError:
            bad += 1
        n += 1
    if bad or not n:
        ctx.oracle_broken("txcodec:tx_valid-writer", f"{bad}/{n}")
    else:
        ctx.oracle_ok("txcodec:tx_valid-writer", n)
    roots = 0
    for fn in ("block_200000.bin", "block_481824_complete.bin"):
        b = open(os.path.join(VECDIR, fn), "rb").read()
        try:
            blk = tc.read_block(b)
            if blk.end != len(b) or blk.ser(True) != b or tc.merkle_root([t.txid() for t in blk.txs]) != blk.merkle_root_field:
                ctx.oracle_broken("txcodec:block-merkle-roots", fn)
            else:
                roots += len(blk.txs)
            if fn.startswith("block_481824"):
                wc = tc.witness_commitment(blk)
                if wc is None or wc == b"mismatch":
                    ctx.oracle_broken("txcodec:witness-commitment", fn)
                else:
                    ctx.oracle_ok("txcodec:witness-commitment", len(blk.txs))
                if blk.weight() > 4_000_000 or blk.total_size() != len(b):
                    ctx.oracle_broken("txcodec:block-weight", fn)
        except tc.RefError as e:
            ctx.oracle_broken("txcodec:block-merkle-roots", f"{fn} {e}")
    if roots:
        ctx.oracle_ok("txcodec:block-merkle-roots", roots)
    # --- psbtmap on the BIP vectors
    n = 0
    for fn, b in vendored_psbts():
        try:
            p = pm.parse(b)
        except tc.RefError:
            continue        # the invalid vectors include truncated ones: nothing to learn from them
        if p.ser() != b and p.minimal:
            ctx.oracle_broken("psbtmap:vectors", f"{fn}: writer != reader")
        c = p.declared_counts()
        if c is not None and not p.has_duplicate_keys() and len(p.maps) == 1 + c[0] + c[1]:
            n += 1
    if n < 40:
        ctx.oracle_broken("psbtmap:vectors", f"only {n} vectors with 1 + inputs + outputs maps")
    else:
        ctx.oracle_ok("psbtmap:vectors", n)
    dups = 0
    for item in json.load(open(os.path.join(VECDIR, "bip174_test_vectors.json"))).get("invalid psbts", []):
        try:
            p = pm.parse(base64.b64decode(item["encoded psbt"]))
            dups += p.has_duplicate_keys()
        except (tc.RefError, ValueError, KeyError):
            pass
    # BIP174 lists one invalid vector whose input map repeats a key
    if dups >= 1:
        ctx.oracle_ok("psbtmap:duplicate-key-vectors", dups)
    else:
        ctx.oracle_broken("psbtmap:duplicate-key-vectors", "the duplicate-key vector of BIP174 was not recognised")
    # --- base58 reference on the published encode/decode list
    from ..ref import base58 as r58

    n = 0
    for hx, s in json.load(open(os.path.join(VECDIR, "base58_encode_decode.json"))):
        if r58.b58encode(bytes.fromhex(hx)) != s:
            ctx.oracle_broken("base58", hx)
        n += 1
    ctx.oracle_ok("base58", n)


def run_var_int(ctx: Ctx, w: World) -> None:
    from io import BytesIO

    vi, vb = w.var_int, w.var_bytes
    big = 0xFFFFFFFFFFFFFFFF

    def check_stream(b: bytes, what: str):
        """var_int.parse reads a prefix of a stream: if it answers v, the bytes consumed are serialize(v)."""
        st = BytesIO(b)
        o = outcome(vi.parse, st, big)
        if o[0] == "raise":
            note_refusal(ctx, "var_int.parse", o[1])
            return None
        used = b[: st.tell()]
        s = outcome(vi.serialize, o[1])
        if s[0] == "raise" or s[1] != used:
            ctx.violation(f"var_int:accepted-bytes-not-reproduced:{what}", f"var_int.parse consumed {used.hex()} -> {o[1]} but serialize gives {s[1]!r}",
                          {"bytes": b, "value": o[1]})
        ctx.mon("accepted:var_int")
        return o[1]

    # every one-byte lead with eight following bytes; every three-byte encoding (exhaustive)
    for lead in range(256):
        for tail in (bytes(8), b"\xff" * 8, b"\x01" + bytes(7), bytes(7) + b"\x01", b"\xfd" + bytes(7)):
            check_stream(bytes([lead]) + tail, "lead-byte")
    ctx.bulk("var_int:roundtrip", 256 * 5)
    nonmin = 0
    for v in range(65536):
        got = check_stream(b"\xfd" + v.to_bytes(2, "little"), "nonminimal" if v < 253 else "3-byte")
        if v < 253:
            nonmin += 1
            if got is not None:
                pass   # already judged by the bytes rule (serialize(v) is one byte, three were consumed)
    ctx.bulk("var_int:nonminimal", nonmin)
    ctx.bulk("var_int:roundtrip", 65536 - nonmin)
    ctx.exhaustive.append("var_int.parse on every 3-byte CompactSize encoding (65536) and every lead byte")
    vals = [0, 1, 252, 253, 254, 255, 256, 0xFFFE, 0xFFFF, 0x10000, 0x10001, 0xFFFFFFFE, 0xFFFFFFFF, 0x100000000, 0x100000001, big - 1, big]
    vals += [w.rng.getrandbits(w.rng.choice([8, 16, 17, 32, 33, 64])) for _ in range(300)]
    for v in vals:
        enc = tc.ser_compact_size(v)
        s = outcome(vi.serialize, v)
        if s[0] == "raise" or s[1] != enc:
            ctx.violation("var_int:serialize-not-compactsize", f"var_int.serialize({v}) = {s[1]!r}, CompactSize is {enc.hex()}", {"value": v})
        p = outcome(vi.parse, enc, big)
        if p[0] == "raise" or p[1] != v:
            ctx.violation("var_int:value-not-parsed-back", f"var_int.parse(serialize({v})) -> {p[1]!r}", {"value": v})
        if vi._size(v) != len(enc):
            ctx.violation("var_int:_size-not-len", f"var_int._size({v}) = {vi._size(v)} for {len(enc)} bytes", {"value": v})
        ctx.case("var_int:roundtrip", ("vi", v), sample={"value": v, "encoding": enc})
        for width in (3, 5, 9):
            if width > len(enc):
                check_stream(tc.ser_compact_size_width(v, width) + b"\x00", "nonminimal")
                ctx.case("var_int:nonminimal", ("vin", v, width))
        for cut in range(len(enc)):
            check_stream(enc[:cut], "truncated")
    for v in (-1, big + 1, 1 << 70):
        o = outcome(vi.serialize, v)
        if o[0] == "ok":
            ctx.violation("var_int:out-of-range-serialized", f"var_int.serialize({v}) = {o[1].hex()}", {"value": v})
    # var_bytes
    for n in [0, 1, 2, 252, 253, 254, 65535, 65536, 70000] + [w.rng.randrange(600) for _ in range(60)]:
        data = w.blob(n)
        enc = tc.ser_compact_size(n) + data
        s = outcome(vb.serialize, data)
        if s[0] == "raise" or s[1] != enc:
            ctx.violation("var_bytes:serialize-not-prefixed", f"var_bytes.serialize of {n} bytes differs from CompactSize(n)|data", {"n": n})
        for tail in (b"", b"\x00", w.rb(3)):
            st = BytesIO(enc + tail)
            p = outcome(vb.parse, st)
            if p[0] == "raise" or p[1] != data or st.tell() != len(enc):
                ctx.violation("var_bytes:value-not-parsed-back", f"var_bytes.parse of a {n}-byte string -> {p[1]!r:.80}", {"n": n})
        if vb._size(data) != len(enc):
            ctx.violation("var_bytes:_size-not-len", f"var_bytes._size = {vb._size(data)} for {len(enc)} bytes", {"n": n})
        ctx.case("var_bytes:roundtrip", ("vb", n, data[:8]), sample={"length": n})
        for width in (3, 5, 9):
            if width > len(enc) - n:
                st = BytesIO(tc.ser_compact_size_width(n, width) + data)
                p = outcome(vb.parse, st)
                if p[0] == "ok":
                    ctx.violation("var_bytes:accepted-bytes-not-reproduced:nonminimal", f"var_bytes.parse read a {width}-byte length prefix for {n} bytes", {"n": n, "width": width})
                ctx.classes["kind:nonminimal"] += 1
        if n:
            p = outcome(vb.parse, enc[:-1])
            if p[0] == "ok":
                ctx.violation("var_bytes:short-read-accepted", f"var_bytes.parse answered {len(p[1])} bytes for a prefix announcing {n}", {"n": n})


def run_text_forms(ctx: Ctx, w: World) -> None:
    from ..ref import base58 as r58

    # ---- extended keys in base58check
    K = w.registry["bip32.BIP32KeyData"]
    vecs = json.load(open(os.path.join(VECDIR, "bip32_test_vectors.json")))
    texts = sorted({s for s in _walk_strings(vecs) if s[:4] in ("xpub", "xprv", "tpub", "tprv")})
    for it in range(40):
        v = rand_values(w, LAYOUTS["bip32.BIP32KeyData"])
        fix_values(w, "bip32.BIP32KeyData", v)
        texts.append(r58.check_encode(wf.write(LAYOUTS["bip32.BIP32KeyData"], v)))
    for t in texts:
        raw = r58.check_decode(t)
        for cv in (True, False):
            o = outcome(K.b58decode, t, check_validity=cv)
            if o[0] == "raise":
                note_refusal(ctx, "BIP32KeyData.b58decode", o[1])
                continue
            ctx.mon("accepted:text-b58-xkey")
            e = outcome(o[1].b58encode, check_validity=cv)
            if e[0] == "raise" or e[1] != t:
                ctx.violation("BIP32KeyData:accepted-b58-not-reproduced", f"b58decode accepted {t[:30]}.. and b58encode gave {e[1]!r:.60}", {"text": t})
            if raw is not None and o[1].serialize(check_validity=False) != raw:
                ctx.violation("BIP32KeyData:b58-payload-differs", "b58decode(t).serialize() is not the base58check payload of t", {"text": t})
            b = outcome(K.b58decode, o[1].b58encode(check_validity=cv), check_validity=cv)
            if b[0] == "raise" or b[1] != o[1]:
                ctx.violation("BIP32KeyData:b58-object-roundtrip-differs", f"b58decode(b58encode(x)) -> {b[1]!r:.80}", {"text": t})
        ctx.case("text:b58-xkey", ("b58", t), sample={"xkey": t})
        # wrong checksum / one more payload byte: if accepted they must still be reproduced
        for kind, m in (("b58-extra-byte", r58.check_encode((raw or b"") + b"\x00")), ("b58-bad-checksum", t[:-1] + ("1" if t[-1] != "1" else "2"))):
            o = outcome(K.b58decode, m, check_validity=False)
            if o[0] == "ok" and o[1].b58encode(check_validity=False) != m:
                ctx.violation(f"BIP32KeyData:accepted-b58-not-reproduced:{kind}", f"b58decode accepted a {kind} text", {"text": m})
    # ---- message signatures (bms) in base64
    S, D = w.registry["bms.Sig"], w.registry["dsa.Sig"]
    for it in range(40):
        rf = 27 + it % 16
        r, s = w.pool[it % len(w.pool)][0] % N, w.rng.randrange(1, N)
        raw = bytes([rf]) + r.to_bytes(32, "big") + s.to_bytes(32, "big")
        t = base64.b64encode(raw).decode()
        o = outcome(S.b64decode, t)
        if o[0] == "ok":
            if o[1].b64encode() != t or o[1] != S(rf, D(r, s)):
                ctx.violation("bms.Sig:b64-roundtrip-differs", f"b64decode({t}) -> {o[1]!r:.80}", {"text": t})
            ctx.case("text:b64-bms", ("b64bms", t), sample={"bms": t})
        else:
            note_refusal(ctx, "bms.Sig.b64decode", o[1])
    # ---- BIP322 signatures: object -> text -> object
    from btclib.bip322 import Sig as Sig322

    payloads = [w.Witness([w.rb(64), w.rb(33)]), w.Witness([]), w.tx(rand_rtx(w), True), w.tx(rand_rtx(w), True)]
    for fn, b in vendored_psbts()[:6]:
        o = outcome(w.registry["psbt.Psbt"].parse, b)
        if o[0] == "ok":
            payloads.append(o[1])
    for pl in payloads:
        x = Sig322(pl)
        t = outcome(x.b64encode)
        if t[0] == "raise":
            ctx.stat("bip322:b64encode-refused")
            continue
        back = outcome(Sig322.b64decode, t[1])
        if back[0] == "raise" or back[1] != x or back[1].b64encode() != t[1]:
            ctx.violation("bip322.Sig:b64-roundtrip-differs", f"b64decode(b64encode(x)) -> {back[1]!r:.100}", {"text": t[1]})
        ctx.case("text:b64-bip322", ("b322", t[1]), sample={"bip322": t[1][:120]})


def shard_core(ctx: Ctx) -> None:
    selftest(ctx)
    w = World(ctx)
    reach = start_reach()
    for f in w.import_failures:
        ctx.inconclusive_(f"btclib module failed to import, registry incomplete: {f}")
    ctx.stats["registry:discovered"] = len(w.registry)
    for k in sorted(w.registry):
        ctx.stats[f"registry:{k}"] = 1
        if k not in ALL_KEYS:
            ctx.stats[f"uncovered:{k}"] = 1
            ctx.inconclusive_(f"registry class {k} has no generator (introspected list differs from the generator list)")
    for k in ALL_KEYS:
        if k not in w.registry:
            ctx.inconclusive_(f"generator list names {k} which introspection did not find")
    for k in DICT_CLASSES:
        c = w.registry.get(k)
        if c is not None and not (hasattr(c, "to_dict") and hasattr(c, "from_dict")):
            ctx.inconclusive_(f"{k} lost its to_dict/from_dict pair")
    for k, c in w.registry.items():
        if hasattr(c, "to_dict") and hasattr(c, "from_dict") and k not in DICT_CLASSES:
            ctx.inconclusive_(f"{k} has a to_dict/from_dict pair that no JSON monitor covers")
    ctx.sample("registry", {"classes": len(w.registry), "with_dict": len(DICT_CLASSES), "names": sorted(w.registry)[:70]})
    run_var_int(ctx, w)
    run_text_forms(ctx, w)
    reach.stop()
    reach.report(ctx)


# ======================================================================== PSBT
IN_WHOLE = {0x00, 0x01, 0x03, 0x04, 0x05, 0x07, 0x08, 0x0E, 0x0F, 0x10, 0x11, 0x12, 0x13, 0x17, 0x18}
IN_DROPPED_WHEN_FINAL = {0x02, 0x03, 0x04, 0x05, 0x06, 0x0A, 0x0B, 0x0C, 0x0D, 0x13, 0x14, 0x15, 0x16, 0x17, 0x18, 0x1A, 0x1B, 0x1C}
OUT_WHOLE = {0x00, 0x01, 0x03, 0x04, 0x05, 0x06, 0x09, 0x0A}
GLOBAL_WHOLE = {0x00, 0x02, 0x03, 0x04, 0x05, 0x06, 0x09, 0xFB}


def _origin(w: World, depth=None):
    r = w.rng
    depth = r.choice([0, 1, 3, 5]) if depth is None else depth
    return w.rb(4) + b"".join(r.choice([0, 1, 0x80000000, 0x8000002C, 0xFFFFFFFF, r.getrandbits(32)]).to_bytes(4, "little") for _ in range(depth))


def _partial_sig(w: World):
    from ..ref import der

    return der.encode(w.pool[w.rng.randrange(len(w.pool))][0] % N, w.rng.randrange(1, N // 2)) + bytes([w.rng.choice([1, 2, 3, 0x81, 0x82, 0x83])])


def _tapsig(w: World):
    return w.rb(64) + (bytes([w.rng.choice([1, 2, 3, 0x81, 0x82, 0x83])]) if w.rng.random() < 0.5 else b"")


def _unknown_pairs(w: World, n=None):
    r = w.rng
    out = []
    for _ in range(r.choice([0, 0, 1, 2]) if n is None else n):
        kt = r.choice([b"\xfc", b"\xf0", b"\x7f", b"\x30", b"\xfd\xfd\x00", b"\xfe\x00\x00\x01\x00", b"\x09" if r.random() < 0.2 else b"\xef"])
        out.append((kt + w.rb(r.choice([0, 1, 5, 33])), w.blob(r.choice([0, 1, 4, 40, 253]))))
    return out


def gen_prev_tx(w: World):
    t = rand_rtx(w)
    while t.vin[0].prev_hash == bytes(32):
        t = rand_rtx(w)
    return t


def gen_input_map(w: World, version: int, finalized: bool | None = None):
    """-> (pairs, (prev_hash_internal, prev_n, sequence)) with every value valid for its BIP174/370/371/373/375 type."""
    r = w.rng
    p = []
    inc = lambda prob=0.35: r.random() < prob  # noqa: E731
    finalized = r.random() < 0.2 if finalized is None else finalized
    prev_hash, prev_n = w.rb(32), r.choice([0, 1, 2, 0xFFFFFFFE, r.getrandbits(32)])
    if inc(0.4):
        pt = gen_prev_tx(w)
        prev_hash, prev_n = pt.txid()[::-1], r.randrange(len(pt.vout))
        p.append((b"\x00", pt.ser(True)))
    if inc(0.5):
        spk = w.blob(r.choice([0, 22, 34, 35, 253]))
        p.append((b"\x01", r.choice([0, 1, 546, 10**8, 21 * 10**14]).to_bytes(8, "little") + tc.ser_compact_size(len(spk)) + spk))
    if finalized:
        if inc(0.7):
            p.append((b"\x07", w.blob(r.choice([1, 23, 107, 253]))))
        if inc(0.7) or not any(k == b"\x07" for k, _ in p):
            stack = [w.blob(r.choice([0, 1, 33, 72])) for _ in range(r.choice([1, 2, 3]))]
            p.append((b"\x08", tc.ser_compact_size(len(stack)) + b"".join(tc.ser_compact_size(len(x)) + x for x in stack)))
    else:
        for _ in range(r.choice([0, 0, 1, 2])):
            p.append((b"\x02" + w.pub33(), _partial_sig(w)))
        if inc():
            p.append((b"\x03", r.choice([0, 1, 2, 3, 0x81, 0x82, 0x83]).to_bytes(4, "little")))
        if inc():
            p.append((b"\x04", w.blob(r.choice([1, 22, 34, 71, 253]))))
        if inc():
            p.append((b"\x05", w.blob(r.choice([1, 35, 71, 105, 253, 300]))))
        for i in range(r.choice([0, 0, 1, 3])):
            p.append((b"\x06" + w.pub33(i), _origin(w)))
        for kt, hf in ((b"\x0a", "ripemd160"), (b"\x0b", "sha256"), (b"\x0c", "h160"), (b"\x0d", "h256")):
            if inc(0.2):
                pre = w.blob(r.choice([0, 1, 32, 33]))
                h = {"ripemd160": lambda x: hashlib.new("ripemd160", x).digest(), "sha256": lambda x: hashlib.sha256(x).digest(),
                     "h160": lambda x: hashlib.new("ripemd160", hashlib.sha256(x).digest()).digest(), "h256": tc.sha256d}[hf](pre)
                p.append((kt + h, pre))
        if inc(0.25):
            p.append((b"\x13", _tapsig(w)))
        for i in range(r.choice([0, 0, 1, 2])):
            p.append((b"\x14" + w.xonly(i) + w.rb(32), _tapsig(w)))
        for i in range(r.choice([0, 0, 1, 2])):
            p.append((b"\x15" + bytes([0xC0 | r.randrange(2)]) + w.xonly(i) + w.rb(32 * r.choice([0, 1, 2, 128])), w.blob(r.choice([1, 34, 253])) + b"\xc0"))
        for i in range(r.choice([0, 0, 1, 2])):
            hs = [w.rb(32) for _ in range(r.choice([0, 1, 2]))]
            p.append((b"\x16" + w.xonly(i), tc.ser_compact_size(len(hs)) + b"".join(hs) + _origin(w)))
        if inc(0.25):
            p.append((b"\x17", w.xonly()))
        if inc(0.25):
            p.append((b"\x18", w.rb(32)))
        if inc(0.2):
            p.append((b"\x1a" + w.pub33(0), b"".join(w.pub33(i) for i in range(1, r.choice([2, 3, 4])))))
            sk = w.pub33(1) + w.pub33(0) + (w.rb(32) if r.random() < 0.5 else b"")
            if inc(0.7):
                p.append((b"\x1b" + sk, w.pub33(2) + w.pub33(3)))
            if inc(0.5):
                p.append((b"\x1c" + sk, w.rb(32)))
    seq = r.choice([0, 1, 0xFFFFFFFD, 0xFFFFFFFE, 0xFFFFFFFF, r.getrandbits(32)])
    if version == 2:
        p.append((b"\x0e", prev_hash))
        p.append((b"\x0f", prev_n.to_bytes(4, "little")))
        if inc(0.6):
            p.append((b"\x10", seq.to_bytes(4, "little")))
        else:
            seq = 0xFFFFFFFF
        if inc(0.25):
            p.append((b"\x11", r.choice([500000000, 500000001, 0xFFFFFFFF, r.randrange(500000000, 1 << 32)]).to_bytes(4, "little")))
        if inc(0.25):
            p.append((b"\x12", r.choice([1, 2, 499999999, r.randrange(1, 500000000)]).to_bytes(4, "little")))
        if inc(0.15):
            p.append((b"\x1d" + w.pub33(1), w.pub33(2)))
            if inc(0.7):
                p.append((b"\x1e" + w.pub33(1), w.rb(64)))
    p += _unknown_pairs(w)
    dedup = {}
    for k, v in p:
        dedup.setdefault(k, v)
    return sorted(dedup.items()), (prev_hash, prev_n, seq)


def gen_output_map(w: World, version: int):
    r = w.rng
    p = []
    inc = lambda prob=0.35: r.random() < prob  # noqa: E731
    value, script = r.choice([0, 1, 546, 10**8, 10**14]), w.blob(r.choice([0, 1, 22, 34, 253]) or 1)
    if inc():
        p.append((b"\x00", w.blob(r.choice([1, 22, 34, 253]))))
    if inc():
        p.append((b"\x01", w.blob(r.choice([1, 35, 105, 300]))))
    for i in range(r.choice([0, 0, 1, 3])):
        p.append((b"\x02" + w.pub33(i), _origin(w)))
    if inc(0.25):
        p.append((b"\x05", w.xonly()))
    if inc(0.25):
        leaves = [(r.choice([0, 1, 2, 128]), r.choice([0xC0, 0xC2, 0xFE]), w.blob(r.choice([0, 1, 34, 253]))) for _ in range(r.choice([1, 2, 4]))]
        p.append((b"\x06", b"".join(bytes([dp, lv]) + tc.ser_compact_size(len(s)) + s for dp, lv, s in leaves)))
    for i in range(r.choice([0, 0, 1, 2])):
        hs = [w.rb(32) for _ in range(r.choice([0, 1, 3]))]
        p.append((b"\x07" + w.xonly(i), tc.ser_compact_size(len(hs)) + b"".join(hs) + _origin(w)))
    if inc(0.2):
        p.append((b"\x08" + w.pub33(0), b"".join(w.pub33(i) for i in range(1, r.choice([2, 3])))))
    if version == 2:
        p.append((b"\x03", value.to_bytes(8, "little")))
        sp = inc(0.2)
        if sp:
            p.append((b"\x09", w.pub33(1) + w.pub33(2)))
            if inc(0.5):
                p.append((b"\x0a", r.choice([0, 1, 0xFFFFFFFF]).to_bytes(4, "little")))
        if not sp or inc(0.5):
            p.append((b"\x04", script))
    p += _unknown_pairs(w)
    dedup = {}
    for k, v in p:
        dedup.setdefault(k, v)
    return sorted(dedup.items()), (value, script)


def gen_psbt(w: World, version: int) -> list[list]:
    r = w.rng
    nin, nout = r.choice([0, 1, 1, 2, 3]), r.choice([0, 1, 1, 2, 3])
    ins = [gen_input_map(w, version) for _ in range(nin)]
    seen, ok_ins = set(), []
    for m, po in ins:                       # distinct outpoints (the same outpoint twice is an invalid unsigned tx)
        if (po[0], po[1]) not in seen:
            seen.add((po[0], po[1]))
            ok_ins.append((m, po))
    outs = [gen_output_map(w, version) for _ in range(nout)]
    g = []
    txv, lock = r.choice([1, 2, 3, 0xFFFFFFFF]), r.choice([0, 1, 499999999, 500000000, 0xFFFFFFFF])
    if version == 0:
        utx = tc.RTx(txv, [tc.RTxIn(h, n, b"", s) for _, (h, n, s) in ok_ins], [tc.RTxOut(v, s) for _, (v, s) in outs], lock)
        g.append((b"\x00", utx.ser(False)))
    else:
        g.append((b"\x02", txv.to_bytes(4, "little")))
        if r.random() < 0.5:
            g.append((b"\x03", lock.to_bytes(4, "little")))
        g += [(b"\x04", tc.ser_compact_size(len(ok_ins))), (b"\x05", tc.ser_compact_size(len(outs)))]
        if r.random() < 0.4:
            g.append((b"\x06", bytes([r.choice([0, 1, 2, 3, 4, 7, 8, 255])])))
        if r.random() < 0.15:
            g.append((b"\x07" + w.pub33(1), w.pub33(3)))
            g.append((b"\x08" + w.pub33(1), w.rb(64)))
        g.append((b"\xfb", (2).to_bytes(4, "little")))
    if r.random() < 0.2:
        g.append((b"\x09", w.blob(r.choice([0, 1, 32, 253]))))
    for i in range(r.choice([0, 0, 1, 2])):
        depth = r.choice([0, 1, 3])
        xpub = bytes.fromhex("0488b21e") + bytes([depth]) + (bytes(4) if depth == 0 else w.rb(4)) + (0 if depth == 0 else r.getrandbits(32)).to_bytes(4, "big") + w.rb(32) + w.pub33(i)
        g.append((b"\x01" + xpub, _origin(w, depth)))
    g += _unknown_pairs(w)
    dd = {}
    for k, v in g:
        dd.setdefault(k, v)
    return [sorted(dd.items())] + [m for m, _ in ok_ins] + [m for m, _ in outs]


# ---------------------------------------------------------------- PSBT mutants
def psbt_mutants(w: World, maps: list[list], version: int, n_in: int, cap: int):
    """Map-level and byte-level mutants of one PSBT in reference form."""
    r = w.rng
    out = []

    def emit(kind, mm):
        out.append((kind, pm.build(mm)))

    def clone():
        return [list(m) for m in maps]

    scopes = ["global"] + ["in"] * n_in + ["out"] * (len(maps) - 1 - n_in)
    for mi, m in enumerate(maps):
        sc = scopes[mi] if mi < len(scopes) else "out"
        if m:
            j = r.randrange(len(m))
            mm = clone(); mm[mi].insert(r.randrange(len(m) + 1), m[j]); emit("psbt-duplicate-key", mm)
            mm = clone(); mm[mi].append((m[j][0], m[j][1] + b"\x00")); emit("psbt-duplicate-key", mm)
        if len(m) > 1:
            mm = clone(); mm[mi].reverse(); emit("psbt-reorder", mm)
            mm = clone(); r.shuffle(mm[mi]); emit("psbt-reorder", mm)
        for kt in (b"\xfc\x05rvprop\x01", b"\xf0", b"\x7f" + w.rb(3), b"\xfd\xfd\x00\x01", b"\x2a"):
            mm = clone(); mm[mi].append((kt, w.blob(r.choice([0, 1, 9])))); emit("psbt-unknown-key", mm)
        for j, (k, v) in enumerate(m):
            whole = {"global": GLOBAL_WHOLE, "in": IN_WHOLE, "out": OUT_WHOLE}[sc]
            if v:
                mm = clone(); mm[mi][j] = (k, b""); emit("psbt-empty-value", mm)
            if k[0] in whole and len(k) == 1:
                mm = clone(); mm[mi][j] = (k + b"\x00", v); emit("psbt-keydata-on-whole-value-key", mm)
            if len(v) in (1, 4, 8, 32, 33, 64, 65, 66):
                mm = clone(); mm[mi][j] = (k, v + b"\x00"); emit("psbt-value-length+1", mm)
                mm = clone(); mm[mi][j] = (k, v[:-1]); emit("psbt-value-length-1", mm)
            if len(v) == 4 and sc != "global":
                for x in (0, 1, 4, 0x80, 0x100, 0xFFFFFFFF, 499999999, 500000000):
                    mm = clone(); mm[mi][j] = (k, x.to_bytes(4, "little")); emit("psbt-int-edit", mm)
            if len(k) > 1:
                mm = clone(); mm[mi][j] = (k[:-1], v); emit("psbt-keydata-length-1", mm)
                mm = clone(); mm[mi][j] = (k + b"\x01", v); emit("psbt-keydata-length+1", mm)
        if sc == "in":
            final = any(k in (b"\x07", b"\x08") for k, _ in m)
            mm = clone(); mm[mi] = [(k, v) for k, v in mm[mi] if k != b"\x03"] + [(b"\x03", bytes(4))]; emit("psbt-sighash-0", mm)
            if not final:
                mm = clone(); mm[mi].append((b"\x07", w.blob(5))); emit("psbt-final-beside-signing-fields", mm)
                mm = clone(); mm[mi].append((b"\x08", b"\x00")); emit("psbt-empty-final-witness", mm)
            if version == 0:
                for k, v in ((b"\x0e", w.rb(32)), (b"\x0f", bytes(4)), (b"\x10", b"\xff" * 4), (b"\x11", (500000000).to_bytes(4, "little")),
                             (b"\x12", (1).to_bytes(4, "little")), (b"\x1d" + w.pub33(1), w.pub33(2)), (b"\x1e" + w.pub33(1), w.rb(64))):
                    mm = clone(); mm[mi].append((k, v)); emit("psbt-v2-field-in-v0", mm)
        if sc == "out" and version == 0:
            for k, v in ((b"\x03", bytes(8)), (b"\x04", b"\x51"), (b"\x09", w.pub33(1) + w.pub33(2)), (b"\x0a", bytes(4))):
                mm = clone(); mm[mi].append((k, v)); emit("psbt-v2-field-in-v0", mm)
        if sc == "global":
            if version == 0:
                for k, v in ((b"\x02", (2).to_bytes(4, "little")), (b"\x03", bytes(4)), (b"\x04", b"\x01"), (b"\x05", b"\x01"), (b"\x06", b"\x00"),
                             (b"\x07" + w.pub33(1), w.pub33(2)), (b"\x08" + w.pub33(1), w.rb(64))):
                    mm = clone(); mm[mi].append((k, v)); emit("psbt-v2-field-in-v0", mm)
                mm = clone(); mm[mi].append((b"\xfb", bytes(4))); emit("psbt-explicit-version-0", mm)
            else:
                mm = clone(); mm[mi].append((b"\x00", tc.RTx(2, [], [], 0).ser(False))); emit("psbt-unsigned-tx-in-v2", mm)
                for j, (k, v) in enumerate(m):
                    if k in (b"\x04", b"\x05"):
                        c = tc.read_compact_size(v, 0)[0]
                        mm = clone(); mm[mi][j] = (k, tc.ser_compact_size(c + 1)); emit("count+1", mm)
                        if c:
                            mm = clone(); mm[mi][j] = (k, tc.ser_compact_size(c - 1)); emit("count-1", mm)
                        mm = clone(); mm[mi][j] = (k, tc.ser_compact_size_width(c, 3)); emit("nonminimal", mm)
            for ver in (1, 3, 0xFFFFFFFF):
                mm = clone(); mm[mi] = [(k, v) for k, v in mm[mi] if k != b"\xfb"] + [(b"\xfb", ver.to_bytes(4, "little"))]; emit("psbt-version-edit", mm)
    mm = clone(); mm.append([]); emit("count+1", mm)
    if len(maps) > 1:
        mm = clone(); mm.pop(); emit("count-1", mm)
    # byte level on the canonical form: truncation at pair boundaries, appended bytes, wider CompactSize on every prefix
    b = pm.build(maps)
    fields, pos = [], 5
    for m in maps:
        for k, v in m:
            lk, lv = len(tc.ser_compact_size(len(k))), len(tc.ser_compact_size(len(v)))
            fields += [(pos, lk, "len:key"), (pos + lk, len(k), "key"), (pos + lk + len(k), lv, "len:value"), (pos + lk + len(k) + lv, len(v), "value")]
            pos += lk + len(k) + lv + len(v)
        fields.append((pos, 1, "len:separator"))
        pos += 1
    if len(b) < 6000:
        for kind, m in generic_mutants(w, b, fields, 40):
            if kind in ("truncate", "truncate-mid", "append", "nonminimal", "len+1", "len-1", "random-flip", "empty", "bytes-edit"):
                out.append((kind, m))
    if len(out) > cap:
        by = {}
        for kind, m in out:
            by.setdefault(kind, []).append(m)
        per = max(2, cap // len(by))
        out = [(k, m) for k, lst in sorted(by.items()) for m in (r.sample(lst, per) if len(lst) > per else lst)]
    return out


# ------------------------------------------------------------- PSBT judging
def _classify_lost(scope: str, key: bytes, value: bytes, map_pairs) -> str:
    kt = key[0]
    whole = {"global": GLOBAL_WHOLE, "in": IN_WHOLE, "out": OUT_WHOLE}[scope]
    keys = {k for k, _ in map_pairs}
    if sum(1 for k, _ in map_pairs if k == key) > 1:
        return "duplicate-key-accepted"
    if scope == "in" and kt in IN_DROPPED_WHEN_FINAL and (b"\x07" in keys or b"\x08" in keys):
        return "dropped-beside-final-script"
    if scope == "global" and key == b"\xfb" and value == bytes(4):
        return "explicit-version-0"
    if value == b"":
        return "empty-value"
    if kt in whole and len(key) > 1:
        return "keydata-on-whole-value-key"
    if scope == "in" and key == b"\x08" and value == b"\x00":
        return "empty-final-witness"
    if scope == "in" and key == b"\x03" and value == bytes(4):
        return "sighash-type-0"
    return f"type-0x{kt:02x}"


def _scopes(p: pm.PsbtMaps):
    sp = p.split()
    if sp is None:
        return None
    return ["global"] + ["in"] * len(sp[1]) + ["out"] * len(sp[2])


def pairs_verdict(ctx: Ctx, who: str, before: list[list], after: list[list], scopes, case: dict, kind: str) -> int:
    """No (map, key, value) pair of ``before`` may be missing from ``after``; returns how many are."""
    lost, gained = pm.lost_and_gained(pm.PsbtMaps(before), pm.PsbtMaps(after))
    ctx.case("psbt:pairs", None)
    if gained:
        ctx.stat(f"psbt:pairs-gained:{who}")
    seen = set()
    for mi, k, v in lost:
        sc = scopes[mi] if scopes and mi < len(scopes) else "?"
        how = _classify_lost(sc, k, v, before[mi]) if sc != "?" else f"type-0x{k[0]:02x}"
        altered = any(g[0] == mi and g[1][:1] == k[:1] for g in gained)
        mech = f"psbt:pair-{'altered' if altered else 'lost'}:{sc}:{how}"
        if mech in seen:
            continue
        seen.add(mech)
        ctx.violation(mech, f"{who}: the accepted {kind} PSBT had ({sc} map {mi}) key {k.hex()[:40]} -> value {v.hex()[:40]} ({len(v)} bytes); after parse+serialize "
                      f"that pair is {'replaced by another of the same type' if altered else 'gone'}", case)
    return len(lost)


def psbt_rule(ctx: Ctx, w: World, b: bytes, kind: str, cvs=(True, False)):
    """Fixed point + pair preservation for one PSBT byte string; returns the object accepted with validity on."""
    P = w.registry["psbt.Psbt"]
    ref = outcome(pm.parse, b)
    valid_obj = None
    for cv in cvs:
        ctx.arm("check_validity=on" if cv else "check_validity=off")
        o = outcome(P.parse, b, check_validity=cv)
        if o[0] == "raise":
            note_refusal(ctx, "Psbt.parse", o[1])
            continue
        ctx.mon("accepted:psbt.Psbt")
        ctx.stat(f"accepted-kind:{kind}")
        case = {"class": "psbt.Psbt", "psbt": b, "kind": kind, "check_validity": cv}
        s = outcome(o[1].serialize, check_validity=cv)
        if s[0] == "raise":
            ctx.violation(f"psbt.Psbt:accepted-then-serialize-raises:{'library-refusal' if is_lib_exc(s[1]) else type(s[1]).__name__}",
                          f"Psbt.parse(check_validity={cv}) accepted a {kind} PSBT but serialize raised {s[1]!r}", case)
            continue
        s1 = s[1]
        n_lost = 0
        if ref[0] == "ok":
            after = outcome(pm.parse, s1)
            if after[0] == "raise":
                ctx.violation("psbt.Psbt:serialization-not-a-psbt", f"the reference map reader cannot read serialize(): {after[1]}", {**case, "reserialized": s1})
            else:
                n_lost = pairs_verdict(ctx, "psbt.Psbt", ref[1].maps, after[1].maps, _scopes(ref[1]), case, kind)
        o2 = outcome(P.parse, s1, check_validity=cv)
        if o2[0] == "raise":
            ctx.violation("psbt.Psbt:own-serialization-refused", f"serialize() of an accepted {kind} PSBT is refused by parse: {o2[1]!r}", {**case, "reserialized": s1})
        else:
            s2 = outcome(o2[1].serialize, check_validity=cv)
            if s2[0] == "raise" or s2[1] != s1:
                ctx.violation("psbt.Psbt:not-a-fixed-point", f"serialize(parse(serialize(parse(b)))) differs from serialize(parse(b)) for a {kind} PSBT", {**case, "first": s1})
            if not n_lost and not (o2[1] == o[1]):      # a lost pair already says why the objects differ
                ctx.violation("psbt.Psbt:object-roundtrip-differs", f"parse(serialize(x)) != x for the object parsed from a {kind} PSBT", case)
        ctx.case("psbt:fixed-point", ("pfp", b, cv))
        if cv and valid_obj is None:
            valid_obj = o[1]
    return valid_obj


def map_rule(ctx: Ctx, w: World, key: str, pairs: list, version: int, kind: str) -> None:
    """The same two rules for one input / output map through PsbtIn / PsbtOut on their own."""
    d = ClassDriver(w, key, parse_kw={"psbt_version": version}, ser_kw={"psbt_version": version})
    scope = "in" if key == "psbt_in.PsbtIn" else "out"
    b = pm.ser_map(pairs)
    for cv in (True, False):
        o = outcome(d.parse, b, cv)
        if o[0] == "raise":
            note_refusal(ctx, f"{key}.parse", o[1])
            continue
        ctx.mon(f"accepted:{key}")
        case = {"class": key, "map": b, "psbt_version": version, "kind": kind, "check_validity": cv}
        s = outcome(d.ser, o[1], cv)
        if s[0] == "raise":
            ctx.violation(f"{key}:accepted-then-serialize-raises:{'library-refusal' if is_lib_exc(s[1]) else type(s[1]).__name__}",
                          f"{key}.parse accepted a {kind} map but serialize raised {s[1]!r}", case)
            continue
        after = outcome(pm.read_map, s[1], 0)
        n_lost = 0
        if after[0] == "raise" or after[1][1] != len(s[1]):
            ctx.violation(f"{key}:serialization-not-a-map", f"{key}.serialize() is not one BIP174 map", {**case, "first": s[1]})
        else:
            n_lost = pairs_verdict(ctx, key, [pairs], [after[1][0]], [scope], case, kind)
        o2 = outcome(d.parse, s[1], cv)
        if o2[0] == "raise" or outcome(d.ser, o2[1], cv) != ("ok", s[1]):
            ctx.violation(f"{key}:not-a-fixed-point", f"{key}: re-serializing the parse of its own serialization differs ({kind})", {**case, "first": s[1]})
        elif not n_lost and not (o2[1] == o[1]):
            ctx.violation(f"{key}:object-roundtrip-differs", f"{key}: parse(serialize(x)) != x ({kind}, psbt_version={version})", case)
        ctx.case("psbt:in-map" if scope == "in" else "psbt:out-map", (key, b, version, cv))
        if cv:
            ctx.case(f"obj:{key}", (key, b, version), sample={"class": key, "map": b, "psbt_version": version})
            json_rule(ctx, key, d.cls, o[1], f"{kind} v{version}")
            if scope == "in" and o[1].taproot_hd_key_paths:
                ctx.case("psbt:taproot-derivation-json", (b,))


def psbt_objects(ctx: Ctx, w: World, obj, b: bytes, kind: str) -> None:
    """Object-level rules for a Psbt the library accepted as valid."""
    P = w.registry["psbt.Psbt"]
    d = ClassDriver(w, "psbt.Psbt")
    object_rule(ctx, d, obj, kind, sample={"class": "psbt.Psbt", "psbt": b, "kind": kind})
    json_rule(ctx, "psbt.Psbt", P, obj, kind)
    for i in obj.inputs:
        json_rule(ctx, "psbt_in.PsbtIn", w.registry["psbt_in.PsbtIn"], i, kind)
        if i.taproot_hd_key_paths:
            ctx.case("psbt:taproot-derivation-json", (b, "in"))
    for o in obj.outputs:
        json_rule(ctx, "psbt_out.PsbtOut", w.registry["psbt_out.PsbtOut"], o, kind)
    t = outcome(obj.b64encode)
    if t[0] == "ok":
        want = base64.b64encode(obj.serialize()).decode()
        back = outcome(P.b64decode, t[1])
        if t[1] != want or back[0] == "raise" or back[1] != obj:
            ctx.violation("psbt.Psbt:b64-roundtrip-differs", "b64decode(b64encode(x)) != x or b64encode is not base64(serialize())", {"psbt": b})
        ctx.case("text:b64-psbt", ("b64p", t[1]), sample={"psbt_b64": t[1][:200]})
        o = outcome(P.b64decode, t[1][:-4] + "\n" + t[1][-4:])
        if o[0] == "ok":
            ctx.stat("psbt:b64decode-lenient-text-accepted")
    m3_tx(ctx, obj.tx, where="psbt unsigned tx")


def psbt_full(ctx: Ctx, w: World, b: bytes, kind: str, mutate: bool, cap: int) -> None:
    obj = psbt_rule(ctx, w, b, kind)
    ref = outcome(pm.parse, b)
    if obj is not None:
        psbt_objects(ctx, w, obj, b, kind)
    if ref[0] == "raise":
        return
    p = ref[1]
    sp = p.split()
    version = p.version()
    ctx.classes["psbt:v2" if version == 2 else "psbt:v0"] += 1
    if sp is None:
        return
    if version in (0, 2):
        for m in sp[1]:
            map_rule(ctx, w, "psbt_in.PsbtIn", m, version, kind)
        for m in sp[2]:
            map_rule(ctx, w, "psbt_out.PsbtOut", m, version, kind)
    if not mutate:
        return
    for mk, mb in psbt_mutants(w, p.maps, version, len(sp[1]), cap):
        if ctx.out_of_time():
            break
        ctx.case("mut:psbt.Psbt", ("psbt", mb))
        ctx.classes[f"kind:{mk}"] += 1
        psbt_rule(ctx, w, mb, mk, cvs=(False, True) if len(mb) % 2 else (False,))
        # the maps of the mutant, one by one, through PsbtIn / PsbtOut
        mp = outcome(pm.parse, mb)
        if mp[0] == "ok" and not mp[1].has_duplicate_keys():
            msp = mp[1].split()
            if msp is not None and version in (0, 2):
                for m in msp[1]:
                    if m not in sp[1]:
                        ctx.case("mut:psbt_in.PsbtIn", ("pin", pm.ser_map(m)))
                        map_rule(ctx, w, "psbt_in.PsbtIn", m, version, mk)
                for m in msp[2]:
                    if m not in sp[2]:
                        ctx.case("mut:psbt_out.PsbtOut", ("pout", pm.ser_map(m)))
                        map_rule(ctx, w, "psbt_out.PsbtOut", m, version, mk)


def shard_psbt_vectors(ctx: Ctx) -> None:
    w = World(ctx)
    install_m3_hook(ctx, w)
    reach = start_reach()
    part, parts = ctx.params["part"], ctx.params["parts"]
    corpus = vendored_psbts()
    for rnd in range(1 if ctx.tier == "quick" else 10):       # later passes draw other mutants of the same vectors
        for i, (fn, b) in enumerate(corpus):
            if i % parts != part:
                continue
            if ctx.out_of_time():
                ctx.notes.append(f"psbt-vec: budget reached in pass {rnd} at vector {i}/{len(corpus)}")
                break
            ctx.case("vendored:psbt", ("vp", b), sample={"file": fn, "psbt": b})
            psbt_full(ctx, w, b, f"vendored:{fn}", mutate=True, cap=160 if ctx.tier == "quick" else 600)
    reach.stop()
    reach.report(ctx)


def shard_psbt_generated(ctx: Ctx) -> None:
    w = World(ctx)
    install_m3_hook(ctx, w)
    reach = start_reach()
    n = 0
    while not ctx.out_of_time() and n < (450 if ctx.tier == "quick" else 20000):
        version = 2 if n % 2 else 0
        maps = gen_psbt(w, version)
        b = pm.build(maps)
        ctx.case("psbt:generated", ("gp", b), sample={"psbt_version": version, "psbt": b})
        psbt_full(ctx, w, b, f"generated-v{version}", mutate=True, cap=50 if ctx.tier == "quick" else 150)
        n += 1
    reach.stop()
    reach.report(ctx)
