"""C09 - signature hashes equal the legacy, BIP143 and BIP341 definitions.

Reference-model monitor: ``rv.ref.core``'s transcriptions of Core's SignatureHash
(legacy incl. codeseparator removal and the SINGLE constant), BIP143 and BIP341/342,
self-tested on sighash.json and the BIP341 wallet vectors, against sig_hash.legacy /
segwit_v0 / taproot / from_tx, psbt.ecdsa_sig_hash / taproot_sig_hash and PsbtView.
"""

from __future__ import annotations

import json
import os

from ..ctx import Ctx, is_lib_exc, outcome, tb_origin
from ..hooks import Reach

PROPERTY = "C09"
RULE = (
    "transactions with 1..8 (thorough: up to 300) inputs and 0..8 outputs, boundary versions/locktimes/sequences, every input "
    "index, script codes with OP_CODESEPARATOR inside and outside pushes and truncated pushes, every hash-type byte plus 32-bit "
    "and negative values (legacy/segwit), the seven taproot types and invalid ones x annex x key/script path; each digest also "
    "through PrecomputedTxData, from_tx, a Psbt and a PsbtView. Distinct = distinct (algorithm, tx bytes, index, script code, "
    "hash type, amount, annex, extension); every case compares bytes with the reference (non-trivial)."
)
ASSUMPTIONS = [
    "rv/ref/core.py's legacy_sighash / segwit_sighash / taproot_sighash are the definitions: checked on every run against all "
    "500 vectors of Core's sighash.json and the BIP341 wallet test vectors (keyPathSpending sigHash values)",
]
VEC = os.path.join(os.path.dirname(os.path.dirname(os.path.dirname(os.path.abspath(__file__)))), "vectors")

MECH = [
    "btclib.script.sig_hash:legacy", "btclib.script.sig_hash:_legacy_tx_copy", "btclib.script.sig_hash:_zero_other_sequences",
    "btclib.script.sig_hash:_without_op_codeseparators", "btclib.script.sig_hash:_script_code_from",
    "btclib.script.sig_hash:_serialized_hash_type", "btclib.script.sig_hash:segwit_v0", "btclib.script.sig_hash:taproot",
    "btclib.script.sig_hash:taproot_annex_and_ext", "btclib.script.sig_hash:_serialized_spend_type",
    "btclib.script.sig_hash:from_tx", "btclib.script.sig_hash:redeem_script", "btclib.psbt.psbt:ecdsa_sig_hash",
    "btclib.psbt.psbt:taproot_sig_hash", "btclib.psbt.psbt:_sig_hash_from_psbt_in",
    "btclib.psbt.psbt_view:PsbtView.ecdsa_sig_hash", "btclib.psbt.psbt_view:PsbtView.taproot_sig_hash",
]


def plan(tier: str, seed: int) -> list[dict]:
    q = tier == "quick"
    specs = [{"name": "oracle-selftest", "fn": "shard_selftest", "_budget_s": 120, "_timeout_s": 600}]
    for i in range(6 if q else 12):
        specs.append({"name": f"direct-{i}", "fn": "shard_direct", "cases": 5000 if q else 40000, "big": (not q) and i % 3 == 0,
                      "_budget_s": 80 if q else 900, "_timeout_s": 500 if q else 2400})
    for i in range(4 if q else 4):
        specs.append({"name": f"dispatch-{i}", "fn": "shard_dispatch", "cases": 3000 if q else 20000,
                      "_budget_s": 80 if q else 900, "_timeout_s": 500 if q else 2400})
    return specs


def finalize(m: dict, tier: str) -> list[str]:
    out = []
    st = m["selftest"]
    if not st.get("sighash.json") or not st.get("bip341-wallet-vectors") or not st.get("tx_valid.json"):
        out.append("sighash reference self-test did not run")
    c, r, s = m["classes"], m["reached"], m["stats"]
    for k in ("legacy", "segwit_v0", "taproot:keypath", "taproot:scriptpath", "taproot:must-refuse", "legacy:single-out-of-range",
              "precomputed-vs-direct", "from_tx:p2pkh", "from_tx:p2sh", "from_tx:p2wpkh", "from_tx:p2wsh", "from_tx:p2sh-p2wpkh",
              "from_tx:p2sh-p2wsh", "from_tx:p2tr-key", "from_tx:p2tr-script", "psbt:ecdsa", "psbt:taproot", "psbtview:ecdsa",
              "psbtview:taproot", "legacy:codesep-in-code", "legacy:32bit-hashtype"):
        if not c.get(k):
            out.append(f"class {k} never evaluated")
    for f in ("legacy", "segwit_v0", "taproot", "from_tx", "ecdsa_sig_hash", "taproot_sig_hash", "PsbtView.ecdsa_sig_hash",
              "PsbtView.taproot_sig_hash", "_without_op_codeseparators"):
        if not r.get(f):
            out.append(f"mechanism {f} never entered")
    return out


# ---------------------------------------------------------------- self-test
def shard_selftest(ctx: Ctx) -> None:
    from ..ref import core as cm

    data = json.load(open(os.path.join(VEC, "sig_hash_legacy_test_vectors.json")))
    n = bad = 0
    for x in data:
        if len(x) != 5:
            continue
        raw, script, idx, ht, want = x
        tx = cm.parse_tx(bytes.fromhex(raw))
        got = cm.legacy_sighash(bytes.fromhex(script), tx, idx, ht)[::-1].hex()
        n += 1
        if got != want:
            bad += 1
            ctx.oracle_broken("sighash.json", f"vector {n}")
    ctx.oracle_ok("sighash.json", n - bad)
    d = json.load(open(os.path.join(VEC, "taproot_test_vector.json")))
    n = bad = 0
    for item in d.get("keyPathSpending", []):
        tx = cm.parse_tx(bytes.fromhex(item["given"]["rawUnsignedTx"]))
        spent = [cm.TxOut(u["amountSats"], bytes.fromhex(u["scriptPubKey"])) for u in item["given"]["utxosSpent"]]
        for s in item["inputSpending"]:
            g = s["given"]
            got = cm.taproot_sighash(tx, g["txinIndex"], spent, g["hashType"], cm.TAPROOT, cm.ExecData())
            n += 1
            if got is None or got.hex() != s["intermediary"]["sigHash"]:
                bad += 1
                ctx.oracle_broken("bip341-wallet-vectors", f"input {g['txinIndex']}")
    ctx.oracle_ok("bip341-wallet-vectors", n - bad)
    # BIP143: the segwit digests are exercised through Core's tx_valid.json / script_tests.json witness vectors, whose
    # real signatures only verify under the right digest (the C08 oracle self-test, run here as well)
    from .c08 import shard_selftest as core_selftest

    core_selftest(ctx)
    ctx.case("selftest", "vectors", nontrivial=False)


# ------------------------------------------------------------------ helpers
U32 = [0, 1, 2, 0x7FFFFFFF, 0x80000000, 0xFFFFFFFF, 0xFFFFFFFE]


class World:
    def __init__(self, ctx: Ctx):
        from btclib.script import ScriptPubKey, Witness, sig_hash
        from btclib.tx import OutPoint, Tx, TxIn, TxOut

        from ..ref import core as cm

        self.__dict__.update(locals())
        self.rng = ctx.rng

    def rb(self, n):
        return bytes(self.rng.randrange(256) for _ in range(n))

    def rand_script(self):
        r, cm = self.rng, self.cm
        parts = []
        for _ in range(r.randrange(0, 7)):
            parts.append(r.choice([b"\xab", cm.push_data(self.rb(r.randrange(0, 6))), cm.push_data(b"\xab\xab"), b"\x51", b"\xac",
                                   bytes([r.randrange(256)]), b"\x4c\x05\x01", b"\x4d\xab", b"\xab\xab", b"\x4e\xab\x00\x00",
                                   cm.push_data(self.rb(80)), b"\x63\xab\x68", b"\x02\xab"]))
        return b"".join(parts)

    def rand_tx(self, nin=None, nout=None):
        r, cm = self.rng, self.cm
        nin = nin or r.randrange(1, 9)
        nout = r.randrange(0, 9) if nout is None else nout
        ver, lock = r.choice(U32), r.choice(U32)
        ins = [(self.rb(32), r.choice(U32), r.choice(U32)) for _ in range(nin)]
        outs = [(r.choice([0, 1, 546, 21 * 10**14, r.randrange(10**9)]), self.rand_script()) for _ in range(nout)]
        spent = [(r.choice([0, 1, 10**8, 21 * 10**14]), self.rand_script()) for _ in range(nin)]
        return ver, lock, ins, outs, spent

    def build(self, ver, lock, ins, outs, spent, script_sigs=None, witnesses=None):
        cm = self.cm
        script_sigs = script_sigs or [b""] * len(ins)
        witnesses = witnesses or [[] for _ in ins]
        mtx = cm.Tx(ver, [cm.TxIn(h[::-1], i, ss, s, list(w)) for (h, i, s), ss, w in zip(ins, script_sigs, witnesses)],
                    [cm.TxOut(v, s) for v, s in outs], lock)
        ltx = self.Tx(ver, lock, [self.TxIn(self.OutPoint(h, i, check_validity=False), ss, s, self.Witness(list(w)), check_validity=False)
                                  for (h, i, s), ss, w in zip(ins, script_sigs, witnesses)],
                      [self.TxOut(v, self.ScriptPubKey(s, check_validity=False), check_validity=False) for v, s in outs],
                      check_validity=False)
        lspent = [self.TxOut(v, self.ScriptPubKey(s, check_validity=False), check_validity=False) for v, s in spent]
        mspent = [cm.TxOut(v, s) for v, s in spent]
        return mtx, ltx, mspent, lspent


def _judge(ctx: Ctx, what: str, o, want, case: dict) -> None:
    """``want`` is bytes, or None where the definition declares an error."""
    if o[0] == "raise":
        if not is_lib_exc(o[1]):
            ctx.violation(f"{what}:foreign-exception:{type(o[1]).__name__}@{tb_origin(o[1])}", f"{what} raised {o[1]!r}", case)
        elif want is not None:
            ctx.violation(f"{what}:refused-a-defined-digest", f"{what} refused ({o[1]}) where the definition gives {want.hex()}", case)
        return
    if want is None:
        ctx.violation(f"{what}:answered-a-declared-error", f"{what} returned {bytes(o[1]).hex()} where the BIP declares an error", case)
    elif bytes(o[1]) != want:
        ctx.violation(f"{what}:wrong-digest", f"{what} = {bytes(o[1]).hex()}, definition gives {want.hex()}", case)


# ------------------------------------------------------------------- direct
def shard_direct(ctx: Ctx) -> None:
    reach = Reach()
    for d in MECH:
        reach.watch_path(d)
    reach.start()
    w = World(ctx)
    cm, sh, r = w.cm, w.sig_hash, ctx.rng
    big = ctx.params.get("big")
    for it in range(ctx.params["cases"]):
        if ctx.out_of_time():
            break
        nin = r.choice([50, 253, 300]) if big and it % 50 == 0 else None
        ver, lock, ins, outs, spent = w.rand_tx(nin, r.choice([0, 252, 253, 300]) if nin else None)
        mtx, ltx, mspent, lspent = w.build(ver, lock, ins, outs, spent)
        n_in = len(ins)
        idx = r.randrange(n_in)
        sc = w.rand_script()
        ht = r.choice([0, 1, 2, 3, 0x80, 0x81, 0x82, 0x83, 4, 0x1F, 0x41, 0xFF, r.randrange(256), r.getrandbits(32),
                       -r.getrandbits(31), 0x100 | r.choice([1, 2, 3]), 0x7FFFFFFF, -1, -(1 << 31)])
        base = {"tx": mtx.ser().hex(), "index": idx, "script_code": sc.hex(), "hash_type": ht}
        # legacy
        want = cm.legacy_sighash(sc, mtx, idx, ht)
        _judge(ctx, "legacy", outcome(sh.legacy, sc, ltx, idx, ht), want, base)
        ctx.case("legacy", ("L", mtx.ser(), idx, sc, ht), sample=base)
        if (ht & 0x1F) == 3 and idx >= len(outs):
            ctx.classes["legacy:single-out-of-range"] += 1
        if b"\xab" in sc:
            ctx.classes["legacy:codesep-in-code"] += 1
        if not -128 <= ht < 256:
            ctx.classes["legacy:32bit-hashtype"] += 1
        # segwit v0, direct and precomputed
        amt = r.choice([0, 1, 10**8, 21 * 10**14])
        want = cm.segwit_sighash(sc, mtx, idx, ht, amt)
        c2 = {**base, "amount": amt}
        _judge(ctx, "segwit_v0", outcome(sh.segwit_v0, sc, ltx, idx, ht, amt), want, c2)
        pre = sh.PrecomputedTxData(ltx, lspent)
        _judge(ctx, "segwit_v0-precomputed", outcome(sh.segwit_v0, sc, ltx, idx, ht, amt, pre), want, c2)
        ctx.case("segwit_v0", ("W", mtx.ser(), idx, sc, ht, amt))
        ctx.classes["precomputed-vs-direct"] += 1
        # taproot
        tht = r.choice([0, 1, 2, 3, 0x81, 0x82, 0x83, 0, 1, 3, 0x83, 4, 0x80, 0x84, 0xFF, 0x40])
        annex = r.choice([b"", b"", b"\x50", b"\x50" + w.rb(5), b"\x50" + w.rb(300)])
        ext_flag = r.choice([0, 1])
        leaf = w.rb(32)
        cs = r.choice([0xFFFFFFFF, 0, 5, 0xFFFFFFFE])
        ed = cm.ExecData(annex=annex if annex else None, tapleaf_hash=leaf, codesep_pos=cs)
        want = cm.taproot_sighash(mtx, idx, mspent, tht, cm.TAPSCRIPT if ext_flag else cm.TAPROOT, ed)
        ext = (leaf + b"\x00" + cs.to_bytes(4, "little")) if ext_flag else b""
        c3 = {**base, "hash_type": tht, "annex": annex.hex(), "ext": ext.hex(), "spent": [[o.value, o.spk.hex()] for o in mspent]}
        for name, p in (("taproot", None), ("taproot-precomputed", pre)):
            _judge(ctx, name, outcome(sh.taproot, ltx, idx, lspent, tht, ext_flag, annex, ext, p), want, c3)
        ctx.case("taproot:scriptpath" if ext_flag else "taproot:keypath", ("T", mtx.ser(), idx, tht, annex, ext, tuple((o.value, o.spk) for o in mspent)),
                 sample=c3)
        if want is None:
            ctx.classes["taproot:must-refuse"] += 1
    reach.stop()
    reach.report(ctx)


# ----------------------------------------------------------------- dispatch
def shard_dispatch(ctx: Ctx) -> None:
    """from_tx, Psbt and PsbtView digests for every previous-output type."""
    from btclib.psbt.psbt import Psbt, ecdsa_sig_hash, taproot_sig_hash
    from btclib.psbt.psbt_in import PsbtIn
    from btclib.psbt.psbt_view import PsbtView

    reach = Reach()
    for d in MECH:
        reach.watch_path(d)
    reach.start()
    w = World(ctx)
    cm, sh, r = w.cm, w.sig_hash, ctx.rng
    kinds = ["p2pkh", "p2sh", "p2wpkh", "p2wsh", "p2sh-p2wpkh", "p2sh-p2wsh", "p2tr-key", "p2tr-script", "bare"]
    for it in range(ctx.params["cases"]):
        if ctx.out_of_time():
            break
        ver, lock, ins, outs, spent = w.rand_tx(r.randrange(1, 6))
        if r.random() < 0.85:   # keep most totals within the money supply so that the PSBT forms are admissible
            outs = [(v if v < 21 * 10**14 else r.randrange(10**6), s) for v, s in outs]
        n_in = len(ins)
        idx = r.randrange(n_in)
        kind = kinds[it % len(kinds)]
        h20, h32 = w.rb(20), w.rb(32)
        inner = b"".join(r.choice([b"\xab", b"\x51", b"\xac", cm.push_data(w.rb(r.randrange(1, 8))), cm.push_data(b"\xab")])
                         for _ in range(r.randrange(1, 7)))
        amount = r.choice([0, 1, 10**8, 21 * 10**14])
        ss, wit = b"", []
        redeem = witness_script = b""
        annex = None
        if kind == "p2pkh":
            spk = b"\x76\xa9\x14" + h20 + b"\x88\xac"
        elif kind == "bare":
            spk = inner
        elif kind == "p2sh":
            redeem = inner
            spk = b"\xa9\x14" + cm.ripemd160(cm.sha256(redeem)) + b"\x87"
            ss = cm.push_data(b"\x01") + cm.push_data(redeem)
        elif kind == "p2wpkh":
            spk = b"\x00\x14" + h20
        elif kind == "p2wsh":
            witness_script = inner
            spk = b"\x00\x20" + cm.sha256(inner)
            wit = [b"\x01", inner]
        elif kind == "p2sh-p2wpkh":
            redeem = b"\x00\x14" + h20
            spk = b"\xa9\x14" + cm.ripemd160(cm.sha256(redeem)) + b"\x87"
            ss = cm.push_data(redeem)
        elif kind == "p2sh-p2wsh":
            witness_script = inner
            redeem = b"\x00\x20" + cm.sha256(inner)
            spk = b"\xa9\x14" + cm.ripemd160(cm.sha256(redeem)) + b"\x87"
            ss = cm.push_data(redeem)
            wit = [b"\x01", inner]
        else:
            spk = b"\x51\x20" + h32
            if r.random() < 0.4:
                annex = b"\x50" + w.rb(r.choice([0, 3]))
            if kind == "p2tr-key":
                wit = [w.rb(64)]
            else:
                lv = r.choice([0xC0, 0xC0, 0xC2])
                wit = [b"\x01", inner, bytes([lv | r.randrange(2)]) + w.rb(32) + w.rb(32 * r.randrange(0, 3))]
            if annex is not None:
                wit = wit + [annex]
        spent[idx] = (amount, spk)
        script_sigs = [b""] * n_in
        witnesses = [[] for _ in range(n_in)]
        script_sigs[idx], witnesses[idx] = ss, wit
        mtx, ltx, mspent, lspent = w.build(ver, lock, ins, outs, spent, script_sigs, witnesses)
        taproot = kind.startswith("p2tr")
        ht = r.choice([0, 1, 2, 3, 0x81, 0x82, 0x83]) if taproot else r.choice([1, 2, 3, 0x81, 0x82, 0x83, 1, r.randrange(256), r.getrandbits(32)])
        codesep_index = 0
        # expected digest from the definitions
        if taproot:
            leaf = cm.tapleaf_hash(wit[2][0] & 0xFE, wit[1]) if kind == "p2tr-script" else b""
            ed = cm.ExecData(annex=annex, tapleaf_hash=leaf, codesep_pos=0xFFFFFFFF)
            want = cm.taproot_sighash(mtx, idx, mspent, ht, cm.TAPSCRIPT if kind == "p2tr-script" else cm.TAPROOT, ed)
        elif kind in ("p2wpkh", "p2sh-p2wpkh"):
            want = cm.segwit_sighash(b"\x76\xa9\x14" + h20 + b"\x88\xac", mtx, idx, ht, amount)
        elif kind in ("p2wsh", "p2sh-p2wsh"):
            # script code after the k-th OP_CODESEPARATOR occurrence (as the library defines codesep_index)
            seps = []
            pc = 0
            while True:
                op = cm.get_op(inner, pc)
                if op is None:
                    break
                if op[0] == 0xAB:
                    seps.append(op[2])
                pc = op[2]
            if seps and r.random() < 0.6:
                codesep_index = r.randrange(1, len(seps) + 1)
            code = inner[seps[codesep_index - 1]:] if codesep_index else inner
            want = cm.segwit_sighash(code, mtx, idx, ht, amount)
        elif kind == "p2sh":
            want = cm.legacy_sighash(redeem, mtx, idx, ht)
        else:
            want = cm.legacy_sighash(spk, mtx, idx, ht)
        case = {"kind": kind, "tx": mtx.ser(True).hex(), "index": idx, "hash_type": ht, "spent": [[o.value, o.spk.hex()] for o in mspent],
                "codesep_index": codesep_index}
        pre = sh.PrecomputedTxData(ltx, lspent)
        for name, p in (("from_tx", None), ("from_tx-precomputed", pre)):
            _judge(ctx, name, outcome(sh.from_tx, lspent, ltx, idx, ht, p, codesep_index=codesep_index), want, case)
        ctx.case(f"from_tx:{kind}", ("F", mtx.ser(True), idx, ht, codesep_index, tuple((o.value, o.spk) for o in mspent)), sample=case)
        if want is None:
            ctx.stat("from_tx:declared-error")

        # ---- through a Psbt and a PsbtView (annex and codeseparators are not expressible there: plain digests only)
        if annex is not None or codesep_index or (not taproot and not 0 < ht < 256) or (not taproot and ht not in (1, 2, 3, 0x81, 0x82, 0x83)):
            continue
        # a previous transaction that really has the spent output at the referenced index
        pins = []
        okpsbt = True
        for k, ((h, oi, seq), (v, s)) in enumerate(zip(ins, spent)):
            if k == idx:
                if taproot or kind in ("p2wpkh", "p2wsh", "p2sh-p2wpkh", "p2sh-p2wsh"):
                    pins.append(PsbtIn(witness_utxo=lspent[k], redeem_script=redeem, witness_script=witness_script, check_validity=False))
                else:
                    okpsbt = False  # a non-witness utxo must hash to the outpoint's txid: built below
            else:
                pins.append(PsbtIn(witness_utxo=lspent[k], check_validity=False))
        if not okpsbt:
            # legacy kinds: craft the previous transaction, then re-point the input at its real txid
            prev_n = r.randrange(0, 3)
            pv = [w.TxOut(7, w.ScriptPubKey(b"\x51", check_validity=False), check_validity=False) for _ in range(prev_n)] + [lspent[idx]]
            prev_tx = w.Tx(2, 0, [w.TxIn(w.OutPoint(w.rb(32), 0, check_validity=False), b"", 0, check_validity=False)], pv, check_validity=False)
            ins2 = list(ins)
            ins2[idx] = (prev_tx.id, prev_n, ins[idx][2])
            mtx, ltx, mspent, lspent = w.build(ver, lock, ins2, outs, spent, script_sigs, witnesses)
            want = cm.legacy_sighash(redeem if kind == "p2sh" else spk, mtx, idx, ht)
            pins = [PsbtIn(witness_utxo=lspent[k], check_validity=False) if k != idx else
                    PsbtIn(non_witness_utxo=prev_tx, redeem_script=redeem, check_validity=False) for k in range(n_in)]
        # the input's own PSBT_IN_SIGHASH_TYPE: absent, the type asked for, or another one. An explicit hash_type
        # argument is the one the digest is for; an omitted one means the field's (ALL / DEFAULT when absent)
        defined = [0, 1, 2, 3, 0x81, 0x82, 0x83] if taproot else [1, 2, 3, 0x81, 0x82, 0x83]
        fld = r.choice([None, None, ht if ht in defined else None, r.choice(defined), r.choice(defined)])
        if fld is not None:
            pins[idx].sig_hash_type = fld
        ctx.stat("psbt-field:absent" if fld is None else "psbt-field:same-as-asked" if fld == ht else "psbt-field:other-than-asked")

        def model(h, mtx=mtx, mspent=mspent):
            if taproot:
                return cm.taproot_sighash(mtx, idx, mspent, h, cm.TAPSCRIPT if kind == "p2tr-script" else cm.TAPROOT,
                                          cm.ExecData(annex=None, tapleaf_hash=leaf, codesep_pos=0xFFFFFFFF))
            if kind in ("p2wpkh", "p2sh-p2wpkh"):
                return cm.segwit_sighash(b"\x76\xa9\x14" + h20 + b"\x88\xac", mtx, idx, h, amount)
            if kind in ("p2wsh", "p2sh-p2wsh"):
                return cm.segwit_sighash(inner, mtx, idx, h, amount)
            return cm.legacy_sighash(redeem if kind == "p2sh" else spk, mtx, idx, h)

        omitted = (fld or 0) if taproot else (1 if fld is None else fld)
        want_omitted = model(omitted)
        # Psbt.from_tx blanks script_sig/witness of the tx it is given: hand it a copy
        _, ltx_copy, _, _ = w.build(mtx.version, mtx.lock_time, [(i.prev_hash[::-1], i.prev_n, i.sequence) for i in mtx.vin], outs, spent)
        po = outcome(Psbt.from_tx, ltx_copy, pins, None, check_validity=False)
        if po[0] == "raise":
            ctx.stat(f"psbt:not-buildable:{type(po[1]).__name__}")
            continue
        psbt = po[1]
        case["psbt"] = True
        case["psbt_in_sig_hash_type"] = fld
        vo = outcome(psbt.assert_valid)
        if vo[0] == "raise":   # the PSBT itself is refused (e.g. outputs above 21M coins): no digest is owed
            if not is_lib_exc(vo[1]):
                ctx.violation(f"Psbt.assert_valid:foreign-exception:{type(vo[1]).__name__}", f"assert_valid raised {vo[1]!r}", case)
            ctx.stat("psbt:invalid-by-library-rules")
            continue
        if taproot:
            leaf = cm.tapleaf_hash(wit[2][0] & 0xFE, wit[1]) if kind == "p2tr-script" else b""
            if kind == "p2tr-script" and (wit[2][0] & 0xFE) != 0xC0:
                continue
            _judge(ctx, "psbt.taproot_sig_hash", outcome(taproot_sig_hash, psbt, idx, leaf_hash=leaf, hash_type=ht), want, case)
            _judge(ctx, "psbt.taproot_sig_hash:type-omitted", outcome(taproot_sig_hash, psbt, idx, leaf_hash=leaf), want_omitted, case)
            ctx.case("psbt:taproot", ("PT", mtx.ser(), idx, ht, leaf, fld))
        else:
            _judge(ctx, "psbt.ecdsa_sig_hash", outcome(ecdsa_sig_hash, psbt, idx, hash_type=ht), want, case)
            _judge(ctx, "psbt.ecdsa_sig_hash:type-omitted", outcome(ecdsa_sig_hash, psbt, idx), want_omitted, case)
            ctx.case("psbt:ecdsa", ("PE", mtx.ser(), idx, ht, fld))
        so = outcome(psbt.serialize, check_validity=False)
        if so[0] == "raise":
            ctx.stat("psbt:not-serializable")
            continue
        vo = outcome(PsbtView, so[1])
        if vo[0] == "raise":
            if not is_lib_exc(vo[1]):
                ctx.violation(f"PsbtView:foreign-exception:{type(vo[1]).__name__}", f"PsbtView() raised {vo[1]!r}", case)
            ctx.stat("psbtview:refused")
            continue
        if taproot:
            _judge(ctx, "PsbtView.taproot_sig_hash", outcome(vo[1].taproot_sig_hash, idx, leaf_hash=leaf, hash_type=ht), want, case)
            _judge(ctx, "PsbtView.taproot_sig_hash:type-omitted", outcome(vo[1].taproot_sig_hash, idx, leaf_hash=leaf), want_omitted, case)
            ctx.case("psbtview:taproot", ("VT", mtx.ser(), idx, ht, leaf, fld))
        else:
            _judge(ctx, "PsbtView.ecdsa_sig_hash", outcome(vo[1].ecdsa_sig_hash, idx, hash_type=ht), want, case)
            _judge(ctx, "PsbtView.ecdsa_sig_hash:type-omitted", outcome(vo[1].ecdsa_sig_hash, idx), want_omitted, case)
            ctx.case("psbtview:ecdsa", ("VE", mtx.ser(), idx, ht, fld))
    reach.stop()
    reach.report(ctx)
