"""C06 - text encodings and addresses round-trip and accept exactly what the specs accept.

Reference-model monitor: every verdict (accept with this payload / refuse) the library gives
on a string is compared with independent decoders written from the specifications
(``rv.ref.base58``, ``rv.ref.bech32``, ``rv.ref.addr``); the strings are valid ones of every
kind and every single-character edit of them, plus re-checksummed strings that are wrong in
exactly one semantic field (version byte, witness version, program length, padding, key range).
"""

from __future__ import annotations

import hashlib
import json
import os

from ..ctx import Ctx, is_lib_exc, outcome
from ..hooks import Reach, patched
from ..ref import addr as ra
from ..ref import base58 as r58
from ..ref import bech32 as r32

PROPERTY = "C06"
RULE = (
    "valid strings of every kind (p2pkh/p2sh per network, bech32 v0, bech32m v1..16, WIF compressed/uncompressed, "
    "xprv/xpub with every BIP32/SLIP132 version, silent-payment addresses) are written by the reference encoders from "
    "class-stratified payloads; each is edited by every single-character substitution (whole alphabet plus look-alikes, "
    "whitespace, non-ASCII), adjacent transposition, single and whole-string case flip, deletion, insertion and every "
    "truncation, and the library's verdict+payload+network is compared with the reference decoder's. Exhaustive grids: "
    "witness version 0..17,31 x program length 0..42 x both checksum constants x five networks; all 256 version bytes for "
    "addresses and WIF; every script template x network for the inverse maps. A case is non-trivial when the reference "
    "verdict is computed independently and compared (distinct = distinct (decoder, string))."
)
ASSUMPTIONS = [
    "rv.ref.bech32 is a transcription of the BIP350 reference decoder; rv.ref.base58 is big-integer Base58Check; both pass the published vectors",
    "btclib/_data/<network>.json are the specification of the five networks' prefixes (read by an independent reader)",
    "hashlib (SHA256, RIPEMD160 where OpenSSL provides it) is trusted; RIPEMD160 is self-tested on the designers' strings",
    "the library's String convention (surrounding whitespace stripped) is not a violation; the comparator strips too",
    "base58.decode's documented 112-character cap is a stated restriction, counted (b58:over-cap) and not judged",
]

VEC = os.path.join(os.path.dirname(os.path.dirname(os.path.dirname(os.path.abspath(__file__)))), "vectors")

MECH_FUNCS = [
    "btclib.base58:encode", "btclib.base58:decode", "btclib.base58:_b58encode", "btclib.base58:_b58decode",
    "btclib.bech32:_polymod", "btclib.bech32:_decode", "btclib.bech32:decode", "btclib.bech32:encode",
    "btclib.bech32:_m_from_wit_ver",
    "btclib.b32:power_of_2_base_conversion", "btclib.b32:bytes_from_witness_program",
    "btclib.b32:witness_from_address", "btclib.b32:address_from_witness",
    "btclib.network:network_from_key_value", "btclib.network:networks_from_key_value",
    "btclib.network:network_from_xkeyversion",
    "btclib.b58:address_from_h160", "btclib.b58:h160_from_address", "btclib.b58:wif_from_prv_key",
    "btclib.script.script_pub_key:type_and_payload", "btclib.script.script_pub_key:address",
    "btclib.script.script_pub_key:ScriptPubKey.from_address",
    "btclib.script.script_pub_key:is_p2pkh", "btclib.script.script_pub_key:is_p2sh",
    "btclib.script.script_pub_key:is_p2wpkh", "btclib.script.script_pub_key:is_p2wsh",
    "btclib.script.script_pub_key:is_p2tr", "btclib.script.script_pub_key:is_segwit",
    "btclib.to_prv_key:prv_keyinfo_from_prv_key", "btclib.to_pub_key:pub_keyinfo_from_key",
    "btclib.hashes:hash160", "btclib.hashes:ripemd160", "btclib._ripemd160:ripemd160",
    "btclib.bip21:Bip21.parse", "btclib.bip21:Bip21.serialize",
    "btclib.silent_payments:keys_from_address", "btclib.silent_payments:address_from_keys",
    "btclib.slip132:address_from_xpub",
]

B58_SUBS = r58.ALPHABET + "0OIl" + " \t_" + "\u00e9\u212a"
B32_SUBS = r32.CHARSET + "1bio" + "B" + " \t-" + "\u00e9\u212a\x7f"
MUT_KINDS = ("b58addr", "segwit", "wif", "xkey", "sp")


# ----------------------------------------------------------------------- plan
def plan(tier: str, seed: int) -> list[dict]:
    q = tier == "quick"
    bud = {"_budget_s": 85 if q else 650, "_timeout_s": 600 if q else 2400}
    specs: list[dict] = []
    # (kind, shards, base strings per shard)
    table = [("xkey", 4, 40), ("segwit", 3, 110), ("wif", 2, 150), ("sp", 2, 70), ("b58addr", 2, 300)] if q else \
            [("xkey", 6, 260), ("segwit", 4, 800), ("wif", 3, 700), ("sp", 4, 220), ("b58addr", 3, 1400)]
    for i in range(2 if q else 4):
        specs.append({"name": f"inverse-{i}", "fn": "shard_inverse", "part": i, "n": 110 if q else 700, **bud})
    for kind, shards, n in table:
        for i in range(shards):
            specs.append({"name": f"mut-{kind}-{i}", "fn": "shard_mutate", "kind": kind, "part": i, "parts": shards,
                          "n": n, **bud})
    specs.append({"name": "grid-segwit", "fn": "shard_grid", "reps": 1 if q else 6, **bud})
    specs.append({"name": "semantic", "fn": "shard_semantic", "reps": 1 if q else 8, **bud})
    specs.append({"name": "codec-b58", "fn": "shard_b58codec", "n": 40 if q else 500, **bud})
    specs.append({"name": "codec-bech32", "fn": "shard_bech32codec", "n": 400 if q else 6000, **bud})
    specs.append({"name": "ripemd160", "fn": "shard_ripemd", "maxlen": 200 if q else 1400, **bud})
    specs.append({"name": "bip21", "fn": "shard_bip21", "n": 1500 if q else 20000, **bud})
    return specs


def finalize(m: dict, tier: str) -> list[str]:
    out = []
    c, mon, r, a, st = m["classes"], m["monitors"], m["reached"], m["arms"], m["stats"]
    for k in ("bip173-350", "base58-core", "key_io_valid", "key_io_invalid", "bip32", "bip352", "ripemd160-published"):
        if not m["selftest"].get(k):
            out.append(f"oracle self-test {k} never ran")
    for kind in ("b58addr", "anyaddr", "segwit", "prvkey", "pubkey", "xkey", "sp", "b58check", "bech32"):
        if not mon.get(f"verdict:{kind}"):
            out.append(f"monitor verdict:{kind} has no evaluation")
        if not st.get(f"accepted:{kind}"):
            out.append(f"monitor verdict:{kind} never saw an accepted string (accept side unobserved)")
        if not st.get(f"refused:{kind}"):
            out.append(f"monitor verdict:{kind} never saw a refused string (refuse side unobserved)")
    for kind in MUT_KINDS:
        for mc in ("sub", "transpose", "caseflip1", "casewhole", "trunc", "delete", "insert", "ws-surround", "bytes"):
            if not c.get(f"mut:{kind}:{mc}"):
                out.append(f"input class mut:{kind}:{mc} never evaluated")
    for net in ra.NETWORK_NAMES:
        for k in ("p2pkh", "p2sh", "p2wpkh", "p2wsh", "p2tr", "witness_unknown", "wif", "xprv", "xpub"):
            if not c.get(f"net:{net}:{k}"):
                out.append(f"network {net} has no generated case of kind {k}")
    for k in ("grid:decode", "grid:encode", "grid:padding", "sem:b58-version-byte", "sem:wif", "sem:xkey", "sem:sp",
              "inv:address-of-script", "inv:from-address", "inv:non-addressable", "inv:constructors", "inv:slip132",
              "b58:roundtrip", "b58:leading-zeros", "b58:plain-vectors", "b58:over-cap", "b58:out_size",
              "bech32:generic", "bech32:convertbits", "ripemd:length", "ripemd:published", "hash160",
              "bip21:roundtrip", "bip21:amount", "bip21:codepoint", "bip21:refuse"):
        if not c.get(k):
            out.append(f"input class {k} never evaluated")
    for f in ("base58.encode", "base58.decode", "base58._b58encode", "base58._b58decode", "bech32._polymod",
              "bech32._decode", "bech32.decode", "bech32.encode", "bech32._m_from_wit_ver",
              "b32.power_of_2_base_conversion", "b32.bytes_from_witness_program", "b32.witness_from_address",
              "b32.address_from_witness", "network.networks_from_key_value", "network.network_from_key_value",
              "b58.address_from_h160", "b58.h160_from_address", "b58.wif_from_prv_key",
              "script_pub_key.type_and_payload", "script_pub_key.address", "script_pub_key.ScriptPubKey.from_address",
              "script_pub_key.is_p2pkh", "script_pub_key.is_p2sh", "script_pub_key.is_p2wpkh", "script_pub_key.is_p2wsh",
              "script_pub_key.is_p2tr", "script_pub_key.is_segwit",
              "to_prv_key.prv_keyinfo_from_prv_key", "to_pub_key.pub_keyinfo_from_key", "hashes.hash160",
              "hashes.ripemd160", "_ripemd160.ripemd160", "bip21.Bip21.parse", "bip21.Bip21.serialize",
              "silent_payments.keys_from_address", "slip132.address_from_xpub"):
        if not r.get(f):
            out.append(f"mechanism {f} never entered")
    if not a.get("ripemd160:pure-python"):
        out.append("pure-Python RIPEMD160 arm never compared")
    if not a.get("ripemd160:hashlib"):
        out.append("hashlib has no ripemd160 in this build: no independent oracle for the pure-Python RIPEMD160")
    return out


# -------------------------------------------------------------------- library
class _L:
    """The library entry points under observation (imported inside the shard)."""

    def __init__(self):
        from btclib import b32, b58, base58, bech32, silent_payments, slip132
        from btclib.bip32.bip32 import BIP32KeyData
        from btclib.script import script_pub_key as spk
        from btclib.to_prv_key import prv_keyinfo_from_prv_key
        from btclib.to_pub_key import pub_keyinfo_from_key

        self.b32, self.b58, self.base58, self.bech32, self.sp, self.slip132 = b32, b58, base58, bech32, silent_payments, slip132
        self.BIP32KeyData = BIP32KeyData
        self.spk = spk
        self.ScriptPubKey = spk.ScriptPubKey
        self.prv_keyinfo_from_prv_key = prv_keyinfo_from_prv_key
        self.pub_keyinfo_from_key = pub_keyinfo_from_key


class J:
    """Shard-wide judge: context, network tables, library handles, reach observer."""

    def __init__(self, ctx: Ctx):
        self.ctx = ctx
        self.nd = ra.NetData()
        self.L = _L()
        self.reach = Reach()
        import importlib

        for d in MECH_FUNCS:
            modname, _, attr = d.partition(":")
            try:
                obj = importlib.import_module(modname)
                for part in attr.split("."):
                    obj = obj.__dict__[part] if isinstance(obj, type) else getattr(obj, part)
            except (ImportError, AttributeError, KeyError):
                continue
            self.reach.watch(modname.rsplit(".", 1)[-1] + "." + attr, obj)
        self.reach.start()
        self.pool: list[tuple[int, bytes, bytes]] = []  # (q, compressed sec, uncompressed sec) by the reference

    def done(self):
        self.reach.stop()
        self.reach.report(self.ctx)

    def keys(self, n: int):
        rng = self.ctx.rng
        while len(self.pool) < n:
            i = len(self.pool)
            q = [1, ra.N - 1, 2, 3][i] if i < 4 else (rng.randrange(1, 1 << 40) if i % 5 == 0 else rng.randrange(1, ra.N))
            Pt = ra.K1.mul(q, ra.K1.G)
            self.pool.append((q, ra.K1.sec(Pt, True), ra.K1.sec(Pt, False)))
        return self.pool


def selftest(ctx: Ctx, nd: ra.NetData, which: tuple[str, ...]) -> None:
    """Oracle self-tests against published vectors; the library is not consulted."""
    try:
        if "bech32" in which:
            v = json.load(open(os.path.join(VEC, "bip173_bip350.json")))
            bad = []
            bad += [s for s in v["valid_bech32"] if r32.bech32_decode(s)[2] != r32.BECH32]
            bad += [s for s in v["valid_bech32m"] if r32.bech32_decode(s)[2] != r32.BECH32M]
            bad += [s for s in v["invalid_bech32"] if r32.bech32_decode(s)[2] == r32.BECH32]
            bad += [s for s in v["invalid_bech32m"] if r32.bech32_decode(s)[2] == r32.BECH32M]
            for s in v["valid_bech32"] + v["valid_bech32m"]:
                h, d, spec = r32.bech32_decode(s)
                if h is None or r32.bech32_encode(h, d, spec) != s.lower():
                    bad.append(s)
            for a, h in v["valid_address"]:
                w = ra.decode_segwit_address(nd, a)
                if w is None or ra.spk_witness(w[0], w[1]).hex() != h or \
                        r32.segwit_encode(a.lower().split("1")[0], w[0], w[1]) != a.lower():
                    bad.append(a)
            bad += [a for a in v["invalid_address"] if ra.decode_segwit_address(nd, a) is not None]
            n = sum(len(v[k]) for k in v if k != "source")
            ctx.oracle_broken("ref.bech32 vs BIP173/BIP350", repr(bad[:3])) if bad else ctx.oracle_ok("bip173-350", n)
        if "base58" in which:
            rows = json.load(open(os.path.join(VEC, "base58_encode_decode.json")))
            bad = [r for r in rows if r58.b58encode(bytes.fromhex(r[0])) != r[1] or r58.b58decode(r[1]) != bytes.fromhex(r[0])]
            ctx.oracle_broken("ref.base58 vs Core base58_encode_decode", repr(bad[:3])) if bad else ctx.oracle_ok("base58-core", len(rows))
        if "key_io" in which:
            chain = {"main": "mainnet", "test": "testnet", "testnet4": "testnet4", "signet": "signet", "regtest": "regtest"}
            rows = json.load(open(os.path.join(VEC, "key_io_valid.json")))
            bad = []
            for s, h, meta in rows:
                net = chain[meta["chain"]]
                if meta["isPrivkey"]:
                    w = ra.decode_wif(nd, s)
                    if not (w and w[0].to_bytes(32, "big").hex() == h and net in w[1] and w[2] == meta["isCompressed"]
                            and ra.encode_wif(nd, w[0], net, w[2]) == s):
                        bad.append(s)
                else:
                    d = ra.decode_address(nd, s)
                    if not (d and d[0].hex() == h and net in d[1] and ra.address_of_script(nd, bytes.fromhex(h), net) == s):
                        bad.append(s)
            ctx.oracle_broken("ref.addr vs Core key_io_valid", repr(bad[:3])) if bad else ctx.oracle_ok("key_io_valid", len(rows))
            rows = json.load(open(os.path.join(VEC, "key_io_invalid.json")))
            bad = [r[0] for r in rows if ra.decode_address(nd, r[0]) is not None or ra.decode_wif(nd, r[0]) is not None]
            ctx.oracle_broken("ref.addr vs Core key_io_invalid", repr(bad[:3])) if bad else ctx.oracle_ok("key_io_invalid", len(rows))
        if "bip32" in which:
            bad = [s for s, _why in json.load(open(os.path.join(VEC, "bip32_invalid_keys.json"))) if ra.decode_xkey(nd, s) is not None]
            n = 0
            for rows in json.load(open(os.path.join(VEC, "bip32_test_vectors.json"))).values():
                for _path, xpub, xprv in rows:
                    for k in (xpub, xprv):
                        d = ra.decode_xkey(nd, k)
                        n += 1
                        if d is None or ra.encode_xkey(d["version"], d["depth"], d["fp"], d["index"], d["chain"], d["key"]) != k:
                            bad.append(k)
            ctx.oracle_broken("ref.addr xkey vs BIP32 vectors", repr(bad[:3])) if bad else ctx.oracle_ok("bip32", n)
        if "bip352" in which:
            bad, n = [], 0
            for t in json.load(open(os.path.join(VEC, "send_and_receive_test_vectors.json"))):
                for s in t["sending"]:
                    for rcp in s["given"]["recipients"]:
                        if not isinstance(rcp, dict) or "scan_pub_key" not in rcp:
                            continue
                        n += 1
                        d = ra.decode_sp(rcp["address"])
                        if d is None or d[0].hex() != rcp["scan_pub_key"] or d[1].hex() != rcp["spend_pub_key"] or \
                                ra.encode_sp(d[0], d[1], d[2]) != rcp["address"]:
                            bad.append(rcp["address"])
            if bad or not n:
                ctx.oracle_broken("ref.addr silent payments vs BIP352 vectors", repr(bad[:2]) or "no vector")
            else:
                ctx.oracle_ok("bip352", n)
    except Exception as e:  # noqa: BLE001 - a broken self-test is an oracle problem
        ctx.oracle_broken("self-test crashed", repr(e))


# ----------------------------------------------------------------- classifiers
def why_b58(st: str) -> str:
    """How a Base58Check string fails (mechanism tags are keyed on this)."""
    if any(ch.isspace() for ch in st):
        return "interior-whitespace"
    if any(ord(ch) > 126 for ch in st):
        return "non-ascii-char"
    if any(ch not in r58.ALPHABET for ch in st):
        return "non-alphabet-char"
    raw = r58.b58decode(st)
    if raw is None or len(raw) < 4:
        return "too-short"
    if r58.check_decode(st) is None:
        return "checksum"
    return "payload"


def why_b58addr(nd, st: str) -> str:
    w = why_b58(st)
    if w != "payload":
        return w
    p = r58.check_decode(st)
    if len(p) != 21:
        return "payload-length"
    return "unknown-version-byte"


def why_bech32(st: str, limit: int) -> str:
    if any(ord(ch) > 126 for ch in st):
        return "non-ascii-char"
    if any(ch.isspace() for ch in st):
        return "interior-whitespace"
    if any(ord(ch) < 33 for ch in st):
        return "control-char"
    if st.lower() != st and st.upper() != st:
        return "mixed-case"
    if len(st) > limit:
        return "too-long"
    low = st.lower()
    pos = low.rfind("1")
    if pos < 0:
        return "no-separator"
    if pos == 0:
        return "empty-hrp"
    if pos + 7 > len(low):
        return "short-checksum"
    if any(ch not in r32.CHARSET for ch in low[pos + 1:]):
        return "bad-data-char"
    if r32.bech32_decode(st, limit)[0] is None:
        return "checksum"
    return "payload"


def why_segwit(nd, st: str) -> str:
    w = why_bech32(st, 90)
    if w != "payload":
        return w
    hrp, data, spec = r32.bech32_decode(st)
    if hrp not in nd.hrps():
        return "unknown-hrp"
    if not data:
        return "empty-data"
    prog = r32.convertbits(data[1:], 5, 8, False)
    if prog is None:
        return "padding"
    if data[0] > 16:
        return "witness-version>16"
    if (data[0] == 0) != (spec == r32.BECH32):
        return "bech32m-for-v0" if data[0] == 0 else "bech32-for-v1+"
    if not 2 <= len(prog) <= 40:
        return "program-length"
    if data[0] == 0 and len(prog) not in (20, 32):
        return "v0-program-length"
    return "other"


def why_sp(st: str) -> str:
    w = why_bech32(st, 1023)
    if w != "payload":
        return w
    hrp, data, spec = r32.bech32_decode(st, 1023)
    if spec != r32.BECH32M:
        return "bech32-constant"
    if hrp not in ("sp", "tsp"):
        return "unknown-hrp"
    if not data:
        return "empty-data"
    if data[0] == 31:
        return "version-31"
    p = r32.convertbits(data[1:], 5, 8, False)
    if p is None:
        return "padding"
    if len(p) < 66 or (data[0] == 0 and len(p) != 66):
        return "payload-length"
    return "invalid-point"


def why_wif(nd, st: str) -> str:
    w = why_b58(st)
    if w != "payload":
        return w
    p = r58.check_decode(st)
    if len(p) == 78:
        return "xkey-fields"
    if not p or not nd.sharing("wif", p[:1]):
        return "unknown-version-byte"
    if len(p) not in (33, 34):
        return "payload-length"
    if len(p) == 34 and p[33] != 1:
        return "compression-flag"
    return "key-out-of-range"


def why_xkey(nd, st: str) -> str:
    w = why_b58(st)
    if w != "payload":
        return w
    p = r58.check_decode(st)
    if len(p) != 78:
        return "payload-length"
    ver, key = p[:4], p[45:]
    prv, pub = nd.xversions(True), nd.xversions(False)
    if ver not in prv and ver not in pub:
        return "unknown-version"
    if p[4] == 0 and (p[5:9] != b"\x00" * 4 or p[9:13] != b"\x00" * 4):
        return "depth0-with-parent-or-index"
    if ver in prv:
        return "prvkey-prefix" if key[0] != 0 else "prvkey-out-of-range"
    return "pubkey-prefix" if key[0] not in (2, 3) else "pubkey-not-on-curve"


def classify(nd, kind: str, st: str) -> str:
    if kind == "b58addr":
        return why_b58addr(nd, st)
    if kind == "segwit":
        return why_segwit(nd, st)
    if kind == "anyaddr":
        low = st.lower()
        return ("segwit-" + why_segwit(nd, st)) if any(low.startswith(h + "1") for h in nd.hrps()) else ("b58-" + why_b58addr(nd, st))
    if kind == "sp":
        return why_sp(st)
    if kind == "xkey":
        return why_xkey(nd, st)
    if kind in ("prvkey", "pubkey"):
        return why_wif(nd, st)
    if kind == "b58check":
        return why_b58(st)
    return "other"


# ------------------------------------------------------------------ the views
def lib_view(L: _L, kind: str, s):
    """(payload tuple, network or None, extra) as the library reads the string."""
    if kind == "b58addr":
        t, h, net = L.b58.h160_from_address(s)
        return (t, bytes(h)), net, None
    if kind == "anyaddr":
        o = L.ScriptPubKey.from_address(s)
        return (bytes(o.script),), o.network, None
    if kind == "segwit":
        v, p, net = L.b32.witness_from_address(s)
        return (v, bytes(p)), net, None
    if kind == "prvkey":
        q, net, c = L.prv_keyinfo_from_prv_key(s)
        return (q, c), net, None
    if kind == "pubkey":
        k, net = L.pub_keyinfo_from_key(s)
        return (bytes(k),), net, None
    if kind == "xkey":
        d = L.BIP32KeyData.b58decode(s)
        return (bytes(d.version), d.depth, bytes(d.parent_fingerprint), d.index, bytes(d.chain_code), bytes(d.key)), None, d
    if kind == "sp":
        B, M, nt = L.sp.keys_from_address(s)
        return (ra.K1.sec(tuple(B)), ra.K1.sec(tuple(M))), nt, (B, M)
    if kind == "b58check":
        return (bytes(L.base58.decode(s)),), None, None
    raise AssertionError(kind)


def _pub_of(q: int, compressed: bool) -> bytes:
    return ra.K1.sec(ra.K1.mul(q, ra.K1.G), compressed)


def ref_view(nd, kind: str, st: str):
    """(payload tuple, networks | network type | None) as the specification reads it, or None."""
    if kind == "b58addr":
        d = ra.decode_b58_address(nd, st)
        return None if d is None else ((d[0], d[1]), d[2])
    if kind == "anyaddr":
        d = ra.decode_address(nd, st)
        return None if d is None else ((d[0],), d[1])
    if kind == "segwit":
        d = ra.decode_segwit_address(nd, st)
        return None if d is None else ((d[0], d[1]), d[2])
    if kind == "prvkey":
        d = ra.decode_prvkey_string(nd, st)
        return None if d is None else ((d[1], d[3]), d[2])
    if kind == "pubkey":
        x = ra.decode_xkey(nd, st)
        if x is not None:
            return ((x["key"],), x["nets"]) if not x["private"] else ((_pub_of(int.from_bytes(x["key"][1:], "big"), True),), x["nets"])
        w = ra.decode_wif(nd, st)
        if w is not None:
            return ((_pub_of(w[0], w[2]),), w[1])
        if len(st) in (66, 130) and all(ch in "0123456789abcdefABCDEF" for ch in st):
            b = bytes.fromhex(st)
            if ra.K1.from_sec(b) is not None:
                return ((b,), frozenset(["mainnet"]))
        d = ra.decode_prvkey_string(nd, st)
        if d is not None:
            return ((_pub_of(d[1], d[3]),), d[2])
        return None
    if kind == "xkey":
        x = ra.decode_xkey(nd, st)
        return None if x is None else ((x["version"], x["depth"], x["fp"], x["index"], x["chain"], x["key"]), None)
    if kind == "sp":
        d = ra.decode_sp(st)
        return None if d is None else ((d[0], d[1]), d[2])
    if kind == "b58check":
        p = r58.check_decode(st)
        return None if p is None else ((p,), None)
    raise AssertionError(kind)


def reencode(j: J, kind: str, st: str, got, net, extra):
    """(what the library writes back, the canonical spelling of the string) or None when not applicable."""
    L, nd = j.L, j.nd
    if kind == "b58addr":
        return L.b58.address_from_h160(got[0], got[1], net), st
    if kind == "segwit":
        return L.b32.address_from_witness(got[0], got[1], net), st.lower()
    if kind == "anyaddr":
        canon = st.lower() if ra.decode_segwit_address(nd, st) is not None else st
        return L.spk.address(got[0], net), canon
    if kind == "prvkey":
        if ra.decode_wif(nd, st) is None:
            return None
        return L.b58.wif_from_prv_key(got[0], net, got[1]), st
    if kind == "xkey":
        return extra.b58encode(), st
    if kind == "sp":
        hrp, data, _ = r32.bech32_decode(st, 1023)
        if not data or data[0] != 0:
            return None
        return L.sp.address_from_keys(extra[0], extra[1], "mainnet" if net == "main" else "testnet"), st.lower()
    if kind == "b58check":
        return L.base58.encode(got[0]).decode("ascii"), st
    return None


def judge(j: J, kind: str, s, feature: str = "") -> bool | None:
    """Compare the library's reading of ``s`` with the reference's.  Returns the reference verdict."""
    ctx, nd = j.ctx, j.nd
    raw = s if isinstance(s, str) else bytes(s).decode("ascii", "replace")
    st = raw.strip()
    want = ref_view(nd, kind, st)
    o = outcome(lib_view, j.L, kind, s)
    ctx.mon(f"verdict:{kind}")
    case = {"decoder": kind, "string": raw}
    if o[0] == "ok":
        got, net, extra = o[1]
        if want is None:
            why = classify(nd, kind, st)
            ctx.violation(f"{kind}:accepted:{why}",
                          f"{kind} decoder accepted {raw!r} -> {got!r} ({net}); the reference refuses it: {why}", case)
            return False
        ctx.stat(f"accepted:{kind}")
        if got != want[0]:
            ctx.violation(f"{kind}:wrong-payload", f"{kind} decoder read {raw!r} as {got!r}, reference {want[0]!r}", case)
        elif want[1] is not None and (net != want[1] if isinstance(want[1], str) else net not in want[1]):
            types = {want[1]} if isinstance(want[1], str) else {nd.ntype(n) for n in want[1]}
            mine = net if net in ("main", "test") else (nd.ntype(net) if net in nd.nets else "?")
            tag = "network-type-confused" if mine not in types else "network-not-sharing-prefix"
            ctx.violation(f"{kind}:{tag}", f"{raw!r} read as network {net!r}; networks sharing its prefix: {sorted(types) if isinstance(want[1], str) else sorted(want[1])}", case)
        else:
            ro = outcome(reencode, j, kind, st, got, net, extra)
            if ro[0] == "raise":
                how = ":p2ms-lookalike" if kind == "anyaddr" and p2ms_lookalike(got[0]) else ""
                ctx.violation(f"{kind}:reencode-raised{how}", f"{raw!r} decoded but writing it back raised {ro[1]!r}", case)
            elif ro[1] is not None:
                ctx.mon(f"reencode:{kind}")
                if ro[1][0] != ro[1][1]:
                    ctx.violation(f"{kind}:reencode-differs", f"{raw!r} decoded, written back as {ro[1][0]!r}, canonical {ro[1][1]!r}", case)
        return True
    e = o[1]
    if not is_lib_exc(e):
        ctx.stat(f"foreign-exception:{kind}:{type(e).__name__}")
    if want is not None:
        if raw != st:
            ctx.stat(f"surrounding-whitespace-not-stripped:{kind}")  # bytes input / codec level: either reading is fine
        elif kind in ("b58check", "xkey", "prvkey", "pubkey", "b58addr", "anyaddr") and len(st) > 112 and is_lib_exc(e):
            ctx.stat("b58:over-cap-refused")
        else:
            ctx.violation(f"{kind}:valid-refused{':' + feature if feature else ''}",
                          f"{kind} decoder refused {raw!r} ({e!r}); the reference accepts it as {want[0]!r}", case)
        return True
    ctx.stat(f"refused:{kind}")
    return False


# ------------------------------------------------------------------- mutants
def mutants(s: str, subs: str, rng):
    """(class, edited string) for every single-character edit the property's quantifier lists."""
    L = len(s)
    for i in range(L):
        for c in subs:
            if c != s[i]:
                yield "sub", s[:i] + c + s[i + 1:]
    for i in range(L - 1):
        if s[i] != s[i + 1]:
            yield "transpose", s[:i] + s[i + 1] + s[i] + s[i + 2:]
    for i in range(L):
        f = s[i].swapcase()
        if f != s[i]:
            yield "caseflip1", s[:i] + f + s[i + 1:]
    for w in {s.upper(), s.lower(), s.swapcase(), s.upper().replace("K", "\u212a")} - {s}:
        yield "casewhole", w
    for i in range(L):
        yield "trunc", s[:i]
        if i:
            yield "trunc", s[i:]
    for i in range(L):
        yield "delete", s[:i] + s[i + 1:]
    alpha = subs[:32]
    for i in range(L + 1):
        for c in (rng.choice(alpha), "q", "1", " "):
            yield "insert", s[:i] + c + s[i:]
    for w in (" " + s, s + "\n", "\t " + s + " \r\n", "\u2003" + s, s + "\x00", "\x00" + s):
        yield "ws-surround", w


def _hash_classes(rng, n: int) -> bytes:
    k = rng.randrange(8)
    if n < 2:
        return bytes(rng.randrange(256) for _ in range(n))
    if k == 0:
        return bytes(n)
    if k == 1:
        return b"\xff" * n
    if k == 2:
        z = rng.randrange(1, n)
        return bytes(z) + bytes(rng.randrange(1, 256) for _ in range(n - z))
    if k == 3:
        return bytes(rng.randrange(256) for _ in range(n - 1)) + b"\x00"
    return bytes(rng.randrange(256) for _ in range(n))


def base_strings(j: J, kind: str, idx: int):
    """The idx-th valid string of a kind, written by the reference: (string, decoders, feature, network-class)."""
    nd, rng, ctx = j.nd, j.ctx.rng, j.ctx
    net = ra.NETWORK_NAMES[idx % 5]
    if kind == "b58addr":
        typ = ("p2pkh", "p2sh")[(idx // 5) % 2]
        h = _hash_classes(rng, 20)
        ctx.classes[f"net:{net}:{typ}"] += 1
        return r58.check_encode(nd.value(net, typ) + h), ("b58addr", "anyaddr"), typ
    if kind == "segwit":
        c = (idx // 5) % 6
        if c == 0:
            ver, ln, typ = 0, 20, "p2wpkh"
        elif c == 1:
            ver, ln, typ = 0, 32, "p2wsh"
        elif c == 2:
            ver, ln, typ = 1, 32, "p2tr"
        else:
            ver, ln, typ = rng.randrange(1, 17), rng.choice([2, 3, 20, 32, 33, 39, 40, rng.randrange(2, 41)]), "witness_unknown"
            if (ver, ln) == (1, 32):
                ln = 31
        s = r32.segwit_encode(nd.value(net, "hrp"), ver, _hash_classes(rng, ln))
        if idx % 7 == 3:
            s = s.upper()
        ctx.classes[f"net:{net}:{typ}"] += 1
        return s, ("segwit", "anyaddr"), f"v{min(ver, 2)}"
    if kind == "wif":
        compressed = bool((idx // 5) % 2)
        qc = (idx // 10) % 5
        q = [1, ra.N - 1, rng.randrange(1, 1 << 64), rng.randrange(1, ra.N), rng.randrange(1, ra.N)][qc]
        ctx.classes[f"net:{net}:wif"] += 1
        return ra.encode_wif(nd, q, net, compressed), ("prvkey",) + (("pubkey",) if idx % 4 == 0 else ()), \
            "compressed" if compressed else "uncompressed"
    if kind == "xkey":
        private = bool((idx // 5) % 2)
        fields = ra.XPRV_FIELDS if private else ra.XPUB_FIELDS
        f = fields[(idx // 10) % 5]
        version = nd.value(net, f)
        depth = [0, 1, 255, rng.randrange(2, 255)][(idx // 50) % 4]
        fp = b"\x00" * 4 if depth == 0 else _hash_classes(rng, 4)
        index = 0 if depth == 0 else rng.choice([0, 1, 0x7FFFFFFF, 0x80000000, 0xFFFFFFFF, rng.randrange(1 << 32)])
        q, csec, _ = j.keys(12)[rng.randrange(12)]
        key = b"\x00" + q.to_bytes(32, "big") if private else csec
        ctx.classes[f"net:{net}:{'xprv' if private else 'xpub'}"] += 1
        ctx.classes[f"xversion:{f}"] += 1
        return ra.encode_xkey(version, depth, fp, index, _hash_classes(rng, 32), key), \
            ("xkey", "prvkey" if private else "pubkey"), f
    if kind == "sp":
        ks = j.keys(12)
        a, b = ks[rng.randrange(12)][1], ks[rng.randrange(12)][1]
        nt = nd.ntype(net)
        if idx % 6 == 5:
            ver = rng.randrange(1, 31)
            s = ra.encode_sp(a, b, nt, ver, bytes(rng.randrange(256) for _ in range(rng.choice([0, 1, 5, 33]))))
        else:
            s = ra.encode_sp(a, b, nt)
        ctx.classes[f"sp:{nt}"] += 1
        return s, ("sp",), "v0" if idx % 6 != 5 else "v1+"
    raise AssertionError(kind)


def shard_mutate(ctx: Ctx) -> None:
    j = J(ctx)
    kind, part, parts = ctx.params["kind"], ctx.params["part"], ctx.params["parts"]
    selftest(ctx, j.nd, {"b58addr": ("base58", "key_io"), "segwit": ("bech32", "key_io"), "wif": ("base58", "key_io"),
                         "xkey": ("base58", "bip32"), "sp": ("bech32", "bip352")}[kind])
    subs = B58_SUBS if kind in ("b58addr", "wif", "xkey") else B32_SUBS
    done = 0
    for k in range(ctx.params["n"]):
        if ctx.out_of_time():
            ctx.notes.append(f"{ctx.shard}: budget reached after {done} base strings")
            break
        idx = k * parts + part
        s, decoders, feature = base_strings(j, kind, idx)
        # the unedited string, as str and as bytes, must be accepted by every decoder of its kind
        for d in decoders:
            if judge(j, d, s, feature) is not True:
                ctx.inconclusive_(f"reference refuses its own {kind} string {s!r}")
            judge(j, d, s.encode("ascii"), feature)
        ctx.bulk(f"mut:{kind}:bytes", len(decoders))
        ctx.case(f"base:{kind}", (kind, s), sample={"kind": kind, "string": s, "decoders": decoders})
        # decoders of the other families must refuse it (judged by their own references)
        for other in ("b58addr", "segwit", "prvkey", "xkey", "sp"):
            if other not in decoders:
                judge(j, other, s)
                ctx.bulk("mut:cross-kind", 1)
        counts: dict[str, int] = {}
        for mclass, m in mutants(s, subs, ctx.rng):
            for d in decoders:
                judge(j, d, m, feature)
            counts[mclass] = counts.get(mclass, 0) + len(decoders)
        for mclass, n in counts.items():
            ctx.bulk(f"mut:{kind}:{mclass}", n)
        done += 1
    ctx.stat(f"base-strings:{kind}", done)
    j.done()


# ---------------------------------------------------------------- segwit grid
def shard_grid(ctx: Ctx) -> None:
    """Every witness version x program length x checksum constant x network: accept iff the reference accepts."""
    j = J(ctx)
    nd, rng, L = j.nd, ctx.rng, j.L
    selftest(ctx, nd, ("bech32", "key_io"))
    versions = list(range(0, 18)) + [31]
    for rep in range(ctx.params["reps"]):
        for net in ra.NETWORK_NAMES:
            hrp = nd.value(net, "hrp")
            for ver in versions:
                for ln in range(0, 43):
                    prog = _hash_classes(rng, ln) if ln else b""
                    for spec in (r32.BECH32, r32.BECH32M):
                        s = r32.bech32_encode(hrp, [ver] + r32.convertbits(prog, 8, 5), spec)
                        if (ver + ln) % 5 == 0:
                            s = s.upper()
                        judge(j, "segwit", s, f"v{min(ver, 2)}")
                        judge(j, "anyaddr", s, f"v{min(ver, 2)}")
                    ctx.bulk("grid:decode", 4)
                    # the encoder: whatever it writes must be the reference string and must read back
                    want = r32.segwit_encode(hrp, ver, prog) if ver <= 16 else None
                    o = outcome(L.b32.address_from_witness, ver, prog, net)
                    case = {"network": net, "version": ver, "program": prog}
                    if o[0] == "ok":
                        if want is None:
                            back = outcome(L.b32.witness_from_address, o[1])
                            if back[0] == "raise" or (back[1][0], bytes(back[1][1])) != (ver, prog):
                                ctx.violation("segwit:encoded-not-decodable",
                                              f"address_from_witness({ver}, {ln} bytes, {net}) wrote {o[1]!r}, which does not read back "
                                              f"({back[1]!r}); the reference has no address for it", case)
                            else:
                                judge(j, "segwit", o[1])
                        elif o[1] != want:
                            ctx.violation("segwit:encoder-differs", f"address_from_witness({ver}, {prog.hex()}, {net}) = {o[1]!r}, reference {want!r}", case)
                    elif want is not None:
                        ctx.violation("segwit:valid-program-not-encodable",
                                      f"address_from_witness({ver}, {ln} bytes, {net}) raised {o[1]!r}; reference writes {want!r}", case)
                    ctx.bulk("grid:encode", 1)
                    if want is not None:
                        typ = ra.script_type(ra.spk_witness(ver, prog))
                        ctx.classes[f"net:{net}:{typ}"] += 1
        # padding: every valid program length, wrong padding of each shape, checksum recomputed
        for net in ra.NETWORK_NAMES:
            hrp = nd.value(net, "hrp")
            for ver in (0, 1, 2, 16):
                spec = r32.BECH32 if ver == 0 else r32.BECH32M
                for ln in range(1, 42):
                    prog = _hash_classes(rng, ln)
                    sym = r32.convertbits(prog, 8, 5)
                    padbits = (5 - (8 * ln) % 5) % 5
                    variants = [sym + [0], sym + [0, 0], sym[:-1], sym + [rng.randrange(1, 32)]]
                    for b in range(padbits):
                        variants.append(sym[:-1] + [sym[-1] | (1 << b)])
                    if padbits:
                        variants.append(sym[:-1] + [sym[-1] | ((1 << padbits) - 1)])
                    for v in variants:
                        s = r32.bech32_encode(hrp, [ver] + v, spec)
                        if len(s) <= 95:
                            judge(j, "segwit", s)
                            judge(j, "anyaddr", s)
                            ctx.bulk("grid:padding", 2)
        # witness programs that end like a multisig script: decoded, then written back through address()
        for net in ra.NETWORK_NAMES:
            for ver, n_, ln in ((1, 1, 40), (1, 16, 35), (2, 3, 36), (16, 16, 40), (5, 4, 38)):
                s = r32.segwit_encode(nd.value(net, "hrp"), ver, _hash_classes(rng, ln - 2) + bytes([0x50 + n_, 0xAE]))
                judge(j, "segwit", s)
                judge(j, "anyaddr", s)
                ctx.bulk("grid:p2ms-lookalike-program", 2)
        # length cap: 90 characters is the last accepted length (only reachable with a long HRP: judged on bech32 level)
    ctx.exhaustive.append("segwit addresses: witness version 0..17,31 x program length 0..42 x bech32/bech32m x five networks")
    ctx.sample("grid", {"versions": versions, "lengths": "0..42", "networks": list(ra.NETWORK_NAMES)})
    j.done()


# ------------------------------------------------------- re-checksummed fields
def shard_semantic(ctx: Ctx) -> None:
    """Strings with a valid checksum that are wrong (or right) in exactly one field."""
    j = J(ctx)
    nd, rng = j.nd, ctx.rng
    selftest(ctx, nd, ("base58", "bech32", "key_io", "bip32", "bip352"))
    keys = j.keys(10)
    for rep in range(ctx.params["reps"]):
        # all 256 version bytes for base58 addresses, lengths around 20
        for vb in range(256):
            for ln in (19, 20, 21):
                s = r58.check_encode(bytes([vb]) + _hash_classes(rng, ln))
                judge(j, "b58addr", s)
                judge(j, "anyaddr", s)
            ctx.bulk("sem:b58-version-byte", 6)
        # WIF: all version bytes x body shapes x key classes
        qs = [0, 1, ra.N - 1, ra.N, ra.N + 1, (1 << 256) - 1, rng.randrange(1, ra.N)]
        for vb in range(256):
            known = bool(nd.sharing("wif", bytes([vb])))
            for q in qs if known else qs[1:3]:
                body = q.to_bytes(32, "big")
                for tail in (b"", b"\x01", b"\x00", b"\x02", b"\x01\x01"):
                    judge(j, "prvkey", r58.check_encode(bytes([vb]) + body + tail))
                    ctx.bulk("sem:wif", 1)
            if known:
                for ln in (0, 1, 31):
                    judge(j, "prvkey", r58.check_encode(bytes([vb]) + bytes([7]) * ln))
                    ctx.bulk("sem:wif", 1)
        # extended keys
        prv, pub = nd.xversions(True), nd.xversions(False)
        versions = sorted(set(prv) | set(pub))
        unknown = [b"\x00\x00\x00\x00", b"\xff\xff\xff\xff"] + [(int.from_bytes(v, "big") + d).to_bytes(4, "big") for v in versions[:6] for d in (1, -1)]
        unknown = [v for v in unknown if v not in prv and v not in pub]
        q, csec, usec = keys[rng.randrange(len(keys))]
        xbad = next(x for x in (rng.randrange(ra.P) for _ in range(100)) if ra.K1.lift_x(x) is None)
        keyforms = {
            "prv-ok": b"\x00" + q.to_bytes(32, "big"), "prv-zero": bytes(33), "prv-n": b"\x00" + ra.N.to_bytes(32, "big"),
            "prv-n-1": b"\x00" + (ra.N - 1).to_bytes(32, "big"), "prv-max": b"\x00" + b"\xff" * 32,
            "prv-prefix01": b"\x01" + q.to_bytes(32, "big"),
            "pub-ok-02-03": csec, "pub-other-parity": bytes([csec[0] ^ 1]) + csec[1:], "pub-not-on-curve": b"\x02" + xbad.to_bytes(32, "big"),
            "pub-x>=p": b"\x02" + (ra.P + 1).to_bytes(32, "big"),
            "pub-prefix04": b"\x04" + csec[1:], "pub-prefix00": b"\x00" + csec[1:], "pub-prefix05": b"\x05" + csec[1:],
        }
        for version in versions + unknown:
            for kf, key in keyforms.items():
                for depth, fp, index in ((0, b"\x00" * 4, 0), (0, b"\x00\x00\x00\x01", 0), (0, b"\x00" * 4, 1), (1, b"\x00" * 4, 0),
                                         (255, b"\x01\x02\x03\x04", 0xFFFFFFFF)):
                    s = ra.encode_xkey(version, depth, fp, index, _hash_classes(rng, 32), key)
                    judge(j, "xkey", s, kf)
                    judge(j, "prvkey", s, kf)
                    judge(j, "pubkey", s, kf)
                    ctx.bulk("sem:xkey", 3)
        for version in versions:
            good = keyforms["prv-ok"] if version in prv else keyforms["pub-ok-02-03"]
            raw = version + b"\x01" + b"\x01\x02\x03\x04" + b"\x00\x00\x00\x05" + bytes(32) + good
            for payload in (raw[:-1], raw + b"\x00", raw[:45], raw[:4]):
                s = r58.check_encode(payload)
                judge(j, "xkey", s)
                judge(j, "prvkey", s)
                ctx.bulk("sem:xkey", 2)
        # silent-payment addresses
        a, b = keys[rng.randrange(len(keys))][1], keys[rng.randrange(len(keys))][1]
        badpt = b"\x02" + xbad.to_bytes(32, "big")
        for hrp in ("sp", "tsp", "spx", "bc", "tb", "SP"):
            for ver in range(32):
                for spec in (r32.BECH32M, r32.BECH32):
                    payloads = [a + b, a + b + b"\x00", (a + b)[:-1], a + b + bytes(range(34)), a + badpt, badpt + b,
                                b"\x04" + a[1:] + b, a + b"\x00" + b[1:]]
                    if ver not in (0, 1, 30, 31) or hrp not in ("sp", "tsp"):
                        payloads = payloads[:3]
                    for pl in payloads:
                        s = r32.bech32_encode(hrp.lower(), [ver] + r32.convertbits(pl, 8, 5), spec)
                        if hrp == "SP":
                            s = s.upper()
                        judge(j, "sp", s, f"v{min(ver, 1)}")
                        ctx.bulk("sem:sp", 1)
                    # padding errors with a right checksum
                    sym = r32.convertbits(a + b, 8, 5)
                    for v in (sym[:-1] + [sym[-1] | 1], sym + [0]):
                        judge(j, "sp", r32.bech32_encode(hrp.lower(), [ver] + v, spec))
                        ctx.bulk("sem:sp", 1)
    ctx.exhaustive.append("all 256 version bytes for base58 addresses (hash length 19..21) and for WIF (body shapes x key classes)")
    ctx.sample("semantic", {"xkey-versions": [v.hex() for v in versions], "unknown-versions": [v.hex() for v in unknown]})
    j.done()


# ------------------------------------------------------------- Base58Check codec
def shard_b58codec(ctx: Ctx) -> None:
    j = J(ctx)
    nd, rng, L = j.nd, ctx.rng, j.L
    selftest(ctx, nd, ("base58",))
    from btclib import base58 as lb

    # Core's plain-Base58 vectors through the private codec
    for h, s in json.load(open(os.path.join(VEC, "base58_encode_decode.json"))):
        raw = bytes.fromhex(h)
        o1, o2 = outcome(lb._b58encode, raw), outcome(lb._b58decode, s.encode())
        if o1[0] == "raise" or o1[1] != s.encode():
            ctx.violation("b58:plain-encode-differs", f"_b58encode({h}) = {o1[1]!r}, Core vector {s!r}", {"hex": h})
        if o2[0] == "raise" or o2[1] != raw:
            ctx.violation("b58:plain-decode-differs", f"_b58decode({s!r}) = {o2[1]!r}, Core vector {h}", {"string": s})
        ctx.bulk("b58:plain-vectors", 2)

    def payloads():
        for ln in range(0, 81):
            yield "zeros", bytes(ln)
            yield "ff", b"\xff" * ln
            for z in sorted({0, 1, 2, ln // 2, max(ln - 1, 0)}):
                if z <= ln:
                    yield "leading-zeros", bytes(z) + bytes(rng.randrange(1, 256) for _ in range(ln - z))
            yield "random", bytes(rng.randrange(256) for _ in range(ln))
        # integers around the 10-digit chunk boundaries of the encoder
        for k in (1, 2, 3, 5, 10, 11):
            for d in (-1, 0, 1):
                v = 58 ** (10 * k) + d
                raw = v.to_bytes((v.bit_length() + 7) // 8, "big")
                if len(raw) > 4:
                    yield "chunk-boundary", raw[:-4]  # the checksum bytes follow, so the boundary is only approached
                yield "chunk-boundary", raw

    muts = 0
    for klass, pl in payloads():
        want = r58.check_encode(pl)
        o = outcome(lb.encode, pl)
        case = {"payload": pl}
        if o[0] == "raise" or o[1] != want.encode():
            ctx.violation(f"b58:encode-differs:{klass}", f"base58.encode({pl.hex()}) = {o[1]!r}, reference {want!r}", case)
            continue
        # plain codec on the same bytes (leading-zero preservation without the checksum in the way)
        o1 = outcome(lb._b58encode, pl)
        if o1[0] == "raise" or o1[1] != r58.b58encode(pl).encode():
            ctx.violation(f"b58:plain-encode-differs:{klass}", f"_b58encode({pl.hex()}) = {o1[1]!r}, reference {r58.b58encode(pl)!r}", case)
        o2 = outcome(lb._b58decode, r58.b58encode(pl).encode())
        if o2[0] == "raise" or o2[1] != pl:
            ctx.violation(f"b58:plain-decode-differs:{klass}", f"_b58decode({r58.b58encode(pl)!r}) = {o2[1]!r}, reference {pl.hex()}", case)
        if len(want) > lb.MAX_LENGTH:
            d = outcome(lb.decode, want)
            if d[0] == "ok" and d[1] != pl:
                ctx.violation("b58:roundtrip-differs", f"decode(encode({pl.hex()})) = {d[1]!r}", case)
            ctx.bulk("b58:over-cap", 1)
            ctx.stat("b58:over-cap-refused" if d[0] == "raise" else "b58:over-cap-accepted")
        else:
            judge(j, "b58check", want, klass)
            judge(j, "b58check", want.encode(), klass)
            ctx.bulk("b58:roundtrip", 2)
        ctx.bulk(f"b58:{klass}" if klass == "leading-zeros" else f"b58:payload:{klass}", 1)
        # out_size: accepted exactly when it is the payload length
        if len(want) <= lb.MAX_LENGTH:
            for size in (len(pl), len(pl) + 1, max(len(pl) - 1, 0), 0):
                d = outcome(lb.decode, want, size)
                if (d[0] == "ok") != (size == len(pl)) or (d[0] == "ok" and d[1] != pl):
                    ctx.violation("b58:out_size", f"decode({want!r}, {size}) -> {d[1]!r} for a {len(pl)}-byte payload", case)
                ctx.bulk("b58:out_size", 1)
        # every edit of a sample of short strings (long ones are covered by the address/key shards)
        if len(want) <= 40 and muts < ctx.params["n"] and not ctx.out_of_time() and rng.random() < 0.5:
            muts += 1
            n = 0
            for _mc, m in mutants(want, B58_SUBS, rng):
                judge(j, "b58check", m)
                n += 1
            ctx.bulk("b58:mutants", n)
    ctx.sample("b58", {"payload lengths": "0..80", "mutated strings": muts})
    j.done()


# ----------------------------------------------------------------- Bech32 codec
def shard_bech32codec(ctx: Ctx) -> None:
    """The generic codec (no 90-character cap, HRP restricted to 0x30..0x7a by the library) and the bit regrouping."""
    j = J(ctx)
    nd, rng, L = j.nd, ctx.rng, j.L
    selftest(ctx, nd, ("bech32",))
    lb, conv = L.bech32, L.b32.power_of_2_base_conversion
    consts = {r32.BECH32: r32.BECH32_CONST, r32.BECH32M: r32.BECH32M_CONST}

    def one(s: str, spec: str, klass: str):
        """bech32.decode(s, m) against the reference with the cap lifted."""
        st = s
        hrp, data, got_spec = r32.bech32_decode(st, limit=10**6)
        want = (hrp, data) if hrp is not None and got_spec == spec else None
        o = outcome(lb.decode, s, consts[spec])
        ctx.mon("verdict:bech32")
        case = {"decoder": "bech32", "string": s, "spec": spec}
        if o[0] == "ok":
            if want is None:
                ctx.violation(f"bech32:accepted:{why_bech32(st, 10**6)}", f"bech32.decode({s!r}, {spec}) -> {o[1]!r}; reference refuses", case)
            elif (o[1][0], list(o[1][1])) != (want[0], want[1]):
                ctx.violation("bech32:wrong-payload", f"bech32.decode({s!r}) -> {o[1]!r}, reference {want!r}", case)
            else:
                ctx.stat("accepted:bech32")
                e = outcome(lb.encode, o[1][0], list(o[1][1]), consts[spec])
                if e[0] == "raise" or e[1] != st.lower().encode():
                    ctx.violation("bech32:reencode-differs", f"{s!r} decoded, written back as {e[1]!r}", case)
        else:
            if want is not None:
                if all(47 < ord(x) < 123 for x in want[0]) and s == s.strip():
                    ctx.violation("bech32:valid-refused", f"bech32.decode({s!r}, {spec}) raised {o[1]!r}; reference reads {want!r}", case)
                else:
                    ctx.stat("bech32:hrp-char-outside-0x30..0x7a-refused")  # the library's documented, narrower HRP range
            else:
                ctx.stat("refused:bech32")
        ctx.bulk(klass, 1)

    v = json.load(open(os.path.join(VEC, "bip173_bip350.json")))
    published = [(s, r32.BECH32) for s in v["valid_bech32"] + v["invalid_bech32"] + v["insertion_issue"]] + \
                [(s, r32.BECH32M) for s in v["valid_bech32m"] + v["invalid_bech32m"]]
    for s, spec in published:
        one(s, spec, "bech32:published")
        one(s, r32.BECH32M if spec == r32.BECH32 else r32.BECH32, "bech32:published")
    hrp_alpha = "abcdefghijklmnopqrstuvwxyz0123456789"
    for i in range(ctx.params["n"]):
        if ctx.out_of_time():
            break
        k = i % 8
        if k == 0:
            hrp = "".join(rng.choice(hrp_alpha) for _ in range(rng.randrange(1, 12)))
        elif k == 1:
            hrp = "1" * rng.randrange(1, 4) + rng.choice(hrp_alpha) + "1"
        elif k == 2:
            hrp = "".join(chr(rng.randrange(33, 127)) for _ in range(rng.randrange(1, 6))).lower()
        elif k == 3:
            hrp = "".join(rng.choice(hrp_alpha) for _ in range(rng.choice([82, 83, 84, 100])))
        else:
            hrp = rng.choice(["bc", "tb", "bcrt", "sp", "tsp", "lnbc", "x"])
        dl = rng.choice([0, 1, 2, 6, 7, 32, 52, 53, 80, 81, 82, 83, 84, 90, 200, rng.randrange(0, 120)])
        data = [rng.randrange(32) for _ in range(dl)]
        spec = (r32.BECH32, r32.BECH32M)[i % 2]
        s = r32.bech32_encode(hrp, data, spec)
        one(s, spec, "bech32:generic")
        one(s, r32.BECH32M if spec == r32.BECH32 else r32.BECH32, "bech32:generic")
        one(s.upper(), spec, "bech32:generic")
        # the encoder
        e = outcome(lb.encode, hrp, list(data), consts[spec])
        if e[0] == "ok" and e[1] != s.encode():
            ctx.violation("bech32:encoder-differs", f"bech32.encode({hrp!r}, {dl} symbols, {spec}) = {e[1]!r}, reference {s!r}", {"hrp": hrp, "data": data})
        if i % 4 == 0 and len(s) < 70:
            for _mc, m in mutants(s, B32_SUBS, rng):
                one(m, spec, "bech32:mutants")
        # length boundary 89/90/91 with a real HRP: belongs to the address layer
        if k >= 4 and hrp in ("bc", "tb", "bcrt"):
            for total in (89, 90, 91, 92):
                n5 = total - len(hrp) - 1 - 6
                d2 = [rng.randrange(17)] + [rng.randrange(32) for _ in range(n5 - 1)]
                s2 = r32.bech32_encode(hrp, d2, r32.BECH32 if d2[0] == 0 else r32.BECH32M)
                judge(j, "segwit", s2)
                ctx.bulk("bech32:length-90-boundary", 1)
    # bit regrouping against the reference convertbits, all widths 1..8
    for i in range(ctx.params["n"] * 5):
        fb, tb = (8, 5) if i % 3 == 0 else (5, 8) if i % 3 == 1 else (rng.randrange(1, 9), rng.randrange(1, 9))
        ln = rng.choice([0, 1, 2, 3, 4, 5, 7, 8, 20, 32, 33, 40, 64, rng.randrange(0, 70)])
        data = [rng.randrange(1 << fb) for _ in range(ln)]
        kind = rng.randrange(6)
        if kind == 0 and ln:
            data[rng.randrange(ln)] = rng.choice([1 << fb, -1, 255 + (1 << fb), (1 << fb) + rng.randrange(1 << fb)])
        if kind == 1 and ln:
            data[-1] = 0
        for pad in (True, False):
            want = r32.convertbits(data, fb, tb, pad)
            o = outcome(conv, list(data), fb, tb, pad)
            case = {"data": data, "from": fb, "to": tb, "pad": pad}
            if o[0] == "ok":
                if want is None:
                    why = "value-out-of-range" if any(x < 0 or x >> fb for x in data) else "padding"
                    ctx.violation(f"convertbits:accepted:{why}", f"power_of_2_base_conversion({data}, {fb}, {tb}, {pad}) = {o[1]!r}; reference refuses ({why})", case)
                elif list(o[1]) != want:
                    ctx.violation("convertbits:wrong-result", f"power_of_2_base_conversion({data}, {fb}, {tb}, {pad}) = {o[1]!r}, reference {want!r}", case)
            elif want is not None:
                ctx.violation("convertbits:valid-refused", f"power_of_2_base_conversion({data}, {fb}, {tb}, {pad}) raised {o[1]!r}, reference {want!r}", case)
            ctx.stat("convertbits:refused" if want is None else "convertbits:converted")
        ctx.bulk("bech32:convertbits", 2)
    j.done()


# ------------------------------------------------------------- inverse maps
def p2ms_lookalike(spk: bytes) -> bool:
    """Starts with OP_m, ends with OP_n OP_CHECKMULTISIG (m <= n), long enough for the multisig test to start reading
    keys - and the bytes in between are not n whole pushes (so it is not a multisig script)."""
    if not (len(spk) >= 37 and spk[-1] == 0xAE and 0x51 <= spk[0] <= 0x60 and spk[0] <= spk[-2] <= 0x60):
        return False
    pos, end = 1, len(spk) - 2
    for _ in range(spk[-2] - 0x50):
        if pos >= end or spk[pos] >= 0xFD:
            return True
        pos += 1 + spk[pos]
        if pos > end:
            return True
    return pos != end


def _h160(b: bytes) -> bytes:
    return hashlib.new("ripemd160", hashlib.sha256(b).digest()).digest()


def shard_inverse(ctx: Ctx) -> None:
    """address <-> scriptPubKey on every template x network; constructors against hand-built references."""
    j = J(ctx)
    nd, rng, L = j.nd, ctx.rng, j.L
    selftest(ctx, nd, ("base58", "bech32", "key_io"))
    addressable = {"p2pkh", "p2sh", "p2wpkh", "p2wsh", "p2tr", "witness_unknown"}
    keys = j.keys(8)

    def scripts():
        """(class, script) - addressable templates, near misses, and scripts that have no address."""
        h20, h32 = _hash_classes(rng, 20), _hash_classes(rng, 32)
        yield "p2pkh", ra.spk_p2pkh(h20)
        yield "p2sh", ra.spk_p2sh(h20)
        yield "p2wpkh", ra.spk_witness(0, h20)
        yield "p2wsh", ra.spk_witness(0, h32)
        yield "p2tr", ra.spk_witness(1, h32)
        for ver in range(1, 17):
            for ln in (2, 3, 20, 31, 32, 33, 39, 40, rng.randrange(2, 41)):
                yield "future-witness", ra.spk_witness(ver, _hash_classes(rng, ln))
        yield "p2a", bytes.fromhex("51024e73")
        # witness programs that end like a multisig script (OP_n OP_CHECKMULTISIG)
        for ver, n_, ln in ((1, 1, 40), (1, 16, 35), (2, 3, 36), (16, 16, 40), (5, 4, 38), (1, 2, 34)):
            yield "future-witness:p2ms-lookalike", ra.spk_witness(ver, _hash_classes(rng, ln - 2) + bytes([0x50 + n_, 0xAE]))
        # witness-like scripts that are not witness programs
        for ver in (0, 1, 16):
            for ln in (0, 1, 41, 42, 75):
                yield "near:witness-length", ra.spk_witness(ver, _hash_classes(rng, ln))
        for ln in (2, 19, 21, 31, 33, 40):
            yield "near:v0-length", ra.spk_witness(0, _hash_classes(rng, ln))
        w = ra.spk_witness(1, h32)
        yield "near:witness-push-mismatch", w[:1] + bytes([31]) + w[2:]
        yield "near:witness-trailing", w + b"\x00"
        yield "near:witness-pushdata1", w[:1] + b"\x4c\x20" + w[2:]
        yield "near:witness-version-op", b"\x4f" + w[1:]
        yield "near:witness-version-op", b"\x61" + w[1:]
        yield "near:witness-version-op", b"\x50" + w[1:]
        p = ra.spk_p2pkh(h20)
        yield "near:p2pkh", p[:2] + b"\x15" + p[3:] + b"\x00"
        yield "near:p2pkh", p[:-1] + b"\xad"
        yield "near:p2pkh", p[:-2] + b"\x87\xac"
        yield "near:p2pkh", b"\x76\xaa" + p[2:]
        yield "near:p2pkh", p + b"\x61"
        yield "near:p2pkh", p[:-1]
        s = ra.spk_p2sh(h20)
        yield "near:p2sh", s[:1] + b"\x15" + s[2:] + b"\x00"
        yield "near:p2sh", s[:-1] + b"\x88"
        yield "near:p2sh", b"\xaa" + s[1:]
        yield "near:p2sh", s + b"\x87"
        yield "near:p2sh", s[:1] + b"\x4c\x14" + s[2:]
        q, csec, usec = keys[rng.randrange(len(keys))]
        yield "p2pk", bytes([33]) + csec + b"\xac"
        yield "p2pk", bytes([65]) + usec + b"\xac"
        k2 = keys[rng.randrange(len(keys))][1]
        yield "p2ms", b"\x51" + bytes([33]) + csec + bytes([33]) + k2 + b"\x52\xae"
        yield "nulldata", b"\x6a" + bytes([ln := rng.randrange(1, 70)]) + _hash_classes(rng, ln)
        yield "nulldata", b"\x6a"
        yield "empty", b""
        yield "unknown", bytes(rng.randrange(256) for _ in range(rng.randrange(1, 50)))
        yield "unknown", b"\x51"
        yield "unknown", b"\x00\x14"

    rounds = 0
    for it in range(ctx.params["n"]):
        if ctx.out_of_time():
            break
        rounds += 1
        for klass, spk in scripts():
            typ = ra.script_type(spk)
            # the library's classification, where the reference says addressable / not addressable
            o = outcome(L.spk.type_and_payload, spk) if spk else ("ok", ("unknown", b""))
            if o[0] == "ok":
                lt = o[1][0]
                if typ is not None and lt != typ:
                    ctx.violation("inverse:script-type-differs", f"type_and_payload({spk.hex()}) = {lt!r}, reference {typ!r}", {"script": spk})
                if typ is None and lt in addressable:
                    ctx.violation(f"inverse:non-addressable-classified:{klass.split(':')[0]}", f"type_and_payload({spk.hex()}) = {lt!r}; the reference finds no destination", {"script": spk})
            elif typ is not None:
                tag = "inverse:classification-raised" + (":p2ms-lookalike" if p2ms_lookalike(spk) else "")
                ctx.violation(tag, f"type_and_payload({spk.hex()}) raised {o[1]!r}", {"script": spk})
            for net in ra.NETWORK_NAMES:
                want = ra.address_of_script(nd, spk, net)
                case = {"script": spk, "network": net, "class": klass}
                o = outcome(L.spk.address, spk, net)
                ctx.mon("inverse:address")
                if o[0] == "raise":
                    if not want and is_lib_exc(o[1]):
                        ctx.stat("inverse:non-addressable-script-raised" + (":p2ms-lookalike" if p2ms_lookalike(spk) else ""))
                        ctx.bulk("inv:non-addressable", 1)  # refused rather than '': still no address
                        continue
                    tag = "inverse:address-raised" + (":p2ms-lookalike" if p2ms_lookalike(spk) else "")
                    ctx.violation(tag, f"address({spk.hex()}, {net}) raised {o[1]!r}; reference {want!r}", case)
                    continue
                if o[1] != want:
                    tag = "inverse:non-addressable-script-got-address" if not want else \
                        ("inverse:addressable-script-no-address" if not o[1] else f"inverse:address-differs:{typ}")
                    ctx.violation(tag, f"address({spk.hex()}, {net}) = {o[1]!r}, reference {want!r}", case)
                    continue
                if not want:
                    ctx.bulk("inv:non-addressable", 1)
                    ctx.classes[f"inv:{klass}"] += 1
                    continue
                ctx.bulk("inv:address-of-script", 1)
                ctx.classes[f"net:{net}:{typ}"] += 1
                # and back: the script, and a network that shares the prefix (so the same network type)
                for form in (want, want.encode(), "  " + want + "\n", want.upper() if typ not in ("p2pkh", "p2sh") else want):
                    b = outcome(L.ScriptPubKey.from_address, form)
                    ctx.mon("inverse:from_address")
                    if b[0] == "raise":
                        ctx.violation(f"inverse:own-address-refused:{typ}", f"from_address({form!r}) raised {b[1]!r}", case)
                        continue
                    field = typ if typ in ("p2pkh", "p2sh") else "hrp"
                    nets = nd.sharing(field, nd.value(net, field))
                    if bytes(b[1].script) != spk:
                        ctx.violation(f"inverse:script-differs:{typ}", f"from_address(address({spk.hex()}, {net})).script = {bytes(b[1].script).hex()}", case)
                    elif b[1].network not in nets:
                        tag = "network-type-confused" if nd.ntype(b[1].network) != nd.ntype(net) else "network-not-sharing-prefix"
                        ctx.violation(f"inverse:{tag}:{typ}", f"{want!r} written for {net}, read back as {b[1].network}", case)
                    elif outcome(lambda: b[1].address)[1] != want:
                        ctx.violation(f"inverse:address-property-differs:{typ}", f"from_address({want!r}).address = {outcome(lambda: b[1].address)[1]!r}", case)
                    ctx.bulk("inv:from-address", 1)
        # constructors: keys/scripts -> addresses, against hashlib and the reference encoders
        q, csec, usec = keys[it % len(keys)]
        script = bytes(rng.randrange(256) for _ in range(rng.randrange(1, 80)))
        for net in ra.NETWORK_NAMES:
            hrp = nd.value(net, "hrp")
            wants = [
                ("b58.p2pkh:compressed", lambda: L.b58.p2pkh(csec, net), r58.check_encode(nd.value(net, "p2pkh") + _h160(csec))),
                ("b58.p2pkh:uncompressed", lambda: L.b58.p2pkh(usec, net), r58.check_encode(nd.value(net, "p2pkh") + _h160(usec))),
                ("b58.p2pkh:int-compressed", lambda: L.b58.p2pkh(q, net, True), r58.check_encode(nd.value(net, "p2pkh") + _h160(csec))),
                ("b58.p2pkh:int-uncompressed", lambda: L.b58.p2pkh(q, net, False), r58.check_encode(nd.value(net, "p2pkh") + _h160(usec))),
                ("b58.p2sh", lambda: L.b58.p2sh(script, net), r58.check_encode(nd.value(net, "p2sh") + _h160(script))),
                ("b32.p2wpkh", lambda: L.b32.p2wpkh(csec, net), r32.segwit_encode(hrp, 0, _h160(csec))),
                ("b32.p2wsh", lambda: L.b32.p2wsh(script, net), r32.segwit_encode(hrp, 0, hashlib.sha256(script).digest())),
                ("b32.p2tr", lambda: L.b32.p2tr(csec[1:], net), r32.segwit_encode(hrp, 1, csec[1:])),
                ("b58.p2wpkh_p2sh", lambda: L.b58.p2wpkh_p2sh(csec, net),
                 r58.check_encode(nd.value(net, "p2sh") + _h160(b"\x00\x14" + _h160(csec)))),
                ("b58.p2wsh_p2sh", lambda: L.b58.p2wsh_p2sh(script, net),
                 r58.check_encode(nd.value(net, "p2sh") + _h160(b"\x00\x20" + hashlib.sha256(script).digest()))),
                ("wif:compressed", lambda: L.b58.wif_from_prv_key(q, net, True), ra.encode_wif(nd, q, net, True)),
                ("wif:uncompressed", lambda: L.b58.wif_from_prv_key(q, net, False), ra.encode_wif(nd, q, net, False)),
                ("ScriptPubKey.p2pkh", lambda: L.ScriptPubKey.p2pkh(usec, network=net).address, r58.check_encode(nd.value(net, "p2pkh") + _h160(usec))),
                ("ScriptPubKey.p2sh", lambda: L.ScriptPubKey.p2sh(script, net).address, r58.check_encode(nd.value(net, "p2sh") + _h160(script))),
                ("ScriptPubKey.p2wsh", lambda: L.ScriptPubKey.p2wsh(script, net).address, r32.segwit_encode(hrp, 0, hashlib.sha256(script).digest())),
            ]
            for name, call, want in wants:
                o = outcome(call)
                if o[0] == "raise" or o[1] != want:
                    ctx.violation(f"constructor-differs:{name}", f"{name} on {net} -> {o[1]!r}, reference {want!r}", {"network": net, "q": q, "script": script})
                ctx.bulk("inv:constructors", 1)
            ctx.classes[f"net:{net}:wif"] += 2
            # WIF back to (q, network, compressed) through the judge
            judge(j, "prvkey", ra.encode_wif(nd, q, net, bool(it % 2)))
        # SLIP132: the version of an xpub selects the address type
        for net in ra.NETWORK_NAMES:
            for f, build in (("bip32_pub", lambda n_: r58.check_encode(nd.value(n_, "p2pkh") + _h160(csec))),
                             ("slip132_p2wpkh_pub", lambda n_: r32.segwit_encode(nd.value(n_, "hrp"), 0, _h160(csec))),
                             ("slip132_p2wpkh_p2sh_pub", lambda n_: r58.check_encode(nd.value(n_, "p2sh") + _h160(b"\x00\x14" + _h160(csec))))):
                version = nd.value(net, f)
                xpub = ra.encode_xkey(version, 3, b"\x01\x02\x03\x04", 7, _hash_classes(rng, 32), csec)
                allowed = {build(n_) for n_ in nd.sharing(f, version)}
                o = outcome(L.slip132.address_from_xpub, xpub)
                if o[0] == "raise" or o[1] not in allowed:
                    ctx.violation(f"slip132:address-differs:{f}", f"address_from_xpub({xpub}) -> {o[1]!r}, reference one of {sorted(allowed)}", {"xpub": xpub, "field": f})
                ctx.bulk("inv:slip132", 1)
                ctx.classes[f"net:{net}:xpub"] += 1
                # an extended key handed to the constructors beside a declared network: accepted exactly when that
                # network shares the version bytes the key was written with, and the result is the declared network's
                if f == "bip32_pub":
                    xprv = ra.encode_xkey(nd.value(net, "bip32_prv"), 3, b"\x01\x02\x03\x04", 7, _hash_classes(rng, 32), b"\x00" + q.to_bytes(32, "big"))
                    for decl in ra.NETWORK_NAMES:
                        shares = decl in nd.sharing(f, version)
                        hrp_d = nd.value(decl, "hrp")
                        for name, call, want in (
                                ("pub_keyinfo_from_key:xpub", lambda: L.pub_keyinfo_from_key(xpub, decl), (csec, decl)),
                                ("pub_keyinfo_from_key:xprv", lambda: L.pub_keyinfo_from_key(xprv, decl), (csec, decl)),
                                ("b58.p2pkh:xpub", lambda: L.b58.p2pkh(xpub, decl), r58.check_encode(nd.value(decl, "p2pkh") + _h160(csec))),
                                ("b32.p2wpkh:xpub", lambda: L.b32.p2wpkh(xpub, decl), r32.segwit_encode(hrp_d, 0, _h160(csec))),
                                ("b58.p2wpkh_p2sh:xpub", lambda: L.b58.p2wpkh_p2sh(xpub, decl),
                                 r58.check_encode(nd.value(decl, "p2sh") + _h160(b"\x00\x14" + _h160(csec)))),
                                ("ScriptPubKey.p2pkh:xpub", lambda: L.ScriptPubKey.p2pkh(xpub, network=decl).address,
                                 r58.check_encode(nd.value(decl, "p2pkh") + _h160(csec)))):
                            o = outcome(call)
                            case = {"key_network": net, "declared": decl, "xpub": xpub}
                            got = tuple(o[1]) if o[0] == "ok" and isinstance(o[1], tuple) else o[1]
                            if o[0] == "raise" and not is_lib_exc(o[1]):
                                ctx.violation(f"xkey-declared-network:foreign-exception:{name}", f"{name} raised {o[1]!r}", case)
                            elif shares and (o[0] == "raise" or got != want):
                                ctx.violation(f"xkey-declared-network:refused-or-differs:{name}",
                                              f"{name} with a {net} key declared as {decl} (which shares its version bytes) -> {o[1]!r}, reference {want!r}", case)
                            elif not shares and o[0] == "ok":
                                ctx.violation(f"xkey-declared-network:accepted-across-prefix:{name}",
                                              f"{name} accepted a {net} key declared as {decl}, which does not share its version bytes -> {o[1]!r}", case)
                            ctx.bulk("inv:xkey-declared-network", 1)
    ctx.sample("inverse", {"rounds": rounds, "templates": sorted({k for k, _ in scripts()})})
    ctx.exhaustive.append("address(script, network) for every output template x five networks, future witness versions 1..16 x 9 lengths")
    j.done()


# ---------------------------------------------------------------- RIPEMD160
def shard_ripemd(ctx: Ctx) -> None:
    j = J(ctx)
    rng = ctx.rng
    from btclib import _ripemd160 as pure
    from btclib import hashes

    have = "ripemd160" in hashlib.algorithms_available
    try:
        hashlib.new("ripemd160", b"")
    except ValueError:
        have = False
    vec = json.load(open(os.path.join(VEC, "ripemd160_vectors.json")))
    pub = [(m.encode(), d) for m, d in vec["vectors"]]
    if have:
        bad = [m for m, d in pub if hashlib.new("ripemd160", m).hexdigest() != d]
        if hashlib.new("ripemd160", b"a" * 1000000).hexdigest() != vec["million_a"]:
            bad.append(b"million a")
        ctx.oracle_broken("hashlib ripemd160 vs published strings", repr(bad[:2])) if bad else ctx.oracle_ok("ripemd160-published", len(pub) + 1)
    else:
        ctx.oracle_ok("ripemd160-published", len(pub))
    for m, d in pub:
        o = outcome(pure.ripemd160, m)
        if o[0] == "raise" or o[1].hex() != d:
            ctx.violation("ripemd160:pure-python-differs:published", f"_ripemd160.ripemd160({m!r}) = {o[1]!r}, published {d}", {"message": m})
        ctx.bulk("ripemd:published", 1)
        ctx.arm("ripemd160:pure-python")

    def check(data: bytes, klass: str):
        want = hashlib.new("ripemd160", data).digest()
        o = outcome(pure.ripemd160, data)
        ctx.arm("ripemd160:pure-python")
        if o[0] == "raise" or o[1] != want:
            ctx.violation(f"ripemd160:pure-python-differs:{'len%64>=56' if len(data) % 64 >= 56 else 'len%64<56'}",
                          f"_ripemd160.ripemd160({len(data)} bytes, {klass}) = {o[1]!r}, hashlib {want.hex()}", {"data": data})
        # the public function on both arms, bytes and hex-string input
        for arm in (True, False):
            with patched(hashes, "_RIPEMD160_IN_HASHLIB", arm):
                for inp in (data, data.hex()):
                    o = outcome(hashes.ripemd160, inp)
                    if o[0] == "raise" or o[1] != want:
                        ctx.violation(f"ripemd160:hashes-differs:{'hashlib' if arm else 'fallback'}-arm",
                                      f"hashes.ripemd160({len(data)} bytes) = {o[1]!r}, hashlib {want.hex()}", {"data": data})
                o = outcome(hashes.hash160, data)
                w160 = hashlib.new("ripemd160", hashlib.sha256(data).digest()).digest()
                if o[0] == "raise" or o[1] != w160:
                    ctx.violation(f"hash160-differs:{'hashlib' if arm else 'fallback'}-arm", f"hash160({len(data)} bytes) = {o[1]!r}, reference {w160.hex()}", {"data": data})
            ctx.arm("ripemd160:hashlib" if arm else "ripemd160:fallback-through-hashes")
        ctx.bulk("ripemd:length", 1)
        ctx.bulk("hash160", 2)

    if have:
        for ln in range(0, ctx.params["maxlen"] + 1):
            if ctx.out_of_time():
                break
            for klass, data in (("zeros", bytes(ln)), ("ff", b"\xff" * ln), ("counting", bytes(i & 255 for i in range(ln))),
                                ("random", bytes(rng.randrange(256) for _ in range(ln))),
                                ("0x80-tail", bytes(rng.randrange(256) for _ in range(max(ln - 1, 0))) + (b"\x80" if ln else b""))):
                check(data, klass)
        for ln in (4095, 4096, 4097, 65536 + 55, 65536 + 56, (1 << 17) + 63):
            check(bytes(rng.randrange(256) for _ in range(ln)), "long")
        ctx.exhaustive.append(f"RIPEMD160: every message length 0..{ctx.params['maxlen']} x five content classes, pure-Python vs hashlib, both arms of hashes.ripemd160")
    j.done()


# -------------------------------------------------------------------- BIP21
def _sats_str(k: int, style: int) -> str:
    """A decimal BTC spelling of k satoshi (exact by construction)."""
    ip, fp = divmod(k, 10**8)
    frac = f"{fp:08d}"
    if style == 0:
        return f"{ip}.{frac}"
    if style == 1:
        return f"{ip}.{frac}".rstrip("0").rstrip(".")
    if style == 2:
        return (f"{ip}" if fp == 0 else f"{ip}.{frac.rstrip('0')}")
    if style == 3:
        return ("" if ip == 0 and fp else str(ip)) + (("." + frac.rstrip("0")) if fp else "")
    return f"000{ip}.{frac}000"


def shard_bip21(ctx: Ctx) -> None:
    j = J(ctx)
    nd, rng = j.nd, ctx.rng
    selftest(ctx, nd, ("base58", "bech32", "key_io"))
    from decimal import Decimal

    from btclib.bip21 import Bip21

    # one code point of every class: controls, ASCII punctuation (reserved / sub-delims / unsafe), digits, letters,
    # Latin-1, BMP scripts, surrogate-adjacent, astral
    classes = {
        "control": [chr(c) for c in (0, 1, 9, 10, 13, 27, 31, 127)],
        "space": [" "],
        "gen-delims": list(":/?#[]@"),
        "sub-delims": list("!$&'()*+,;="),
        "percent": ["%", "%25", "%zz", "%2", "100%"],
        "unreserved": list("aZ09-._~"),
        "other-ascii": list("\"<>\\^`{|}"),
        "latin1": ["\u00a0", "\u00e9", "\u00ff"],
        "bmp": ["\u0416", "\u4e2d", "\u20bf", "\u212a", "\ufeff", "\ud7ff", "\ue000", "\ufffd"],
        "astral": ["\U0001f600", "\U00010348", "\U0010ffff"],
    }
    addrs = []
    for net in ra.NETWORK_NAMES:
        h = _hash_classes(rng, 20)
        addrs += [(r58.check_encode(nd.value(net, "p2pkh") + h), net), (r58.check_encode(nd.value(net, "p2sh") + h), net),
                  (r32.segwit_encode(nd.value(net, "hrp"), 0, h), net), (r32.segwit_encode(nd.value(net, "hrp"), 1, _hash_classes(rng, 32)), net)]

    def text(k: int) -> str:
        if k % 7 == 0:
            return ""
        out = []
        for _ in range(rng.randrange(1, 8)):
            cl = rng.choice(list(classes))
            out.append(rng.choice(classes[cl]))
            ctx.classes[f"bip21:codepoint:{cl}"] += 1
        ctx.classes["bip21:codepoint"] += 1
        return "".join(out)

    for it in range(ctx.params["n"]):
        if ctx.out_of_time():
            break
        addr, net = addrs[it % len(addrs)]
        sats = rng.choice([0, 1, 10**8, 10**8 - 1, 21 * 10**14, 21 * 10**14 - 1, 12345678, 10, 100, 5 * 10**7,
                           rng.randrange(21 * 10**14), rng.randrange(10**9)])
        amount = None if it % 5 == 4 else _sats_str(sats, it % 3)
        label = None if it % 3 == 2 else text(it)
        message = None if it % 4 == 3 else text(it + 1)
        others = {}
        for _ in range(rng.randrange(0, 3)):
            k = text(it + 2) or "x"
            if k.lower().startswith("req-") or k in ("amount", "label", "message"):
                continue
            others[k] = text(it + 3)
        case = {"address": addr, "amount": amount, "label": label, "message": message, "others": others}
        o = outcome(lambda: Bip21(addr, None if amount is None else Decimal(amount), label, message, others))
        if o[0] == "raise":
            ctx.violation("bip21:valid-fields-refused", f"Bip21({case}) raised {o[1]!r}", case)
            continue
        u = o[1]
        so = outcome(u.serialize)
        if so[0] == "raise":
            ctx.violation("bip21:serialize-raised", f"serialize of {case} raised {so[1]!r}", case)
            continue
        uri = so[1]
        case["uri"] = uri
        # 1. the URI, read by the reference grammar, carries exactly the fields
        rp = ra.parse_bip21(uri)
        ctx.mon("bip21:reference-parse")
        if rp is None:
            ctx.violation("bip21:serialized-uri-outside-grammar", f"serialize -> {uri!r} is not a BIP21 URI (qchar / pct-encoded / amount grammar)", case)
        else:
            if rp["address"] != addr or rp["label"] != label or rp["message"] != message or rp["others"] != others:
                ctx.violation("bip21:serialized-fields-differ", f"{uri!r} read by the reference as {rp}", case)
            if rp["amount_sats"] != (None if amount is None else sats):
                ctx.violation("bip21:serialized-amount-inexact", f"{uri!r}: amount {rp['amount_sats']} sat, wanted {sats}", case)
        # 2. parse(serialize(u)) == u, amounts exact
        po = outcome(Bip21.parse, uri)
        ctx.mon("bip21:roundtrip")
        if po[0] == "raise":
            ctx.violation("bip21:own-uri-refused", f"parse({uri!r}) raised {po[1]!r}", case)
        else:
            p = po[1]
            if (p.address, p.label, p.message, dict(p.others)) != (addr, label, message, others):
                ctx.violation("bip21:roundtrip-fields-differ", f"parse(serialize(u)) = {p!r}", case)
            if (p.amount is None) != (amount is None) or (amount is not None and p.amount * 10**8 != sats):
                ctx.violation("bip21:roundtrip-amount-inexact", f"parse(serialize(u)).amount = {p.amount!r}, wanted {sats} sat", case)
            if p != u:
                ctx.violation("bip21:roundtrip-not-equal", f"parse(serialize(u)) != u for {uri!r}", case)
            if outcome(lambda: p.network_type)[1] != nd.ntype(net):
                ctx.violation("bip21:network-type-confused", f"{uri!r}: network_type {outcome(lambda: p.network_type)[1]!r}, address written for {net}", case)
        ctx.bulk("bip21:roundtrip", 1)
        ctx.case("bip21:uri", uri, sample=case)
        # 3. URIs written by the reference (most conservative escaping, several amount spellings) read the same
        style = it % 5
        amt = _sats_str(sats, style)
        parts = [f"amount={amt}"] if amount is not None else []
        if label is not None:
            parts.append("label=" + ra.pct_encode(label))
        if message is not None:
            parts.append("message=" + ra.pct_encode(message))
        parts += [ra.pct_encode(k) + "=" + ra.pct_encode(v) for k, v in others.items() if "=" not in k]
        oth = {k: v for k, v in others.items() if "=" not in k}
        rng.shuffle(parts)
        scheme = ("bitcoin:", "BITCOIN:", "Bitcoin:")[it % 3]
        uri2 = scheme + addr + ("?" + "&".join(parts) if parts else "")
        po = outcome(Bip21.parse, uri2)
        case2 = {"uri": uri2}
        if po[0] == "raise":
            ctx.violation("bip21:valid-uri-refused", f"parse({uri2!r}) raised {po[1]!r}", case2)
        else:
            p = po[1]
            if (p.address, p.label, p.message, dict(p.others)) != (addr, label, message, oth):
                ctx.violation("bip21:parsed-fields-differ", f"parse({uri2!r}) = {p!r}", case2)
            if (p.amount is None) != (amount is None) or (amount is not None and p.amount * 10**8 != sats):
                ctx.violation("bip21:parsed-amount-inexact", f"parse({uri2!r}).amount = {p.amount!r}, wanted {sats} sat", case2)
        ctx.bulk("bip21:amount", 1)
        # 4. what BIP21 says must be refused: an unknown req- parameter, an amount outside the grammar, a corrupted address
        bads = [("req-param", uri2 + ("&" if parts else "?") + "req-somethingyoudontunderstand=1"),
                ("amount-comma", f"bitcoin:{addr}?amount=1,5"), ("amount-negative", f"bitcoin:{addr}?amount=-1"),
                ("amount-exponent", f"bitcoin:{addr}?amount=1e3"), ("amount-empty", f"bitcoin:{addr}?amount="),
                ("amount-two-dots", f"bitcoin:{addr}?amount=1.0.0"), ("amount-spaces", f"bitcoin:{addr}?amount=%201"),
                ("amount-plus", f"bitcoin:{addr}?amount=%2B1"), ("amount-infinity", f"bitcoin:{addr}?amount=Infinity"),
                ("amount-nan", f"bitcoin:{addr}?amount=NaN"), ("amount-underscore", f"bitcoin:{addr}?amount=1_0"),
                ("amount-hex", f"bitcoin:{addr}?amount=0x10"),
                # digits of other scripts are decimal digits to str.isdigit, \d and Decimal, and not to BIP21's *digit
                ("amount-non-ascii-digits", f"bitcoin:{addr}?amount=" + ra.pct_encode(rng.choice(["\u0661\u0662", "\uff11", "1.\u0665", "\u0967.5", "\u0e51"]))),
                ("amount-non-ascii-digits-raw", f"bitcoin:{addr}?amount=" + rng.choice(["\u0661\u0662", "\uff11.5", "0.\u0665"])),
                ("wrong-scheme", "bitcoins:" + addr), ("no-scheme", addr),
                ("address-corrupted", "bitcoin:" + addr[:-1] + ("q" if addr[-1] != "q" else "p"))]
        tag, bad = bads[it % len(bads)]
        bo = outcome(Bip21.parse, bad)
        if bo[0] == "ok":
            ctx.violation(f"bip21:accepted:{tag}", f"parse({bad!r}) -> {bo[1]!r}", {"uri": bad})
        ctx.bulk("bip21:refuse", 1)
        ctx.stat(f"bip21:refused:{tag}")
    j.done()
