"""Subprocess entry point: run one shard of one property in a fresh interpreter."""

from __future__ import annotations

import faulthandler
import importlib
import json
import os
import sys
import traceback


def main() -> int:
    spec_path, out_path = sys.argv[1], sys.argv[2]
    with open(spec_path) as f:
        job = json.load(f)
    repo = os.environ.get("VERIF_REPO", "/repo")
    sys.path.insert(0, repo)
    faulthandler.enable()
    sys.setrecursionlimit(1000)
    from .ctx import Ctx, raised_inside_lib, tb_origin

    spec = job["spec"]
    ctx = Ctx(job["prop"], job["tier"], job["seed"], spec["name"], spec)
    cover_dir = os.environ.get("VERIF_APICOVER")      # off by default: tools/apicover.py's reach audit
    entered: set = set()
    if cover_dir:
        mon = sys.monitoring
        lib = os.path.realpath(os.path.join(repo, "btclib")) + os.sep

        def on_start(code, _offset):
            if os.path.realpath(code.co_filename).startswith(lib):
                entered.add((os.path.realpath(code.co_filename)[len(lib):], code.co_qualname))
            return mon.DISABLE

        mon.use_tool_id(mon.COVERAGE_ID, "rv-apicover")
        mon.register_callback(mon.COVERAGE_ID, mon.events.PY_START, on_start)
        mon.set_events(mon.COVERAGE_ID, mon.events.PY_START)
    try:
        import btclib

        where = os.path.realpath(os.path.dirname(btclib.__file__))
        if where != os.path.realpath(os.path.join(repo, "btclib")):
            ctx.inconclusive_(f"btclib imported from {where}, expected {repo}/btclib")
        else:
            mod = importlib.import_module(f"rv.props.{job['prop'].lower()}")
            getattr(mod, spec["fn"])(ctx)
    except BaseException as e:  # noqa: BLE001
        tb = traceback.format_exc()
        if isinstance(e, (KeyboardInterrupt, SystemExit)):
            ctx.inconclusive_(f"shard {spec['name']} interrupted")
        elif raised_inside_lib(e):
            # the library blew up where the harness expected an answer or a library refusal
            ctx.violation(f"crash:{type(e).__name__}@{tb_origin(e)}",
                          f"uncaught {type(e).__name__} from the library in shard {spec['name']}: {e}",
                          {"traceback": tb[-1500:]})
        else:
            ctx.inconclusive_(f"harness error in shard {spec['name']}: {tb[-700:]}")
    with open(out_path, "w") as f:
        json.dump(ctx.result(), f)
    if cover_dir:
        os.makedirs(cover_dir, exist_ok=True)
        with open(os.path.join(cover_dir, f"{job['prop']}.{spec['name']}.json"), "w") as f:
            json.dump(sorted(entered), f)
    return 0


if __name__ == "__main__":
    sys.exit(main())
