"""Reference pieces for Bitcoin message signatures (no btclib import).

The signed digest (Core's ``MessageHash``: double SHA-256 of the two
CompactSize-prefixed strings), the address encodings a signature is checked
against (Base58Check P2PKH / P2SH-P2WPKH, BIP 173 P2WPKH), WIF, and the header
byte of the 65-byte compact signature: 27 + recid (+4 for a compressed key) as
Bitcoin Core writes it, 35 + recid / 39 + recid for P2SH-P2WPKH / P2WPKH as
BIP 137 assigns them.
"""

from __future__ import annotations

import hashlib

# published chain parameters: (p2pkh version, p2sh version, wif prefix, bech32 hrp)
NETWORKS = {
    "mainnet": (0x00, 0x05, 0x80, "bc"),
    "testnet": (0x6F, 0xC4, 0xEF, "tb"),
    "testnet4": (0x6F, 0xC4, 0xEF, "tb"),
    "signet": (0x6F, 0xC4, 0xEF, "tb"),
    "regtest": (0x6F, 0xC4, 0xEF, "bcrt"),
}


def sha256(b: bytes) -> bytes:
    return hashlib.sha256(b).digest()


def hash160(b: bytes) -> bytes:
    return hashlib.new("ripemd160", sha256(b)).digest()


def compact_size(n: int) -> bytes:
    if n < 253:
        return bytes([n])
    if n <= 0xFFFF:
        return b"\xfd" + n.to_bytes(2, "little")
    if n <= 0xFFFFFFFF:
        return b"\xfe" + n.to_bytes(4, "little")
    return b"\xff" + n.to_bytes(8, "little")


MAGIC = b"Bitcoin Signed Message:\n"


def message_hash(msg: bytes) -> bytes:
    return sha256(sha256(compact_size(len(MAGIC)) + MAGIC + compact_size(len(msg)) + msg))


# ------------------------------------------------------------------ base58check
_B58 = "123456789ABCDEFGHJKLMNPQRSTUVWXYZabcdefghijkmnopqrstuvwxyz"


def b58encode(b: bytes) -> str:
    n = int.from_bytes(b, "big")
    out = ""
    while n:
        n, r = divmod(n, 58)
        out = _B58[r] + out
    zeros = len(b) - len(b.lstrip(b"\x00"))
    return "1" * zeros + out


def b58decode(s: str) -> bytes:
    n = 0
    for ch in s:
        n = n * 58 + _B58.index(ch)
    zeros = len(s) - len(s.lstrip("1"))
    return b"\x00" * zeros + (n.to_bytes((n.bit_length() + 7) // 8, "big") if n else b"")


def b58check_encode(payload: bytes) -> str:
    return b58encode(payload + sha256(sha256(payload))[:4])


def b58check_decode(s: str) -> bytes:
    raw = b58decode(s)
    payload, chk = raw[:-4], raw[-4:]
    if sha256(sha256(payload))[:4] != chk:
        raise ValueError("bad checksum")
    return payload


# ------------------------------------------------------------------------ bech32
_CHARSET = "qpzry9x8gf2tvdw0s3jn54khce6mua7l"


def _polymod(values) -> int:
    gen = [0x3B6A57B2, 0x26508E6D, 0x1EA119FA, 0x3D4233DD, 0x2A1462B3]
    chk = 1
    for v in values:
        b = chk >> 25
        chk = (chk & 0x1FFFFFF) << 5 ^ v
        for i in range(5):
            chk ^= gen[i] if ((b >> i) & 1) else 0
    return chk


def _hrp_expand(hrp: str):
    return [ord(x) >> 5 for x in hrp] + [0] + [ord(x) & 31 for x in hrp]


def _convertbits(data: bytes, frombits: int, tobits: int):
    acc, bits, ret = 0, 0, []
    maxv = (1 << tobits) - 1
    for value in data:
        acc = (acc << frombits) | value
        bits += frombits
        while bits >= tobits:
            bits -= tobits
            ret.append((acc >> bits) & maxv)
    if bits:
        ret.append((acc << (tobits - bits)) & maxv)
    return ret


def segwit_v0_address(hrp: str, program: bytes) -> str:
    data = [0] + _convertbits(program, 8, 5)
    values = _hrp_expand(hrp) + data
    polymod = _polymod(values + [0, 0, 0, 0, 0, 0]) ^ 1  # BIP 173 constant (witness version 0)
    checksum = [(polymod >> 5 * (5 - i)) & 31 for i in range(6)]
    return hrp + "1" + "".join(_CHARSET[d] for d in data + checksum)


# ------------------------------------------------------------------- addresses
def sec(Q, compressed: bool) -> bytes:
    x, y = Q
    if compressed:
        return bytes([2 + (y & 1)]) + x.to_bytes(32, "big")
    return b"\x04" + x.to_bytes(32, "big") + y.to_bytes(32, "big")


def p2pkh(Q, network: str, compressed: bool) -> str:
    return b58check_encode(bytes([NETWORKS[network][0]]) + hash160(sec(Q, compressed)))


def p2sh_p2wpkh(Q, network: str) -> str:
    redeem = b"\x00\x14" + hash160(sec(Q, True))
    return b58check_encode(bytes([NETWORKS[network][1]]) + hash160(redeem))


def p2wpkh(Q, network: str) -> str:
    return segwit_v0_address(NETWORKS[network][3], hash160(sec(Q, True)))


def wif(q: int, network: str, compressed: bool) -> str:
    return b58check_encode(bytes([NETWORKS[network][2]]) + q.to_bytes(32, "big") + (b"\x01" if compressed else b""))


def wif_decode(s: str):
    """(q, wif prefix byte, compressed)"""
    payload = b58check_decode(s)
    if len(payload) == 34 and payload[-1] == 1:
        return int.from_bytes(payload[1:33], "big"), payload[0], True
    if len(payload) == 33:
        return int.from_bytes(payload[1:], "big"), payload[0], False
    raise ValueError("not a WIF")


# ---------------------------------------------------------------- header byte
def header(kind: str, recid: int) -> int:
    """kind in p2pkh-uncompressed, p2pkh-compressed, p2sh-p2wpkh, p2wpkh."""
    base = {"p2pkh-uncompressed": 27, "p2pkh-compressed": 31, "p2sh-p2wpkh": 35, "p2wpkh": 39}[kind]
    return base + recid
