"""Reference BIP32 (and what C07 needs on top of it: SLIP132 versions, BIP44-family
addresses, BIP85 entropy).  No btclib import.

Written from the BIPs in the most literal way: integers for keys, affine points
from ``rv.ref.ec`` (``None`` is infinity), ``hmac``/``hashlib`` from the standard
library.  Nothing is special-cased for the last step of a path: a path is CKD
applied once per index, and each application asks again for the parent's public
key (``point`` is memoised on its scalar, which is the only state kept).

    CKDpriv((kpar, cpar), i):
        i >= 2^31: I = HMAC-SHA512(cpar, 0x00 || ser256(kpar) || ser32(i))
        else     : I = HMAC-SHA512(cpar, serP(point(kpar)) || ser32(i))
        ki = parse256(IL) + kpar (mod n); ci = IR
        parse256(IL) >= n or ki == 0: invalid
    CKDpub((Kpar, cpar), i):
        i >= 2^31: failure
        I = HMAC-SHA512(cpar, serP(Kpar) || ser32(i))
        Ki = point(parse256(IL)) + Kpar; ci = IR
        parse256(IL) >= n or Ki is infinity: invalid
"""

from __future__ import annotations

import functools
import hashlib
import hmac
from base64 import b64encode, b85encode
from typing import Callable, NamedTuple

from . import ec as rec

EC = rec.SECP256K1
N = EC.n
P = EC.p
HARDENED = 0x80000000


# ------------------------------------------------------------------ hashes
def sha256(b: bytes) -> bytes:
    return hashlib.sha256(b).digest()


def hash160(b: bytes) -> bytes:
    return hashlib.new("ripemd160", hashlib.sha256(b).digest()).digest()


def hmac_sha512(key: bytes, msg: bytes) -> bytes:
    return hmac.new(key, msg, hashlib.sha512).digest()


def tagged_hash(tag: bytes, msg: bytes) -> bytes:
    t = sha256(tag)
    return sha256(t + t + msg)


# ------------------------------------------------------------ conversions
def ser32(i: int) -> bytes:
    return i.to_bytes(4, "big")


def ser256(k: int) -> bytes:
    return k.to_bytes(32, "big")


def parse256(b: bytes) -> int:
    return int.from_bytes(b, "big")


@functools.lru_cache(maxsize=8192)
def point(k: int):
    """k*G (memoised: a pure function of k; the fingerprint and the unhardened HMAC input both need it)."""
    return EC.mul_nored(k % N, EC.G)


def ser_p(Q) -> bytes:
    return bytes([2 + (Q[1] & 1)]) + Q[0].to_bytes(32, "big")


def parse_p(b: bytes):
    """Compressed SEC octets -> point, or None when they are no point."""
    if len(b) != 33 or b[0] not in (2, 3):
        return None
    return EC.lift_x(int.from_bytes(b[1:], "big"), b[0] & 1)


# ------------------------------------------------------------- exceptions
class InvalidChild(Exception):
    """BIP32: 'the resulting key is invalid, and one should proceed with the next value for i'."""

    def __init__(self, kind: str, index: int):
        super().__init__(f"{kind} at index {index}")
        self.kind = kind  # "IL>=n" | "zero-key" | "infinity"
        self.index = index


class HardenedFromPublic(Exception):
    pass


class Malformed(Exception):
    pass


# ------------------------------------------------------------------- CKD
HmacFn = Callable[[bytes, bytes], bytes]


def master(seed: bytes, hm: HmacFn = hmac_sha512):
    """(k, c) of the master node."""
    I = hm(b"Bitcoin seed", seed)
    k = parse256(I[:32])
    if k == 0 or k >= N:
        raise InvalidChild("master", 0)
    return k, I[32:]


def ckd_priv(k: int, c: bytes, i: int, hm: HmacFn = hmac_sha512):
    if i >= HARDENED:
        I = hm(c, b"\x00" + ser256(k) + ser32(i))
    else:
        I = hm(c, ser_p(point(k)) + ser32(i))
    il = parse256(I[:32])
    if il >= N:
        raise InvalidChild("IL>=n", i)
    ki = (il + k) % N
    if ki == 0:
        raise InvalidChild("zero-key", i)
    return ki, I[32:]


def ckd_pub(K, c: bytes, i: int, hm: HmacFn = hmac_sha512):
    if i >= HARDENED:
        raise HardenedFromPublic(i)
    I = hm(c, ser_p(K) + ser32(i))
    il = parse256(I[:32])
    if il >= N:
        raise InvalidChild("IL>=n", i)
    Ki = EC.add(point(il), K)
    if Ki is None:
        raise InvalidChild("infinity", i)
    return Ki, I[32:]


# --------------------------------------------------------- extended keys
class XKey(NamedTuple):
    version: bytes
    depth: int
    parent_fingerprint: bytes
    index: int
    chain_code: bytes
    key: bytes  # 33 octets: 0x00 || ser256(k)  or  serP(K)

    @property
    def is_private(self) -> bool:
        return self.key[0] == 0

    def serialize(self) -> bytes:
        return (self.version + bytes([self.depth]) + self.parent_fingerprint + ser32(self.index)
                + self.chain_code + self.key)

    def b58(self) -> str:
        return b58check_encode(self.serialize())


FIELDS = ("version", "depth", "parent_fingerprint", "index", "chain_code", "key")

# SLIP-0132 registered HD version bytes (Bitcoin mainnet / testnet): (private, public)
VERSIONS = {
    ("main", "p2pkh"): (bytes.fromhex("0488ade4"), bytes.fromhex("0488b21e")),  # xprv xpub
    ("main", "p2wpkh-p2sh"): (bytes.fromhex("049d7878"), bytes.fromhex("049d7cb2")),  # yprv ypub
    ("main", "p2wsh-p2sh"): (bytes.fromhex("0295b005"), bytes.fromhex("0295b43f")),  # Yprv Ypub
    ("main", "p2wpkh"): (bytes.fromhex("04b2430c"), bytes.fromhex("04b24746")),  # zprv zpub
    ("main", "p2wsh"): (bytes.fromhex("02aa7a99"), bytes.fromhex("02aa7ed3")),  # Zprv Zpub
    ("test", "p2pkh"): (bytes.fromhex("04358394"), bytes.fromhex("043587cf")),  # tprv tpub
    ("test", "p2wpkh-p2sh"): (bytes.fromhex("044a4e28"), bytes.fromhex("044a5262")),  # uprv upub
    ("test", "p2wsh-p2sh"): (bytes.fromhex("024285b5"), bytes.fromhex("024289ef")),  # Uprv Upub
    ("test", "p2wpkh"): (bytes.fromhex("045f18bc"), bytes.fromhex("045f1cf6")),  # vprv vpub
    ("test", "p2wsh"): (bytes.fromhex("02575048"), bytes.fromhex("02575483")),  # Vprv Vpub
}
PRV_TO_PUB = {prv: pub for prv, pub in VERSIONS.values()}
PUB_VERSIONS = set(PRV_TO_PUB.values())
NET_OF_VERSION = {v: net for (net, _), pair in VERSIONS.items() for v in pair}
KIND_OF_VERSION = {v: kind for (_, kind), pair in VERSIONS.items() for v in pair}


def fingerprint_of_point(K) -> bytes:
    return hash160(ser_p(K))[:4]


def root(seed: bytes, version: bytes = VERSIONS[("main", "p2pkh")][0], hm: HmacFn = hmac_sha512) -> XKey:
    k, c = master(seed, hm)
    return XKey(version, 0, b"\x00" * 4, 0, c, b"\x00" + ser256(k))


def child(x: XKey, i: int, hm: HmacFn = hmac_sha512) -> XKey:
    """One application of CKDpriv or CKDpub, with the serialization fields BIP32 prescribes."""
    if x.depth + 1 > 255:
        raise Malformed("depth does not fit one byte")
    if x.is_private:
        k = parse256(x.key[1:])
        fp = fingerprint_of_point(point(k))
        ki, ci = ckd_priv(k, x.chain_code, i, hm)
        return XKey(x.version, x.depth + 1, fp, i, ci, b"\x00" + ser256(ki))
    K = parse_p(x.key)
    fp = fingerprint_of_point(K)
    Ki, ci = ckd_pub(K, x.chain_code, i, hm)
    return XKey(x.version, x.depth + 1, fp, i, ci, ser_p(Ki))


def derive(x: XKey, path, hm: HmacFn = hmac_sha512) -> XKey:
    for i in path:
        x = child(x, i, hm)
    return x


def nodes(x: XKey, path, hm: HmacFn = hmac_sha512) -> list:
    """[x, x/i0, x/i0/i1, ...]"""
    out = [x]
    for i in path:
        x = child(x, i, hm)
        out.append(x)
    return out


def neuter(x: XKey) -> XKey:
    """N((k, c)) = (point(k), c), the version replaced by its public sibling."""
    if not x.is_private:
        raise Malformed("not a private key")
    return XKey(PRV_TO_PUB[x.version], x.depth, x.parent_fingerprint, x.index, x.chain_code,
                ser_p(point(parse256(x.key[1:]))))


def fingerprint(x: XKey) -> bytes:
    if x.is_private:
        return fingerprint_of_point(point(parse256(x.key[1:])))
    return hash160(x.key)[:4]


def parent_prv_from_child(parent_pub: XKey, child_prv: XKey) -> XKey:
    """kpar = ki - parse256(IL) (mod n), IL computable from the parent's public key (unhardened i)."""
    I = hmac_sha512(parent_pub.chain_code, parent_pub.key + ser32(child_prv.index))
    kpar = (parse256(child_prv.key[1:]) - parse256(I[:32])) % N
    return XKey(child_prv.version, parent_pub.depth, parent_pub.parent_fingerprint, parent_pub.index,
                parent_pub.chain_code, b"\x00" + ser256(kpar))


def pub_tweaks(K, c: bytes, path) -> list:
    """parse256(IL) as 32 octets for each step of a public derivation."""
    out = []
    for i in path:
        if i >= HARDENED:
            raise HardenedFromPublic(i)
        I = hmac_sha512(c, ser_p(K) + ser32(i))
        out.append(I[:32])
        K, c = ckd_pub(K, c, i)
    return out


def decode(s: str) -> XKey:
    """Base58Check text -> XKey, refusing what BIP32 calls invalid."""
    raw = b58check_decode(s)
    if len(raw) != 78:
        raise Malformed("length")
    x = XKey(raw[:4], raw[4], raw[5:9], parse256(raw[9:13]), raw[13:45], raw[45:])
    if x.version in PRV_TO_PUB:
        if x.key[0] != 0:
            raise Malformed("private key prefix")
        if not 0 < parse256(x.key[1:]) < N:
            raise Malformed("private key not in 1..n-1")
    elif x.version in PUB_VERSIONS:
        if parse_p(x.key) is None:
            raise Malformed("public key")
    else:
        raise Malformed("version")
    if x.depth == 0 and (x.parent_fingerprint != b"\x00" * 4 or x.index != 0):
        raise Malformed("zero depth with parent fingerprint or index")
    return x


# ------------------------------------------------------------------ base58
B58 = "123456789ABCDEFGHJKLMNPQRSTUVWXYZabcdefghijkmnopqrstuvwxyz"


def b58encode(b: bytes) -> str:
    n = int.from_bytes(b, "big")
    s = ""
    while n:
        n, r = divmod(n, 58)
        s = B58[r] + s
    zeros = len(b) - len(b.lstrip(b"\x00"))
    return "1" * zeros + s


def b58decode(s: str) -> bytes:
    n = 0
    for ch in s:
        if ch not in B58:
            raise Malformed("base58 character")
        n = n * 58 + B58.index(ch)
    zeros = len(s) - len(s.lstrip("1"))
    body = n.to_bytes((n.bit_length() + 7) // 8, "big")
    return b"\x00" * zeros + body


def b58check_encode(payload: bytes) -> str:
    return b58encode(payload + sha256(sha256(payload))[:4])


def b58check_decode(s: str) -> bytes:
    raw = b58decode(s)
    if len(raw) < 4 or sha256(sha256(raw[:-4]))[:4] != raw[-4:]:
        raise Malformed("checksum")
    return raw[:-4]


# ------------------------------------------------------- bech32 (BIP173/350)
B32 = "qpzry9x8gf2tvdw0s3jn54khce6mua7l"


def _polymod(values) -> int:
    gen = [0x3B6A57B2, 0x26508E6D, 0x1EA119FA, 0x3D4233DD, 0x2A1462B3]
    chk = 1
    for v in values:
        b = chk >> 25
        chk = (chk & 0x1FFFFFF) << 5 ^ v
        for i in range(5):
            chk ^= gen[i] if (b >> i) & 1 else 0
    return chk


def _convertbits(data: bytes, frm: int, to: int) -> list:
    acc = bits = 0
    out = []
    for v in data:
        acc = (acc << frm) | v
        bits += frm
        while bits >= to:
            bits -= to
            out.append((acc >> bits) & ((1 << to) - 1))
    if bits:
        out.append((acc << (to - bits)) & ((1 << to) - 1))
    return out


def segwit_address(hrp: str, witver: int, prog: bytes) -> str:
    const = 1 if witver == 0 else 0x2BC830A3
    data = [witver] + _convertbits(prog, 8, 5)
    exp = [ord(c) >> 5 for c in hrp] + [0] + [ord(c) & 31 for c in hrp]
    pm = _polymod(exp + data + [0] * 6) ^ const
    chk = [(pm >> 5 * (5 - i)) & 31 for i in range(6)]
    return hrp + "1" + "".join(B32[d] for d in data + chk)


# -------------------------------------------------------------- addresses
NETS = {"main": {"p2pkh": b"\x00", "p2sh": b"\x05", "hrp": "bc", "wif": b"\x80"},
        "test": {"p2pkh": b"\x6f", "p2sh": b"\xc4", "hrp": "tb", "wif": b"\xef"}}


def address(pubkey33: bytes, script_type: str, net: str) -> str:
    """The address of a compressed public key for one of the four single-key script types."""
    nd = NETS[net]
    h = hash160(pubkey33)
    if script_type == "p2pkh":
        return b58check_encode(nd["p2pkh"] + h)
    if script_type == "p2wpkh-p2sh":
        return b58check_encode(nd["p2sh"] + hash160(b"\x00\x14" + h))
    if script_type == "p2wpkh":
        return segwit_address(nd["hrp"], 0, h)
    if script_type == "p2tr":  # BIP86: key-path only, Q = lift_x(x(P)) + H_TapTweak(x(P)) G
        Pt = EC.lift_x(int.from_bytes(pubkey33[1:], "big"))  # even y
        xb = Pt[0].to_bytes(32, "big")
        t = parse256(tagged_hash(b"TapTweak", xb))
        if t >= N:
            raise InvalidChild("taptweak>=n", 0)
        Q = EC.add(Pt, point(t))
        return segwit_address(nd["hrp"], 1, Q[0].to_bytes(32, "big"))
    raise Malformed(script_type)


PURPOSE_SCRIPT_TYPE = {44: "p2pkh", 49: "p2wpkh-p2sh", 84: "p2wpkh", 86: "p2tr"}
SLIP132_ADDRESS_TYPE = {"p2pkh": "p2pkh", "p2wpkh": "p2wpkh", "p2wpkh-p2sh": "p2wpkh-p2sh"}


def xkey_pubkey(x: XKey) -> bytes:
    return ser_p(point(parse256(x.key[1:]))) if x.is_private else x.key


def wif(k32: bytes, net: str) -> str:
    return b58check_encode(NETS[net]["wif"] + k32 + b"\x01")


# ------------------------------------------------------------------ BIP85
def bip85_entropy(root_key: XKey, path) -> bytes:
    """HMAC-SHA512(key="bip-entropy-from-k", msg=k) of the private key at the (fully hardened) path."""
    k, c = parse256(root_key.key[1:]), root_key.chain_code
    for i in path:
        k, c = ckd_priv(k, c, i)
    return hmac_sha512(b"bip-entropy-from-k", ser256(k))


def bip85_key(root_key: XKey, path) -> bytes:
    k, c = parse256(root_key.key[1:]), root_key.chain_code
    for i in path:
        k, c = ckd_priv(k, c, i)
    return ser256(k)


def bip85_drng(entropy64: bytes, n: int) -> bytes:
    return hashlib.shake_256(entropy64).digest(n)


def h(i: int) -> int:
    return i + HARDENED


BIP85 = 83696968
BIP85_LANG = {"en": 0, "ja": 1, "ko": 2, "es": 3, "zh": 4, "zh_tw": 5, "fr": 6, "it": 7, "cs": 8, "pt": 9}


def bip85_mnemonic_entropy(rk: XKey, words: int, lang_code: int, index: int) -> bytes:
    e = bip85_entropy(rk, [h(BIP85), h(39), h(lang_code), h(words), h(index)])
    return e[: words * 4 // 3]  # 12->16, 15->20, 18->24, 21->28, 24->32 bytes


def bip39_mnemonic(entropy: bytes, wordlist: list) -> str:
    ent = len(entropy) * 8
    cs = ent // 32
    bits = bin(int.from_bytes(entropy, "big"))[2:].zfill(ent) + bin(sha256(entropy)[0])[2:].zfill(8)[:cs]
    return " ".join(wordlist[int(bits[j: j + 11], 2)] for j in range(0, ent + cs, 11))


def bip85_wif(rk: XKey, index: int) -> str:
    e = bip85_entropy(rk, [h(BIP85), h(2), h(index)])
    return wif(e[:32], NET_OF_VERSION[rk.version])


def bip85_xprv(rk: XKey, index: int) -> str:
    e = bip85_entropy(rk, [h(BIP85), h(32), h(index)])
    ver = VERSIONS[(NET_OF_VERSION[rk.version], "p2pkh")][0]
    return XKey(ver, 0, b"\x00" * 4, 0, e[:32], b"\x00" + e[32:]).b58()


def bip85_hex(rk: XKey, num_bytes: int, index: int) -> bytes:
    return bip85_entropy(rk, [h(BIP85), h(128169), h(num_bytes), h(index)])[:num_bytes]


def bip85_pwd64(rk: XKey, n: int, index: int) -> str:
    return b64encode(bip85_entropy(rk, [h(BIP85), h(707764), h(n), h(index)])).decode()[:n]


def bip85_pwd85(rk: XKey, n: int, index: int) -> str:
    return b85encode(bip85_entropy(rk, [h(BIP85), h(707785), h(n), h(index)])).decode()[:n]


def bip85_rolls(rk: XKey, sides: int, rolls: int, index: int) -> list:
    """BIP85 DICE: ceil(log2(sides)) bits per roll, read as whole bytes from the DRNG, most significant
    bits kept, values >= sides skipped."""
    e = bip85_entropy(rk, [h(BIP85), h(89101), h(sides), h(rolls), h(index)])
    bits = 0
    while (1 << bits) < sides:
        bits += 1
    nbytes = (bits + 7) // 8
    out, pos = [], 0
    stream = b""
    while len(out) < rolls:
        if len(stream) < pos + nbytes:
            stream = bip85_drng(e, max(2 * len(stream), 256, pos + nbytes))
        v = int.from_bytes(stream[pos: pos + nbytes], "big") >> (8 * nbytes - bits)
        pos += nbytes
        if v < sides:
            out.append(v)
    return out
