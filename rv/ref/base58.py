"""Reference Base58 / Base58Check (big-integer formulation).  Never imports btclib.

Written from the description in Bitcoin Core's ``base58.h`` / the Bitcoin wiki
"Base58Check encoding": a byte string is read as one big-endian integer, written
in base 58 with the alphabet below, and every leading zero *byte* becomes one
leading ``'1'``.  Base58Check appends the first four bytes of SHA256(SHA256(x)).
"""

from __future__ import annotations

import hashlib

ALPHABET = "123456789ABCDEFGHJKLMNPQRSTUVWXYZabcdefghijkmnopqrstuvwxyz"
assert len(ALPHABET) == 58 and len(set(ALPHABET)) == 58


def sha256d(b: bytes) -> bytes:
    return hashlib.sha256(hashlib.sha256(b).digest()).digest()


def b58encode(data: bytes) -> str:
    """Plain Base58 (no checksum)."""
    zeros = 0
    while zeros < len(data) and data[zeros] == 0:
        zeros += 1
    n = int.from_bytes(data, "big")
    digits = ""
    while n > 0:
        n, r = divmod(n, 58)
        digits = ALPHABET[r] + digits
    return "1" * zeros + digits


def b58decode(s: str) -> bytes | None:
    """Plain Base58; None when a character is outside the alphabet."""
    n = 0
    for ch in s:
        d = ALPHABET.find(ch)
        if d < 0:
            return None
        n = n * 58 + d
    zeros = 0
    while zeros < len(s) and s[zeros] == "1":
        zeros += 1
    body = b"" if n == 0 else n.to_bytes((n.bit_length() + 7) // 8, "big")
    return b"\x00" * zeros + body


def check_encode(payload: bytes) -> str:
    return b58encode(payload + sha256d(payload)[:4])


def check_decode(s: str) -> bytes | None:
    """Base58Check payload, or None (bad character, fewer than 4 bytes, wrong checksum)."""
    raw = b58decode(s)
    if raw is None or len(raw) < 4:
        return None
    payload, chk = raw[:-4], raw[-4:]
    if sha256d(payload)[:4] != chk:
        return None
    return payload
