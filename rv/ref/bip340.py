"""Reference BIP340 (no btclib import).

A transcription of the reference code published with BIP340
(bip-0340/reference.py: ``lift_x``, ``pubkey_gen``, ``schnorr_sign``,
``schnorr_verify``) over the affine arithmetic of ``rv.ref.ec``.  Slow and
literal on purpose.  ``equation`` is the same verification equation on an
arbitrary prime-order short Weierstrass curve with the challenge supplied by
the caller (BIP340 itself is defined on secp256k1/SHA256 only).
"""

from __future__ import annotations

import csv
import hashlib

from . import ec as rec

EC = rec.SECP256K1
p = EC.p
n = EC.n
G = EC.G


def tagged_hash(tag: str, msg: bytes) -> bytes:
    tag_hash = hashlib.sha256(tag.encode()).digest()
    return hashlib.sha256(tag_hash + tag_hash + msg).digest()


def bytes_from_int(x: int) -> bytes:
    return x.to_bytes(32, byteorder="big")


def int_from_bytes(b: bytes) -> int:
    return int.from_bytes(b, byteorder="big")


def xor_bytes(b0: bytes, b1: bytes) -> bytes:
    return bytes(x ^ y for (x, y) in zip(b0, b1))


def has_even_y(P) -> bool:
    assert P is not None
    return P[1] % 2 == 0


def lift_x(x: int):
    """BIP340 lift_x: the point with this x and even y, or None."""
    if x >= p or x < 0:
        return None
    y_sq = (pow(x, 3, p) + 7) % p
    y = pow(y_sq, (p + 1) // 4, p)
    if pow(y, 2, p) != y_sq:
        return None
    return (x, y if y & 1 == 0 else p - y)


def point_mul(P, k: int):
    return EC.mul_nored(k, P) if k >= 0 else None


def pubkey_gen(seckey: bytes) -> bytes:
    d0 = int_from_bytes(seckey)
    if not 1 <= d0 <= n - 1:
        raise ValueError("The secret key must be an integer in the range 1..n-1.")
    P = point_mul(G, d0)
    assert P is not None
    return bytes_from_int(P[0])


def sign_with_trace(msg: bytes, seckey: bytes, aux_rand: bytes):
    """BIP340 default signing; returns (sig, trace) where trace records the
    parities met on the way (for workload classes) and the nonce."""
    d0 = int_from_bytes(seckey)
    if not 1 <= d0 <= n - 1:
        raise ValueError("The secret key must be an integer in the range 1..n-1.")
    if len(aux_rand) != 32:
        raise ValueError("aux_rand must be 32 bytes instead of %i." % len(aux_rand))
    P = point_mul(G, d0)
    assert P is not None
    d = d0 if has_even_y(P) else n - d0
    t = xor_bytes(bytes_from_int(d), tagged_hash("BIP0340/aux", aux_rand))
    k0 = int_from_bytes(tagged_hash("BIP0340/nonce", t + bytes_from_int(P[0]) + msg)) % n
    if k0 == 0:
        raise RuntimeError("Failure. This happens only with negligible probability.")
    R = point_mul(G, k0)
    assert R is not None
    k = n - k0 if not has_even_y(R) else k0
    e = int_from_bytes(tagged_hash("BIP0340/challenge", bytes_from_int(R[0]) + bytes_from_int(P[0]) + msg)) % n
    sig = bytes_from_int(R[0]) + bytes_from_int((k + e * d) % n)
    trace = {"key_odd_y": not has_even_y(P), "nonce_odd_y": not has_even_y(R), "x_P": P[0], "k": k, "d": d, "e": e}
    return sig, trace


def schnorr_sign(msg: bytes, seckey: bytes, aux_rand: bytes) -> bytes:
    sig, tr = sign_with_trace(msg, seckey, aux_rand)
    if not schnorr_verify(msg, bytes_from_int(tr["x_P"]), sig):
        raise RuntimeError("The created signature does not pass verification.")
    return sig


def sign_with_nonce(msg: bytes, d0: int, k0: int) -> bytes:
    """BIP340 signing from the step 'Let R = k'*G' on, for a caller-chosen k' (sign-to-contract)."""
    P = point_mul(G, d0)
    d = d0 if has_even_y(P) else n - d0
    R = point_mul(G, k0 % n)
    assert R is not None
    k = n - k0 % n if not has_even_y(R) else k0 % n
    e = int_from_bytes(tagged_hash("BIP0340/challenge", bytes_from_int(R[0]) + bytes_from_int(P[0]) + msg)) % n
    return bytes_from_int(R[0]) + bytes_from_int((k + e * d) % n)


def schnorr_verify(msg: bytes, pubkey: bytes, sig: bytes) -> bool:
    if len(pubkey) != 32:
        raise ValueError("The public key must be a 32-byte array.")
    if len(sig) != 64:
        raise ValueError("The signature must be a 64-byte array.")
    P = lift_x(int_from_bytes(pubkey))
    r = int_from_bytes(sig[0:32])
    s = int_from_bytes(sig[32:64])
    if (P is None) or (r >= p) or (s >= n):
        return False
    e = int_from_bytes(tagged_hash("BIP0340/challenge", sig[0:32] + pubkey + msg)) % n
    R = EC.add(point_mul(G, s), point_mul(P, n - e))
    if (R is None) or (not has_even_y(R)) or (R[0] != r):
        return False
    return True


def verify_ints(msg: bytes, x: int, r: int, s: int) -> bool:
    """``schnorr_verify`` for integers of any magnitude: what does not fit the
    32-byte encodings is not a key / not a signature, hence False."""
    if not (0 <= x < 1 << 256 and 0 <= r < 1 << 256 and 0 <= s < 1 << 256):
        return False
    return schnorr_verify(msg, bytes_from_int(x), bytes_from_int(r) + bytes_from_int(s))


def equation(rc: rec.RefCurve, x_Q: int, r: int, s: int, e: int) -> bool:
    """BIP340's verification steps on curve ``rc`` with challenge ``e`` given:
    P = lift_x(x_Q) (even y), fail if r >= p or s >= n, R = s*G - e*P,
    fail if R is infinite, has odd y, or x(R) != r."""
    P = rc.lift_x(x_Q) if 0 <= x_Q < rc.p else None
    if P is None or not 0 <= r < rc.p or not 0 <= s < rc.n:
        return False
    R = rc.add(rc.mul_nored(s, rc.G), rc.neg(rc.mul_nored(e % rc.n, P)))
    return R is not None and R[1] % 2 == 0 and R[0] == r


def selftest(csv_path: str) -> tuple[int, list[str]]:
    """Run the published vectors; returns (vectors checked, list of failures)."""
    bad: list[str] = []
    cnt = 0
    with open(csv_path, newline="") as f:
        rows = list(csv.reader(f))
    for row in rows[1:]:
        idx, sk, pk, aux, msg, sig, result, _comment = row
        pkb, msgb, sigb = bytes.fromhex(pk), bytes.fromhex(msg), bytes.fromhex(sig)
        want = result == "TRUE"
        if sk:
            skb = bytes.fromhex(sk)
            if pubkey_gen(skb) != pkb:
                bad.append(f"vector {idx}: pubkey_gen")
            if schnorr_sign(msgb, skb, bytes.fromhex(aux)) != sigb:
                bad.append(f"vector {idx}: schnorr_sign")
        if schnorr_verify(msgb, pkb, sigb) != want:
            bad.append(f"vector {idx}: schnorr_verify != {want}")
        if verify_ints(msgb, int_from_bytes(pkb), int_from_bytes(sigb[:32]), int_from_bytes(sigb[32:])) != want:
            bad.append(f"vector {idx}: verify_ints != {want}")
        if pkb and lift_x(int_from_bytes(pkb)) is not None:
            if equation(EC, int_from_bytes(pkb), int_from_bytes(sigb[:32]), int_from_bytes(sigb[32:]),
                        int_from_bytes(tagged_hash("BIP0340/challenge", sigb[:32] + pkb + msgb)) % n) != want:
                bad.append(f"vector {idx}: equation != {want}")
        cnt += 1
    return cnt, bad
