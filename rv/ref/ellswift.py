"""Reference ElligatorSwift (BIP324) and x-only ECDH.  Never imports btclib.

A transcription of the reference published with BIP324 (``xswiftec``,
``xswiftec_inv``, ``ellswift_decode``, ``ellswift_ecdh_xonly`` and the
``bip324_ellswift_xonly_ecdh`` tagged hash of ``v2_ecdh``) with plain integers
modulo p and ``pow(x, -1, p)``.
"""

from __future__ import annotations

import csv

from . import ec as rec
from .bip340 import tagged_hash

EC = rec.SECP256K1
p, n, G = EC.p, EC.n, EC.G


def fsqrt(v: int):
    """The square root BIP324's FE.sqrt returns (v^((p+1)/4)), or None."""
    v %= p
    s = pow(v, (p + 1) // 4, p)
    return s if s * s % p == v else None


MINUS_3_SQRT = fsqrt(-3)


def is_valid_x(x: int) -> bool:
    return fsqrt(pow(x % p, 3, p) + 7) is not None


def inv(x: int) -> int:
    return pow(x % p, -1, p)


def xswiftec(u: int, t: int) -> int:
    u %= p
    t %= p
    if u == 0:
        u = 1
    if t == 0:
        t = 1
    if (pow(u, 3, p) + t * t + 7) % p == 0:
        t = 2 * t % p
    X = (pow(u, 3, p) + 7 - t * t) * inv(2 * t) % p
    Y = (X + t) * inv(MINUS_3_SQRT * u) % p
    for x in ((u + 4 * Y * Y) % p, (-X * inv(Y) - u) * inv(2) % p, (X * inv(Y) - u) * inv(2) % p):
        if is_valid_x(x):
            return x
    raise AssertionError("xswiftec: no candidate is on the curve")


def xswiftec_inv(x: int, u: int, case: int):
    x %= p
    u %= p
    if case & 2 == 0:
        if is_valid_x(-x - u):
            return None
        v = x
        s = -(pow(u, 3, p) + 7) * inv(u * u + u * v + v * v) % p
    else:
        s = (x - u) % p
        if s == 0:
            return None
        r = fsqrt(-s * (4 * (pow(u, 3, p) + 7) + 3 * s * u * u))
        if r is None:
            return None
        if case & 1 and r == 0:
            return None
        v = (-u + r * inv(s)) * inv(2) % p
    w = fsqrt(s)
    if w is None:
        return None
    if case & 5 == 0:
        return -w * (u * (1 - MINUS_3_SQRT) * inv(2) + v) % p
    if case & 5 == 1:
        return w * (u * (1 + MINUS_3_SQRT) * inv(2) + v) % p
    if case & 5 == 4:
        return w * (u * (1 - MINUS_3_SQRT) * inv(2) + v) % p
    return -w * (u * (1 + MINUS_3_SQRT) * inv(2) + v) % p


def decode_x(ell: bytes) -> int:
    """BIP324 ellswift_decode: the x-coordinate a 64-byte encoding stands for."""
    assert len(ell) == 64
    return xswiftec(int.from_bytes(ell[:32], "big"), int.from_bytes(ell[32:], "big"))


def encode_x(x: int, rng) -> bytes:
    """An encoding of x with u, case drawn from ``rng`` (BIP324 xelligatorswift); t's parity is left as it comes."""
    while True:
        u = rng.randrange(1, p)
        t = xswiftec_inv(x, u, rng.randrange(8))
        if t is not None:
            return u.to_bytes(32, "big") + t.to_bytes(32, "big")


def ecdh_xonly(ell_theirs: bytes, prv: int) -> bytes:
    P = EC.lift_x(decode_x(ell_theirs))
    return EC.mul_nored(prv % n, P)[0].to_bytes(32, "big")


def xdh(ell_a: bytes, ell_b: bytes, prv: int, party: int) -> bytes:
    """BIP324 v2_ecdh: party 0 is A (initiator) and owns ell_a."""
    x = ecdh_xonly(ell_b if party == 0 else ell_a, prv)
    return tagged_hash("bip324_ellswift_xonly_ecdh", ell_a + ell_b + x)


def selftest(decode_csv: str, inv_csv: str) -> tuple[int, list[str]]:
    bad: list[str] = []
    cnt = 0
    with open(decode_csv, newline="") as f:
        for row in list(csv.DictReader(f)):
            cnt += 1
            if decode_x(bytes.fromhex(row["ellswift"])) != int(row["x"], 16):
                bad.append(f"ellswift_decode {row['ellswift'][:16]}")
    with open(inv_csv, newline="") as f:
        for row in list(csv.DictReader(f)):
            u, x = int(row["u"], 16), int(row["x"], 16)
            for case in range(8):
                cnt += 1
                want = int(row[f"case{case}_t"], 16) if row[f"case{case}_t"] else None
                got = xswiftec_inv(x, u, case)
                if got != want:
                    bad.append(f"xswiftec_inv u={row['u'][:12]} case {case}")
                if got is not None and xswiftec(u, got) != x % p:
                    bad.append(f"xswiftec(xswiftec_inv) u={row['u'][:12]} case {case}")
    return cnt, bad
