"""Reference BIP327 (MuSig2): KeyAgg, ApplyTweak and the signing rounds.  Never imports btclib.

A transcription of the reference code published with BIP327
(bip-0327/reference.py: ``key_agg``, ``apply_tweak``, ``nonce_gen_internal``,
``nonce_agg``, ``get_session_values``, ``sign``, ``partial_sig_verify_internal``,
``partial_sig_agg``, ``deterministic_sign``) over the affine arithmetic of
``rv.ref.ec``; infinity is ``None``.  Kept in the BIP's shape, slow and literal.

``selftest(dir)`` replays the eight published vector files.
"""

from __future__ import annotations

import json
import os
from typing import NamedTuple

from . import ec as rec
from .bip340 import tagged_hash

EC = rec.SECP256K1
p, n, G = EC.p, EC.n, EC.G


class InvalidContributionError(Exception):
    def __init__(self, signer, contrib):
        super().__init__(signer, contrib)
        self.signer = signer
        self.contrib = contrib


# ------------------------------------------------------------------- points
def point_add(P1, P2):
    return EC.add(P1, P2)


def point_mul(P, k: int):
    return EC.mul_nored(k % n, P) if P is not None else None


def point_negate(P):
    return EC.neg(P)


def has_even_y(P) -> bool:
    assert P is not None
    return P[1] % 2 == 0


def xbytes(P) -> bytes:
    return P[0].to_bytes(32, "big")


def cbytes(P) -> bytes:
    return (b"\x02" if has_even_y(P) else b"\x03") + xbytes(P)


def cbytes_ext(P) -> bytes:
    return bytes(33) if P is None else cbytes(P)


def lift_x(x: int):
    return EC.lift_x(x)  # even y, None when x >= p or no such point


def cpoint(x: bytes):
    if len(x) != 33:
        raise ValueError("x is not a valid compressed point.")
    P = lift_x(int.from_bytes(x[1:33], "big"))
    if P is None:
        raise ValueError("x is not a valid compressed point.")
    if x[0] == 2:
        return P
    if x[0] == 3:
        return point_negate(P)
    raise ValueError("x is not a valid compressed point.")


def cpoint_ext(x: bytes):
    return None if x == bytes(33) else cpoint(x)


def int_from_bytes(b: bytes) -> int:
    return int.from_bytes(b, "big")


def bytes_from_int(x: int) -> bytes:
    return x.to_bytes(32, "big")


def bytes_xor(a: bytes, b: bytes) -> bytes:
    return bytes(x ^ y for x, y in zip(a, b))


def individual_pk(seckey: bytes) -> bytes:
    d0 = int_from_bytes(seckey)
    if not 1 <= d0 <= n - 1:
        raise ValueError("The secret key must be an integer in the range 1..n-1.")
    return cbytes(point_mul(G, d0))


# ------------------------------------------------------------ key aggregation
class KeyAggContext(NamedTuple):
    Q: tuple
    gacc: int
    tacc: int


def key_sort(pubkeys):
    return sorted(pubkeys)


def get_xonly_pk(ctx: KeyAggContext) -> bytes:
    return xbytes(ctx.Q)


def hash_keys(pubkeys) -> bytes:
    return tagged_hash("KeyAgg list", b"".join(pubkeys))


def get_second_key(pubkeys) -> bytes:
    for j in range(1, len(pubkeys)):
        if pubkeys[j] != pubkeys[0]:
            return pubkeys[j]
    return bytes(33)


def key_agg_coeff_internal(pubkeys, pk_: bytes, pk2: bytes) -> int:
    L = hash_keys(pubkeys)
    if pk_ == pk2:
        return 1
    return int_from_bytes(tagged_hash("KeyAgg coefficient", L + pk_)) % n


def key_agg_coeff(pubkeys, pk_: bytes) -> int:
    return key_agg_coeff_internal(pubkeys, pk_, get_second_key(pubkeys))


def key_agg(pubkeys) -> KeyAggContext:
    pk2 = get_second_key(pubkeys)
    Q = None
    for i, pk in enumerate(pubkeys):
        try:
            P_i = cpoint(pk)
        except ValueError:
            raise InvalidContributionError(i, "pubkey")
        a_i = key_agg_coeff_internal(pubkeys, pk, pk2)
        Q = point_add(Q, point_mul(P_i, a_i))
    assert Q is not None
    return KeyAggContext(Q, 1, 0)


def apply_tweak(ctx: KeyAggContext, tweak: bytes, is_xonly: bool) -> KeyAggContext:
    if len(tweak) != 32:
        raise ValueError("The tweak must be a 32-byte array.")
    Q, gacc, tacc = ctx
    g = n - 1 if (is_xonly and not has_even_y(Q)) else 1
    t = int_from_bytes(tweak)
    if t >= n:
        raise ValueError("The tweak must be less than n.")
    Q_ = point_add(point_mul(Q, g), point_mul(G, t))
    if Q_ is None:
        raise ValueError("The result of tweaking cannot be infinity.")
    return KeyAggContext(Q_, g * gacc % n, (t + g * tacc) % n)


def key_agg_and_tweak(pubkeys, tweaks, is_xonly) -> KeyAggContext:
    if len(tweaks) != len(is_xonly):
        raise ValueError("The `tweaks` and `is_xonly` arrays must have the same length.")
    ctx = key_agg(pubkeys)
    for t, x in zip(tweaks, is_xonly):
        ctx = apply_tweak(ctx, t, x)
    return ctx


# --------------------------------------------------------------------- nonces
def nonce_hash(rand: bytes, pk: bytes, aggpk: bytes, i: int, msg_prefixed: bytes, extra_in: bytes) -> int:
    buf = b""
    buf += rand
    buf += len(pk).to_bytes(1, "big")
    buf += pk
    buf += len(aggpk).to_bytes(1, "big")
    buf += aggpk
    buf += msg_prefixed
    buf += len(extra_in).to_bytes(4, "big")
    buf += extra_in
    buf += i.to_bytes(1, "big")
    return int_from_bytes(tagged_hash("MuSig/nonce", buf))


def nonce_gen_internal(rand_: bytes, sk, pk: bytes, aggpk, msg, extra_in):
    rand = bytes_xor(sk, tagged_hash("MuSig/aux", rand_)) if sk is not None else rand_
    if aggpk is None:
        aggpk = b""
    msg_prefixed = b"\x00" if msg is None else b"\x01" + len(msg).to_bytes(8, "big") + msg
    if extra_in is None:
        extra_in = b""
    k_1 = nonce_hash(rand, pk, aggpk, 0, msg_prefixed, extra_in) % n
    k_2 = nonce_hash(rand, pk, aggpk, 1, msg_prefixed, extra_in) % n
    assert k_1 != 0 and k_2 != 0
    pubnonce = cbytes(point_mul(G, k_1)) + cbytes(point_mul(G, k_2))
    secnonce = bytearray(bytes_from_int(k_1) + bytes_from_int(k_2) + pk)
    return secnonce, pubnonce


def nonce_agg(pubnonces) -> bytes:
    aggnonce = b""
    for j in (1, 2):
        R_j = None
        for i, pn in enumerate(pubnonces):
            try:
                R_ij = cpoint(pn[(j - 1) * 33:j * 33])
            except ValueError:
                raise InvalidContributionError(i, "pubnonce")
            R_j = point_add(R_j, R_ij)
        aggnonce += cbytes_ext(R_j)
    return aggnonce


# -------------------------------------------------------------------- session
class SessionContext(NamedTuple):
    aggnonce: bytes
    pubkeys: list
    tweaks: list
    is_xonly: list
    msg: bytes


def get_session_values(sc: SessionContext):
    aggnonce, pubkeys, tweaks, is_xonly, msg = sc
    Q, gacc, tacc = key_agg_and_tweak(pubkeys, tweaks, is_xonly)
    b = int_from_bytes(tagged_hash("MuSig/noncecoef", aggnonce + xbytes(Q) + msg)) % n
    try:
        R_1 = cpoint_ext(aggnonce[0:33])
        R_2 = cpoint_ext(aggnonce[33:66])
    except ValueError:
        raise InvalidContributionError(None, "aggnonce")
    R_ = point_add(R_1, point_mul(R_2, b))
    R = R_ if R_ is not None else G
    e = int_from_bytes(tagged_hash("BIP0340/challenge", xbytes(R) + xbytes(Q) + msg)) % n
    return Q, gacc, tacc, b, R, e


def session_values_with(kctx: KeyAggContext, aggnonce: bytes, msg: bytes):
    """``get_session_values`` for a key aggregation already at hand (same steps, no re-aggregation)."""
    Q, gacc, tacc = kctx
    b = int_from_bytes(tagged_hash("MuSig/noncecoef", aggnonce + xbytes(Q) + msg)) % n
    try:
        R_1 = cpoint_ext(aggnonce[0:33])
        R_2 = cpoint_ext(aggnonce[33:66])
    except ValueError:
        raise InvalidContributionError(None, "aggnonce")
    R_ = point_add(R_1, point_mul(R_2, b))
    R = R_ if R_ is not None else G
    e = int_from_bytes(tagged_hash("BIP0340/challenge", xbytes(R) + xbytes(Q) + msg)) % n
    return Q, gacc, tacc, b, R, e


def partial_sig_verify_with(values, pubkeys, psig: bytes, pubnonce: bytes, pk: bytes) -> bool:
    """``partial_sig_verify_internal`` against session values already at hand."""
    Q, gacc, _, b, R, e = values
    s = int_from_bytes(psig)
    if s >= n:
        return False
    R_s1 = cpoint(pubnonce[0:33])
    R_s2 = cpoint(pubnonce[33:66])
    Re_s_ = point_add(R_s1, point_mul(R_s2, b))
    Re_s = Re_s_ if has_even_y(R) else point_negate(Re_s_)
    P = cpoint(pk)
    if pk not in pubkeys:
        raise ValueError("The signer's pubkey must be included in the list of pubkeys.")
    a = key_agg_coeff(pubkeys, pk)
    g = 1 if has_even_y(Q) else n - 1
    g_ = g * gacc % n
    return point_mul(G, s) == point_add(Re_s, point_mul(P, e * a * g_ % n))


def get_session_key_agg_coeff(sc: SessionContext, P) -> int:
    pk = cbytes(P)
    if pk not in sc.pubkeys:
        raise ValueError("The signer's pubkey must be included in the list of pubkeys.")
    return key_agg_coeff(sc.pubkeys, pk)


def sign(secnonce: bytearray, sk: bytes, sc: SessionContext) -> bytes:
    Q, gacc, _, b, R, e = get_session_values(sc)
    k_1_ = int_from_bytes(secnonce[0:32])
    k_2_ = int_from_bytes(secnonce[32:64])
    secnonce[:64] = bytearray(64)
    if not 0 < k_1_ < n:
        raise ValueError("first secnonce value is out of range.")
    if not 0 < k_2_ < n:
        raise ValueError("second secnonce value is out of range.")
    k_1 = k_1_ if has_even_y(R) else n - k_1_
    k_2 = k_2_ if has_even_y(R) else n - k_2_
    d_ = int_from_bytes(sk)
    if not 0 < d_ < n:
        raise ValueError("secret key value is out of range.")
    P = point_mul(G, d_)
    pk = cbytes(P)
    if pk != bytes(secnonce[64:97]):
        raise ValueError("Public key does not match nonce_gen argument")
    a = get_session_key_agg_coeff(sc, P)
    g = 1 if has_even_y(Q) else n - 1
    d = g * gacc * d_ % n
    s = (k_1 + b * k_2 + e * a * d) % n
    psig = bytes_from_int(s)
    R_s1 = point_mul(G, k_1_)
    R_s2 = point_mul(G, k_2_)
    pubnonce = cbytes(R_s1) + cbytes(R_s2)
    assert partial_sig_verify_internal(psig, pubnonce, pk, sc)
    return psig


def partial_sig_verify_internal(psig: bytes, pubnonce: bytes, pk: bytes, sc: SessionContext) -> bool:
    Q, gacc, _, b, R, e = get_session_values(sc)
    s = int_from_bytes(psig)
    if s >= n:
        return False
    R_s1 = cpoint(pubnonce[0:33])
    R_s2 = cpoint(pubnonce[33:66])
    Re_s_ = point_add(R_s1, point_mul(R_s2, b))
    Re_s = Re_s_ if has_even_y(R) else point_negate(Re_s_)
    P = cpoint(pk)
    a = get_session_key_agg_coeff(sc, P)
    g = 1 if has_even_y(Q) else n - 1
    g_ = g * gacc % n
    return point_mul(G, s) == point_add(Re_s, point_mul(P, e * a * g_ % n))


def partial_sig_verify(psig, pubnonces, pubkeys, tweaks, is_xonly, msg, i) -> bool:
    if len(pubnonces) != len(pubkeys):
        raise ValueError("The `pubnonces` and `pubkeys` arrays must have the same length.")
    aggnonce = nonce_agg(pubnonces)
    return partial_sig_verify_internal(psig, pubnonces[i], pubkeys[i], SessionContext(aggnonce, pubkeys, tweaks, is_xonly, msg))


def partial_sig_agg(psigs, sc: SessionContext) -> bytes:
    Q, _, tacc, _, R, e = get_session_values(sc)
    s = 0
    for i, ps in enumerate(psigs):
        s_i = int_from_bytes(ps)
        if s_i >= n:
            raise InvalidContributionError(i, "psig")
        s = (s + s_i) % n
    g = 1 if has_even_y(Q) else n - 1
    s = (s + e * g * tacc) % n
    return xbytes(R) + bytes_from_int(s)


def det_nonce_hash(sk_: bytes, aggothernonce: bytes, aggpk: bytes, msg: bytes, i: int) -> int:
    buf = sk_ + aggothernonce + aggpk + len(msg).to_bytes(8, "big") + msg + i.to_bytes(1, "big")
    return int_from_bytes(tagged_hash("MuSig/deterministic/nonce", buf))


def deterministic_sign(sk: bytes, aggothernonce: bytes, pubkeys, tweaks, is_xonly, msg: bytes, rand):
    sk_ = bytes_xor(sk, tagged_hash("MuSig/aux", rand)) if rand is not None else sk
    aggpk = get_xonly_pk(key_agg_and_tweak(pubkeys, tweaks, is_xonly))
    k_1 = det_nonce_hash(sk_, aggothernonce, aggpk, msg, 0) % n
    k_2 = det_nonce_hash(sk_, aggothernonce, aggpk, msg, 1) % n
    assert k_1 != 0 and k_2 != 0
    pubnonce = cbytes(point_mul(G, k_1)) + cbytes(point_mul(G, k_2))
    secnonce = bytearray(bytes_from_int(k_1) + bytes_from_int(k_2) + individual_pk(sk))
    try:
        aggnonce = nonce_agg([pubnonce, aggothernonce])
    except Exception:
        raise InvalidContributionError(None, "aggothernonce")
    sc = SessionContext(aggnonce, pubkeys, tweaks, is_xonly, msg)
    return pubnonce, sign(secnonce, sk, sc)


# ------------------------------------------------------------------- selftest
def _h(x):
    return bytes.fromhex(x)


def _expect_error(fn, err: dict) -> bool:
    try:
        fn()
    except InvalidContributionError as e:
        return err["type"] == "invalid_contribution" and err.get("signer") == e.signer and err.get("contrib") == e.contrib
    except ValueError as e:
        return err["type"] == "value" and str(e) == err["message"]
    except AssertionError:
        return False
    return False


def selftest(vec_dir: str) -> tuple[int, list[str]]:
    """Replay the BIP327 vector files; returns (vectors checked, failures)."""
    bad: list[str] = []
    cnt = 0

    def load(name):
        with open(os.path.join(vec_dir, name)) as f:
            return json.load(f)

    d = load("key_sort_vectors.json")
    cnt += 1
    if key_sort([_h(x) for x in d["pubkeys"]]) != [_h(x) for x in d["sorted_pubkeys"]]:
        bad.append("key_sort")

    d = load("key_agg_vectors.json")
    pks, tws = [_h(x) for x in d["pubkeys"]], [_h(x) for x in d["tweaks"]]
    for i, tc in enumerate(d["valid_test_cases"]):
        cnt += 1
        if get_xonly_pk(key_agg([pks[k] for k in tc["key_indices"]])) != _h(tc["expected"]):
            bad.append(f"key_agg valid {i}")
    for i, tc in enumerate(d["error_test_cases"]):
        cnt += 1
        if not _expect_error(lambda: key_agg_and_tweak([pks[k] for k in tc["key_indices"]],
                                                       [tws[k] for k in tc["tweak_indices"]], tc["is_xonly"]), tc["error"]):
            bad.append(f"key_agg error {i}")

    d = load("nonce_gen_vectors.json")
    for i, tc in enumerate(d["test_cases"]):
        cnt += 1
        o = lambda k: None if tc[k] is None else _h(tc[k])  # noqa: E731
        sec, pub = nonce_gen_internal(_h(tc["rand_"]), o("sk"), _h(tc["pk"]), o("aggpk"), o("msg"), o("extra_in"))
        if bytes(sec) != _h(tc["expected_secnonce"]) or pub != _h(tc["expected_pubnonce"]):
            bad.append(f"nonce_gen {i}")

    d = load("nonce_agg_vectors.json")
    pn = [_h(x) for x in d["pnonces"]]
    for i, tc in enumerate(d["valid_test_cases"]):
        cnt += 1
        if nonce_agg([pn[k] for k in tc["pnonce_indices"]]) != _h(tc["expected"]):
            bad.append(f"nonce_agg valid {i}")
    for i, tc in enumerate(d["error_test_cases"]):
        cnt += 1
        if not _expect_error(lambda: nonce_agg([pn[k] for k in tc["pnonce_indices"]]), tc["error"]):
            bad.append(f"nonce_agg error {i}")

    d = load("sign_verify_vectors.json")
    sk, pks = _h(d["sk"]), [_h(x) for x in d["pubkeys"]]
    secn, pn = [_h(x) for x in d["secnonces"]], [_h(x) for x in d["pnonces"]]
    aggn, msgs = [_h(x) for x in d["aggnonces"]], [_h(x) for x in d["msgs"]]
    for i, tc in enumerate(d["valid_test_cases"]):
        cnt += 1
        pk_l = [pks[k] for k in tc["key_indices"]]
        pn_l = [pn[k] for k in tc["nonce_indices"]]
        sc = SessionContext(aggn[tc["aggnonce_index"]], pk_l, [], [], msgs[tc["msg_index"]])
        if nonce_agg(pn_l) != sc.aggnonce or sign(bytearray(secn[0]), sk, sc) != _h(tc["expected"]) or \
                not partial_sig_verify(_h(tc["expected"]), pn_l, pk_l, [], [], sc.msg, tc["signer_index"]):
            bad.append(f"sign_verify valid {i}")
    for i, tc in enumerate(d["sign_error_test_cases"]):
        cnt += 1
        sc = SessionContext(aggn[tc["aggnonce_index"]], [pks[k] for k in tc["key_indices"]], [], [], msgs[tc["msg_index"]])
        if not _expect_error(lambda: sign(bytearray(secn[tc["secnonce_index"]]), sk, sc), tc["error"]):
            bad.append(f"sign error {i}")
    for i, tc in enumerate(d["verify_fail_test_cases"]):
        cnt += 1
        pk_l, pn_l = [pks[k] for k in tc["key_indices"]], [pn[k] for k in tc["nonce_indices"]]
        vals = session_values_with(key_agg(pk_l), nonce_agg(pn_l), msgs[tc["msg_index"]])
        if partial_sig_verify_with(vals, pk_l, _h(tc["sig"]), pn_l[tc["signer_index"]], pk_l[tc["signer_index"]]):
            bad.append(f"verify fail {i} (values at hand)")
        if partial_sig_verify(_h(tc["sig"]), [pn[k] for k in tc["nonce_indices"]], [pks[k] for k in tc["key_indices"]],
                              [], [], msgs[tc["msg_index"]], tc["signer_index"]):
            bad.append(f"verify fail {i}")
    for i, tc in enumerate(d["verify_error_test_cases"]):
        cnt += 1
        if not _expect_error(lambda: partial_sig_verify(_h(tc["sig"]), [pn[k] for k in tc["nonce_indices"]],
                                                        [pks[k] for k in tc["key_indices"]], [], [], msgs[tc["msg_index"]],
                                                        tc["signer_index"]), tc["error"]):
            bad.append(f"verify error {i}")

    d = load("tweak_vectors.json")
    sk, pks, pn = _h(d["sk"]), [_h(x) for x in d["pubkeys"]], [_h(x) for x in d["pnonces"]]
    tws, msg, aggnonce, secnonce = [_h(x) for x in d["tweaks"]], _h(d["msg"]), _h(d["aggnonce"]), _h(d["secnonce"])
    for i, tc in enumerate(d["valid_test_cases"]):
        cnt += 1
        pk_l, pn_l = [pks[k] for k in tc["key_indices"]], [pn[k] for k in tc["nonce_indices"]]
        tw_l = [tws[k] for k in tc["tweak_indices"]]
        sc = SessionContext(aggnonce, pk_l, tw_l, tc["is_xonly"], msg)
        if sign(bytearray(secnonce), sk, sc) != _h(tc["expected"]) or \
                not partial_sig_verify(_h(tc["expected"]), pn_l, pk_l, tw_l, tc["is_xonly"], msg, tc["signer_index"]):
            bad.append(f"tweak valid {i}")
        vals = session_values_with(key_agg_and_tweak(pk_l, tw_l, tc["is_xonly"]), nonce_agg(pn_l), msg)
        if vals != get_session_values(SessionContext(nonce_agg(pn_l), pk_l, tw_l, tc["is_xonly"], msg)) or \
                not partial_sig_verify_with(vals, pk_l, _h(tc["expected"]), pn_l[tc["signer_index"]], pk_l[tc["signer_index"]]):
            bad.append(f"tweak valid {i} (values at hand)")
    for i, tc in enumerate(d["error_test_cases"]):
        cnt += 1
        sc = SessionContext(aggnonce, [pks[k] for k in tc["key_indices"]], [tws[k] for k in tc["tweak_indices"]], tc["is_xonly"], msg)
        if not _expect_error(lambda: sign(bytearray(secnonce), sk, sc), tc["error"]):
            bad.append(f"tweak error {i}")

    d = load("sig_agg_vectors.json")
    pks, pn, tws = [_h(x) for x in d["pubkeys"]], [_h(x) for x in d["pnonces"]], [_h(x) for x in d["tweaks"]]
    psigs, msg = [_h(x) for x in d["psigs"]], _h(d["msg"])
    from .bip340 import schnorr_verify
    for i, tc in enumerate(d["valid_test_cases"]):
        cnt += 1
        pk_l = [pks[k] for k in tc["key_indices"]]
        tw_l = [tws[k] for k in tc["tweak_indices"]]
        sc = SessionContext(_h(tc["aggnonce"]), pk_l, tw_l, tc["is_xonly"], msg)
        sig = partial_sig_agg([psigs[k] for k in tc["psig_indices"]], sc)
        aggpk = get_xonly_pk(key_agg_and_tweak(pk_l, tw_l, tc["is_xonly"]))
        if nonce_agg([pn[k] for k in tc["nonce_indices"]]) != sc.aggnonce or sig != _h(tc["expected"]) or \
                not schnorr_verify(msg, aggpk, sig):
            bad.append(f"sig_agg valid {i}")
    for i, tc in enumerate(d["error_test_cases"]):
        cnt += 1
        sc = SessionContext(_h(tc["aggnonce"]), [pks[k] for k in tc["key_indices"]], [tws[k] for k in tc["tweak_indices"]], tc["is_xonly"], msg)
        if not _expect_error(lambda: partial_sig_agg([psigs[k] for k in tc["psig_indices"]], sc), tc["error"]):
            bad.append(f"sig_agg error {i}")

    d = load("det_sign_vectors.json")
    sk, pks, msgs = _h(d["sk"]), [_h(x) for x in d["pubkeys"]], [_h(x) for x in d["msgs"]]
    for i, tc in enumerate(d["valid_test_cases"]):
        cnt += 1
        pk_l = [pks[k] for k in tc["key_indices"]]
        tw_l = [_h(x) for x in tc["tweaks"]]
        rand = _h(tc["rand"]) if tc["rand"] is not None else None
        pubnonce, psig = deterministic_sign(sk, _h(tc["aggothernonce"]), pk_l, tw_l, tc["is_xonly"], msgs[tc["msg_index"]], rand)
        if [pubnonce, psig] != [_h(x) for x in tc["expected"]]:
            bad.append(f"det_sign valid {i}")
    for i, tc in enumerate(d["error_test_cases"]):
        cnt += 1
        rand = _h(tc["rand"]) if tc["rand"] is not None else None
        if not _expect_error(lambda: deterministic_sign(sk, _h(tc["aggothernonce"]), [pks[k] for k in tc["key_indices"]],
                                                        [_h(x) for x in tc["tweaks"]], tc["is_xonly"], msgs[tc["msg_index"]], rand),
                             tc["error"]):
            bad.append(f"det_sign error {i}")
    return cnt, bad
