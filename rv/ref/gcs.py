"""Reference SipHash-2-4, BIP158 Golomb-coded sets and BIP152 short ids (no btclib import).

SipHash from the paper (Aumasson, Bernstein 2012, section 2: whole 8-byte words, then the
final word carrying the length), BIP158 from its pseudo code with the bit stream as a plain
list of 0/1 integers, BIP152's short transaction id from its "Short transaction IDs" section.
"""

from __future__ import annotations

import hashlib

M64 = (1 << 64) - 1
BASIC_P = 19
BASIC_M = 784931


# ------------------------------------------------------------------ siphash
def _rotl(x: int, b: int) -> int:
    return ((x << b) & M64) | (x >> (64 - b))


def _sipround(v: list[int]) -> None:
    v[0] = (v[0] + v[1]) & M64
    v[2] = (v[2] + v[3]) & M64
    v[1] = _rotl(v[1], 13) ^ v[0]
    v[3] = _rotl(v[3], 16) ^ v[2]
    v[0] = _rotl(v[0], 32)
    v[2] = (v[2] + v[1]) & M64
    v[0] = (v[0] + v[3]) & M64
    v[1] = _rotl(v[1], 17) ^ v[2]
    v[3] = _rotl(v[3], 21) ^ v[0]
    v[2] = _rotl(v[2], 32)


def siphash24(k0: int, k1: int, data: bytes) -> int:
    v = [k0 ^ 0x736F6D6570736575, k1 ^ 0x646F72616E646F6D, k0 ^ 0x6C7967656E657261, k1 ^ 0x7465646279746573]
    whole = len(data) // 8
    words = [int.from_bytes(data[8 * i:8 * i + 8], "little") for i in range(whole)]
    last = int.from_bytes(data[8 * whole:], "little") | ((len(data) % 256) << 56)
    for m in words + [last]:
        v[3] ^= m
        _sipround(v)
        _sipround(v)
        v[0] ^= m
    v[2] ^= 0xFF
    for _ in range(4):
        _sipround(v)
    return v[0] ^ v[1] ^ v[2] ^ v[3]


# ------------------------------------------------------------------ BIP158
def key_from_block_hash(block_hash_internal: bytes) -> tuple[int, int]:
    """k = first 16 bytes of the block hash in its little-endian (hashed, internal) representation."""
    return int.from_bytes(block_hash_internal[0:8], "little"), int.from_bytes(block_hash_internal[8:16], "little")


def hash_to_range(item: bytes, f: int, k: tuple[int, int]) -> int:
    return (siphash24(k[0], k[1], item) * f) >> 64


def hashed_set_construct(raw_items: set[bytes], k: tuple[int, int], m: int = BASIC_M) -> list[int]:
    n = len(raw_items)
    f = n * m
    return [hash_to_range(item, f, k) for item in raw_items]


def golomb_encode(bits: list[int], x: int, p: int) -> None:
    q = x >> p
    while q > 0:
        bits.append(1)
        q -= 1
    bits.append(0)
    for i in range(p - 1, -1, -1):  # write_bits_big_endian(stream, x, P)
        bits.append((x >> i) & 1)


def golomb_decode(bits: list[int], pos: int, p: int) -> tuple[int, int]:
    q = 0
    while bits[pos] == 1:
        q += 1
        pos += 1
    pos += 1
    r = 0
    for _ in range(p):
        r = (r << 1) | bits[pos]
        pos += 1
    return (q << p) + r, pos


def bits_to_bytes(bits: list[int]) -> bytes:
    bits = bits + [0] * (-len(bits) % 8)
    return bytes(int("".join(map(str, bits[i:i + 8])), 2) for i in range(0, len(bits), 8))


def bytes_to_bits(b: bytes) -> list[int]:
    return [(byte >> (7 - i)) & 1 for byte in b for i in range(8)]


def construct_gcs(raw_items: set[bytes], k: tuple[int, int], p: int = BASIC_P, m: int = BASIC_M) -> bytes:
    """BIP158 construct_gcs: the Golomb-Rice coded sorted deltas, zero-padded to a byte (without N)."""
    set_items = sorted(hashed_set_construct(raw_items, k, m))
    bits: list[int] = []
    last = 0
    for item in set_items:
        golomb_encode(bits, item - last, p)
        last = item
    return bits_to_bytes(bits)


def compact_size(n: int) -> bytes:
    if n < 253:
        return bytes([n])
    if n <= 0xFFFF:
        return b"\xfd" + n.to_bytes(2, "little")
    if n <= 0xFFFFFFFF:
        return b"\xfe" + n.to_bytes(4, "little")
    return b"\xff" + n.to_bytes(8, "little")


def serialized_filter(raw_items: set[bytes], block_hash_internal: bytes) -> bytes:
    """CompactSize(N) || GCS, as the BIP158 test vectors print a basic filter."""
    return compact_size(len(raw_items)) + construct_gcs(raw_items, key_from_block_hash(block_hash_internal))


def decode_gcs(encoded: bytes, n: int, p: int = BASIC_P) -> list[int]:
    bits = bytes_to_bits(encoded)
    pos, last, out = 0, 0, []
    for _ in range(n):
        delta, pos = golomb_decode(bits, pos, p)
        last += delta
        out.append(last)
    return out


def gcs_match(encoded: bytes, n: int, k: tuple[int, int], target: bytes, p: int = BASIC_P, m: int = BASIC_M) -> bool:
    th = hash_to_range(target, n * m, k)
    return th in decode_gcs(encoded, n, p)


def basic_filter_elements(txs, prev_scripts: list[bytes]) -> set[bytes]:
    """BIP158 basic filter contents, from ``ref.merkle.RawTx`` objects and the spent scripts.

    Every output script except the empty ones and those starting with OP_RETURN (0x6a); every
    spent script except the empty ones ("any nil items MUST NOT be included").
    """
    items: set[bytes] = set()
    for tx in txs:
        for _, script in tx.vout:
            if script and script[0] != 0x6A:
                items.add(bytes(script))
    for script in prev_scripts:
        if script:
            items.add(bytes(script))
    return items


def dsha256(b: bytes) -> bytes:
    return hashlib.sha256(hashlib.sha256(b).digest()).digest()


def filter_header(serialized: bytes, prev_header_internal: bytes) -> bytes:
    """double-SHA256(filter_hash || previous_header), internal byte order."""
    return dsha256(dsha256(serialized) + prev_header_internal)


# ------------------------------------------------------------------ BIP152
def short_id_key(header80: bytes, nonce: int) -> tuple[int, int]:
    """Single-SHA256 of the header with the 8-byte little-endian nonce appended; k0, k1 = first two LE words."""
    d = hashlib.sha256(header80 + nonce.to_bytes(8, "little")).digest()
    return int.from_bytes(d[0:8], "little"), int.from_bytes(d[8:16], "little")


def short_id(header80: bytes, nonce: int, wtxid_internal: bytes) -> int:
    """SipHash-2-4 of the wtxid keyed as above, the 2 most significant bytes dropped."""
    k0, k1 = short_id_key(header80, nonce)
    return siphash24(k0, k1, wtxid_internal) & 0xFFFFFFFFFFFF
