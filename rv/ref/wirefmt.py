"""Declarative wire layouts with a reference reader/writer that emits field maps.

A layout is a list of field descriptors written straight from the protocol
documentation (Bitcoin developer reference "P2P Network", BIP 31/35/37/130/133/
144/152/155/157/339, BIP32 "Serialization format", BIP340).  ``write`` produces
the one canonical encoding of a value dictionary, ``read`` walks bytes and
records ``(offset, width, kind)`` for every field; C05 uses the map to mutate
encodings *at* field boundaries, length prefixes and counts.  Never imports btclib.

Values: ints, bytes, ``RTx`` for transactions, dicts for nested structures,
lists for vectors.
"""

from __future__ import annotations

from .txcodec import Cursor, RefError, RTx, read_tx, ser_compact_size


class U:
    """Fixed-width integer."""

    def __init__(self, name, size, signed=False, big=False, values=None):
        self.name, self.size, self.signed, self.big, self.values = name, size, signed, big, values

    def bounds(self):
        bits = 8 * self.size
        if self.values is not None:
            return list(self.values)
        if self.signed:
            return [-(1 << (bits - 1)), -(1 << (bits - 1)) + 1, -1, 0, 1, (1 << (bits - 1)) - 2, (1 << (bits - 1)) - 1]
        return [0, 1, 2, (1 << (bits - 1)) - 1, 1 << (bits - 1), (1 << bits) - 2, (1 << bits) - 1]

    def rand(self, rng):
        bits = 8 * self.size
        if self.values is not None:
            return rng.choice(list(self.values))
        v = rng.getrandbits(rng.choice([1, 7, 8, bits - 1, bits, bits]) or 1) & ((1 << bits) - 1)
        return v - (1 << (bits - 1)) if self.signed else v


class B:
    """``size`` raw bytes."""

    def __init__(self, name, size):
        self.name, self.size = name, size


class VB:
    """CompactSize length followed by that many bytes."""

    def __init__(self, name, lens=(0, 1, 2, 252, 253, 254, 65535, 65536), max_len=None):
        self.name, self.lens, self.max_len = name, lens, max_len


class CS:
    """A bare CompactSize value."""

    def __init__(self, name, values=(0, 1, 252, 253, 65535, 65536, 0xFFFFFFFF, 0x100000000, 0xFFFFFFFFFFFFFFFF), small=None):
        self.name, self.values, self.small = name, values, small


class VEC:
    """CompactSize count followed by ``count`` elements laid out as ``elem`` (a layout)."""

    def __init__(self, name, elem, counts=(0, 1, 2, 3, 252, 253), max_count=None, heavy=False):
        self.name, self.elem, self.counts, self.max_count, self.heavy = name, elem, counts, max_count, heavy


class SUB:
    def __init__(self, name, layout):
        self.name, self.layout = name, layout


class TX:
    def __init__(self, name):
        self.name = name


class OPT:
    """An optional trailing field: present when data is left."""

    def __init__(self, field):
        self.name, self.field = field.name, field


class REST:
    """Whatever is left (optionally a multiple of ``unit`` bytes)."""

    def __init__(self, name, unit=1):
        self.name, self.unit = name, unit


# --------------------------------------------------------------------- write
def write(layout, v) -> bytes:
    out = []
    for f in layout:
        x = v.get(f.name)
        if isinstance(f, U):
            out.append(int(x).to_bytes(f.size, "big" if f.big else "little", signed=f.signed))
        elif isinstance(f, B):
            if len(x) != f.size:
                raise RefError(f"{f.name}: {len(x)} bytes for a {f.size}-byte field")
            out.append(bytes(x))
        elif isinstance(f, VB):
            out += [ser_compact_size(len(x)), bytes(x)]
        elif isinstance(f, CS):
            out.append(ser_compact_size(x))
        elif isinstance(f, VEC):
            out.append(ser_compact_size(len(x)))
            out += [write(f.elem, e) for e in x]
        elif isinstance(f, SUB):
            out.append(write(f.layout, x))
        elif isinstance(f, TX):
            out.append(x.ser(True))
        elif isinstance(f, OPT):
            if x is not None:
                out.append(write([f.field], {f.name: x}))
        elif isinstance(f, REST):
            out.append(bytes(x))
        else:
            raise TypeError(f)
    return b"".join(out)


# ---------------------------------------------------------------------- read
def read(layout, b: bytes, cur: Cursor | None = None, prefix: str = "") -> tuple[dict, Cursor]:
    c = cur if cur is not None else Cursor(b)
    v: dict = {}
    for f in layout:
        kind = prefix + f.name
        if isinstance(f, U):
            v[f.name] = c.uint(f.size, "int:" + kind, signed=f.signed, big=f.big)
        elif isinstance(f, B):
            v[f.name] = c.take(f.size, "bytes:" + kind)
        elif isinstance(f, VB):
            v[f.name] = c.var_bytes(kind)
        elif isinstance(f, CS):
            v[f.name] = c.compact("cs:" + kind)
        elif isinstance(f, VEC):
            n = c.compact("count:" + kind)
            if n > len(b):
                raise RefError(f"{kind}: count beyond the data")
            v[f.name] = [read(f.elem, b, c, kind + ".")[0] for _ in range(n)]
        elif isinstance(f, SUB):
            v[f.name] = read(f.layout, b, c, kind + ".")[0]
        elif isinstance(f, TX):
            v[f.name] = read_tx(b, cur=c)
        elif isinstance(f, OPT):
            v[f.name] = None if c.at_end() else read([f.field], b, c, prefix)[0][f.name]
        elif isinstance(f, REST):
            rest = len(b) - c.pos
            if rest % f.unit:
                raise RefError(f"{kind}: {rest} bytes left, not a multiple of {f.unit}")
            v[f.name] = c.take(rest, "rest:" + kind)
        else:
            raise TypeError(f)
    return v, c


def read_all(layout, b: bytes) -> tuple[dict, list[tuple[int, int, str]], bool]:
    """Whole-buffer read -> (values, field map, canonical) ; raises RefError on short data."""
    v, c = read(layout, b)
    canonical = c.minimal and c.at_end() and write(layout, v) == b
    return v, c.fields, canonical


def strip_tx(v):
    """Values with RTx replaced by their bytes (for comparison / printing)."""
    if isinstance(v, RTx):
        return v.ser(True)
    if isinstance(v, dict):
        return {k: strip_tx(x) for k, x in v.items()}
    if isinstance(v, list):
        return [strip_tx(x) for x in v]
    return v
