"""Reference RFC 6979 nonce generation (no btclib import).

A transcription of RFC 6979 section 3.2 (HMAC_DRBG instantiated with the private
key and the message digest), with the additional input k' of section 3.6
appended after bits2octets(h1) in steps d and f.  ``hashfunc`` is a constructor
of hashlib objects (``hashlib.sha256``, or any callable returning one).

``core_grind_extra`` is the convention of Bitcoin Core's ``CKey::Sign`` for
low-R grinding: the first attempt has no additional input at all, attempt i > 0
passes the counter i as a 32-byte array whose first four bytes are the
little-endian counter (``WriteLE32(extra_entropy, ++counter)``).
"""

from __future__ import annotations

import hmac


def bits2int(b: bytes, qlen: int) -> int:  # 2.3.2
    x = int.from_bytes(b, "big")
    blen = 8 * len(b)
    if blen > qlen:
        x >>= blen - qlen
    return x


def int2octets(x: int, rlen_octets: int) -> bytes:  # 2.3.3
    return x.to_bytes(rlen_octets, "big")


def bits2octets(b: bytes, q: int) -> bytes:  # 2.3.4
    qlen = q.bit_length()
    z1 = bits2int(b, qlen)
    z2 = z1 - q if z1 >= q else z1  # z1 mod q, z1 < 2^qlen < 2q
    return int2octets(z2, (qlen + 7) // 8)


def candidates(x: int, q: int, h1: bytes, hashfunc, extra: bytes = b""):
    """Yield the successive candidate values k of step h (range-checked by the caller)."""
    qlen = q.bit_length()
    rolen = (qlen + 7) // 8

    def H(key: bytes, msg: bytes) -> bytes:
        return hmac.new(key, msg, hashfunc).digest()

    hlen = hashfunc().digest_size
    seed = int2octets(x, rolen) + bits2octets(h1, q) + extra
    V = b"\x01" * hlen  # b
    K = b"\x00" * hlen  # c
    K = H(K, V + b"\x00" + seed)  # d
    V = H(K, V)  # e
    K = H(K, V + b"\x01" + seed)  # f
    V = H(K, V)  # g
    while True:  # h
        T = b""  # h.1
        while 8 * len(T) < qlen:  # h.2
            V = H(K, V)
            T += V
        yield bits2int(T, qlen)  # h.3
        K = H(K, V + b"\x00")
        V = H(K, V)


def nonce(x: int, q: int, h1: bytes, hashfunc, extra: bytes = b"") -> int:
    """The first candidate in 1..q-1."""
    for k in candidates(x, q, h1, hashfunc, extra):
        if 1 <= k <= q - 1:
            return k
    raise AssertionError("unreachable")


def core_grind_extra(counter: int) -> bytes:
    return b"" if counter == 0 else counter.to_bytes(4, "little") + bytes(28)


def is_low_r(r: int, q: int) -> bool:
    """r fits the octet length of q as a positive DER INTEGER without a pad byte
    (Core's SigHasLowR: first octet of the fixed-width r below 0x80)."""
    rolen = (q.bit_length() + 7) // 8
    return int2octets(r, rolen)[0] < 0x80
