"""BIP327 key aggregation, BIP328 synthetic xpub, BIP390 musig() key (no btclib import).

Only what a ``musig()`` key expression needs.  Transcribed from the algorithms
section of BIP327 (KeySort, KeyAgg, HashKeys, GetSecondKey, KeyAggCoeffInternal)
over the affine arithmetic of ``rv.ref.ec`` (``None`` is the point at infinity),
from BIP328 ("the synthetic xpub": version of an xpub, depth 0, parent fingerprint
0, child number 0, the fixed chain code, the aggregate plain public key) and from
BIP390 (the participant keys are sorted with KeySort after their own derivation
and before KeyAgg; a derivation written after the closing bracket is unhardened
BIP32 derivation from the synthetic xpub).

(``rv/ref/keyagg.py`` is the complete BIP327 reference of another check; this
file is deliberately self-contained so that C14's oracle does not move with it.)
"""

from __future__ import annotations

import hashlib

from . import ec as rec

EC = rec.SECP256K1
N = EC.n
P_FIELD = EC.p

# BIP328: SHA256("MuSig2MuSig2MuSig2")
BIP328_CHAIN_CODE = bytes.fromhex("868087ca02a6f974c4598924c36b57762d32cb45717167e300622c7167e38965")
XPUB_VERSION = bytes.fromhex("0488b21e")


class Fail(Exception):
    """The specification says 'fail'."""


def tagged_hash(tag: str, msg: bytes) -> bytes:
    th = hashlib.sha256(tag.encode()).digest()
    return hashlib.sha256(th + th + msg).digest()


def cpoint(b: bytes):
    """BIP327 cpoint: 33 octets -> point, Fail otherwise."""
    if len(b) != 33 or b[0] not in (2, 3):
        raise Fail("not a compressed point")
    x = int.from_bytes(b[1:], "big")
    if x >= P_FIELD:
        raise Fail("x not below the field size")
    Pt = EC.lift_x(x, b[0] & 1)
    if Pt is None:
        raise Fail("x is not on the curve")
    return Pt


def cbytes(Pt) -> bytes:
    return bytes([2 + (Pt[1] & 1)]) + Pt[0].to_bytes(32, "big")


def key_sort(pubkeys: list[bytes]) -> list[bytes]:
    """BIP327 KeySort: lexicographic order of the 33-byte encodings."""
    return sorted(pubkeys)


def hash_keys(pubkeys: list[bytes]) -> bytes:
    return tagged_hash("KeyAgg list", b"".join(pubkeys))


def get_second_key(pubkeys: list[bytes]) -> bytes:
    for pk in pubkeys[1:]:
        if pk != pubkeys[0]:
            return pk
    return bytes(33)


def key_agg_coeff_internal(pubkeys: list[bytes], pk_: bytes, pk2: bytes) -> int:
    L = hash_keys(pubkeys)
    if pk_ == pk2:
        return 1
    return int.from_bytes(tagged_hash("KeyAgg coefficient", L + pk_), "big") % N


def key_agg(pubkeys: list[bytes]):
    """BIP327 KeyAgg (no tweaks): the aggregate point Q, for the list in the order given."""
    if not pubkeys:
        raise Fail("no key")
    pk2 = get_second_key(pubkeys)
    Q = None
    for pk in pubkeys:
        Pi = cpoint(pk)
        a = key_agg_coeff_internal(pubkeys, pk, pk2)
        Q = EC.add(Q, EC.mul_nored(a, Pi))
    if Q is None:
        raise Fail("aggregate key is the point at infinity")
    return Q


def aggregate_plain(pubkeys: list[bytes]) -> bytes:
    """33-byte plain aggregate public key of the list as given (BIP328's input)."""
    return cbytes(key_agg(pubkeys))


def musig_aggregate(pubkeys: list[bytes]) -> bytes:
    """BIP390: KeySort, then KeyAgg; the 33-byte plain key."""
    return aggregate_plain(key_sort(list(pubkeys)))


def synthetic_xpub_fields(aggregate33: bytes):
    """BIP328: (version, depth, parent fingerprint, child number, chain code, key)."""
    return XPUB_VERSION, 0, bytes(4), 0, BIP328_CHAIN_CODE, aggregate33
