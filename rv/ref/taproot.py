"""Reference BIP341 commitments (no btclib import).

A transcription of the reference code published in BIP341 ("Constructing and
spending Taproot outputs": ``taproot_tweak_pubkey``, ``taproot_tweak_seckey``,
``taproot_tree_helper``, ``taproot_output_script``, ``taproot_sign_script``) and
of the numbered list under "Script validation rules" (control block
verification), over the affine arithmetic of ``rv.ref.ec``.  Slow and literal on
purpose.

Trees are BIP341's: a leaf is the *tuple* ``(leaf_version, script_bytes)``, a
branch is a *list* of two trees.

The only departure from the published text: ``taproot_tree_helper`` takes the
leaf version modulo its lowest bit (``v & 0xfe``).  BIP341 defines leaf versions
as the control byte with the parity bit cleared, so an odd value is not a leaf
version at all; masking is the one reading under which a control block (which
can only carry ``v & 0xfe``) can prove the leaf.  ``effective_version`` is that
rule, stated once.

Also here: the script serialization BIP341/342 leaves commit to (Bitcoin's
script encoding: one byte per op code, minimal push operator for data), with a
small op code table copied from Bitcoin Core's ``script/script.h``, and the
descriptor leaf scripts of BIP386 (``pk``) and BIP387 (``multi_a``).
"""

from __future__ import annotations

import hashlib

from . import ec as rec

EC = rec.SECP256K1
P_FIELD = EC.p
N = EC.n
G = EC.G
MAX_DEPTH = 128  # BIP341: m is an integer between 0 and 128 inclusive

# BIP341, "Constructing and spending Taproot outputs": H = lift_x(0x5092...3ac0)
NUMS_X = bytes.fromhex("50929b74c1a04954b78b4b6035e97a5e078a5a0f28ec96d547bfee9ace803ac0")


class Fail(Exception):
    """The specification says 'fail' (tweak not below n, key not an x-coordinate)."""


# ---------------------------------------------------------------- primitives
def sha256(b: bytes) -> bytes:
    return hashlib.sha256(b).digest()


def tagged_hash(tag: str, msg: bytes) -> bytes:
    th = sha256(tag.encode())
    return sha256(th + th + msg)


def compact_size(n: int) -> bytes:
    if n < 253:
        return bytes([n])
    if n <= 0xFFFF:
        return b"\xfd" + n.to_bytes(2, "little")
    if n <= 0xFFFFFFFF:
        return b"\xfe" + n.to_bytes(4, "little")
    return b"\xff" + n.to_bytes(8, "little")


def ser_script(script: bytes) -> bytes:
    return compact_size(len(script)) + script


def lift_x(x: int):
    """BIP340 lift_x: the point with this x and even y, or None."""
    if not 0 <= x < P_FIELD:
        return None
    y_sq = (pow(x, 3, P_FIELD) + 7) % P_FIELD
    y = pow(y_sq, (P_FIELD + 1) // 4, P_FIELD)
    if pow(y, 2, P_FIELD) != y_sq:
        return None
    return (x, y if y & 1 == 0 else P_FIELD - y)


def point_mul(k: int):
    """k*G for 0 <= k (not reduced: the callers have checked the range)."""
    return EC.mul_nored(k, G)


def effective_version(v: int) -> int:
    return v & 0xFE


# -------------------------------------------------------- BIP341 constructing
def tweak_int(pubkey32: bytes, h: bytes) -> int:
    t = int.from_bytes(tagged_hash("TapTweak", pubkey32 + h), "big")
    if t >= N:
        raise Fail("tweak not below the group order")
    return t


def tweak_pubkey_with(pubkey32: bytes, t: int):
    """(parity, x-only output key) for an already computed tweak 0 <= t < n."""
    Pt = lift_x(int.from_bytes(pubkey32, "big"))
    if Pt is None:
        raise Fail("internal key is not an x-coordinate")
    Q = EC.add(Pt, point_mul(t))
    if Q is None:
        raise Fail("output key is the point at infinity")
    return Q[1] & 1, Q[0].to_bytes(32, "big")


def taproot_tweak_pubkey(pubkey32: bytes, h: bytes):
    return tweak_pubkey_with(pubkey32, tweak_int(pubkey32, h))


def tweak_seckey_with(seckey0: int, t: int) -> int:
    Pt = point_mul(seckey0)
    seckey = seckey0 if Pt[1] & 1 == 0 else N - seckey0
    return (seckey + t) % N


def taproot_tweak_seckey(seckey0: int, h: bytes) -> int:
    if not 0 < seckey0 < N:
        raise Fail("not a private key")
    Pt = point_mul(seckey0)
    seckey = seckey0 if Pt[1] & 1 == 0 else N - seckey0
    t = tweak_int(Pt[0].to_bytes(32, "big"), h)
    return (seckey + t) % N


def leaf_hash(version: int, script: bytes) -> bytes:
    return tagged_hash("TapLeaf", bytes([version]) + ser_script(script))


def branch_hash(a: bytes, b: bytes) -> bytes:
    if b < a:
        a, b = b, a
    return tagged_hash("TapBranch", a + b)


def taproot_tree_helper(script_tree, orders: dict | None = None):
    """([((version, script), path), ...] in tree order, root hash).

    ``orders`` (optional) counts, per branch, how the two child hashes compared:
    keys 'lt', 'gt', 'eq' (evidence that both sides of the sort were met).
    Iterative post-order walk, so the depth bound is the caller's business.
    """
    # stack of (node, state); results stack of (info, hash)
    todo = [(script_tree, 0)]
    done: list = []
    while todo:
        node, state = todo.pop()
        if isinstance(node, tuple):
            version, script = node
            v = effective_version(version)
            done.append(([((v, script), b"")], leaf_hash(v, script)))
        elif state == 0:
            if not (isinstance(node, list) and len(node) == 2):
                raise ValueError("a branch is a list of two trees")
            todo.append((node, 1))
            todo.append((node[1], 0))
            todo.append((node[0], 0))
        else:
            right, right_h = done.pop()
            left, left_h = done.pop()
            ret = [(l, c + right_h) for l, c in left] + [(l, c + left_h) for l, c in right]
            if orders is not None:
                orders["lt" if left_h < right_h else ("gt" if right_h < left_h else "eq")] += 1
            if right_h < left_h:
                left_h, right_h = right_h, left_h
            done.append((ret, tagged_hash("TapBranch", left_h + right_h)))
    assert len(done) == 1
    return done[0]


def merkle_root(script_tree) -> bytes:
    return b"" if script_tree is None else taproot_tree_helper(script_tree)[1]


def taproot_output_script(internal_pubkey32: bytes, script_tree) -> bytes:
    _, q = taproot_tweak_pubkey(internal_pubkey32, merkle_root(script_tree))
    return bytes([0x51, 0x20]) + q


def control_block(internal_pubkey32: bytes, script_tree, script_num: int):
    """(script, control block) of BIP341's taproot_sign_script."""
    info, h = taproot_tree_helper(script_tree)
    (version, script), path = info[script_num]
    parity, _ = taproot_tweak_pubkey(internal_pubkey32, h)
    return script, bytes([parity + version]) + internal_pubkey32 + path


# --------------------------------------------------- BIP341 script validation
def verify_control_block(q: bytes, script: bytes, c: bytes) -> bool:
    """The control-block part of BIP341's script validation rules; False is 'fail'."""
    if len(q) != 32:
        return False
    if len(c) < 33 or (len(c) - 33) % 32 != 0:
        return False
    m = (len(c) - 33) // 32
    if m > MAX_DEPTH:
        return False
    p = c[1:33]
    Pt = lift_x(int.from_bytes(p, "big"))
    if Pt is None:
        return False
    k = leaf_hash(c[0] & 0xFE, script)
    for j in range(m):
        e = c[33 + 32 * j : 65 + 32 * j]
        k = tagged_hash("TapBranch", k + e) if k < e else tagged_hash("TapBranch", e + k)
    t = int.from_bytes(tagged_hash("TapTweak", p + k), "big")
    if t >= N:
        return False
    Q = EC.add(Pt, point_mul(t))
    if Q is None:
        return False
    return q == Q[0].to_bytes(32, "big") and (c[0] & 1) == (Q[1] & 1)


def fold_path(version: int, script: bytes, path: bytes) -> bytes:
    """Root reached from a leaf along a merkle path (no curve arithmetic)."""
    k = leaf_hash(version & 0xFE, script)
    for j in range(len(path) // 32):
        e = path[32 * j : 32 * j + 32]
        k = tagged_hash("TapBranch", k + e) if k < e else tagged_hash("TapBranch", e + k)
    return k


# --------------------------------------------------------- script encoding
# Bitcoin Core script/script.h (opcodetype), the subset the workloads use
OPCODES = {
    "OP_0": 0x00, "OP_1NEGATE": 0x4F, "OP_NOP": 0x61, "OP_IF": 0x63, "OP_NOTIF": 0x64, "OP_ELSE": 0x67,
    "OP_ENDIF": 0x68, "OP_VERIFY": 0x69, "OP_RETURN": 0x6A, "OP_TOALTSTACK": 0x6B, "OP_FROMALTSTACK": 0x6C,
    "OP_DROP": 0x75, "OP_DUP": 0x76, "OP_SWAP": 0x7C, "OP_SIZE": 0x82, "OP_EQUAL": 0x87, "OP_EQUALVERIFY": 0x88,
    "OP_NOT": 0x91, "OP_ADD": 0x93, "OP_NUMEQUAL": 0x9C, "OP_NUMEQUALVERIFY": 0x9D, "OP_RIPEMD160": 0xA6,
    "OP_SHA256": 0xA8, "OP_HASH160": 0xA9, "OP_HASH256": 0xAA, "OP_CODESEPARATOR": 0xAB, "OP_CHECKSIG": 0xAC,
    "OP_CHECKSIGVERIFY": 0xAD, "OP_CHECKLOCKTIMEVERIFY": 0xB1, "OP_CHECKSEQUENCEVERIFY": 0xB2,
    "OP_CHECKSIGADD": 0xBA,
}
OPCODES.update({f"OP_{i}": 0x50 + i for i in range(1, 17)})
NAME_OF = {v: k for k, v in OPCODES.items()}
# BIP342: the op codes renamed OP_SUCCESSx
OP_SUCCESS = frozenset([80, 98] + list(range(126, 130)) + list(range(131, 135)) + [137, 138, 141, 142]
                       + list(range(149, 154)) + list(range(187, 255)))


def push(data: bytes) -> bytes:
    """Data push with the minimal push *operator* (CScript::operator<<(vector))."""
    n = len(data)
    if n < 0x4C:
        return bytes([n]) + data
    if n <= 0xFF:
        return b"\x4c" + bytes([n]) + data
    if n <= 0xFFFF:
        return b"\x4d" + n.to_bytes(2, "little") + data
    return b"\x4e" + n.to_bytes(4, "little") + data


def script_bytes(items) -> bytes:
    """Serialize neutral script items: ('op', NAME) | ('data', bytes) | ('success', x, raw_tail)."""
    out = b""
    for it in items:
        if it[0] == "op":
            out += bytes([OPCODES[it[1]]])
        elif it[0] == "data":
            out += push(it[1])
        elif it[0] == "success":
            if it[1] not in OP_SUCCESS:
                raise ValueError("not an OP_SUCCESSx")
            return out + bytes([it[1]]) + it[2]
        else:
            raise ValueError(it[0])
    return out


def script_items(b: bytes):
    """Inverse of ``script_bytes`` for scripts made of table op codes and pushes (None otherwise)."""
    items, i = [], 0
    while i < len(b):
        op = b[i]
        i += 1
        if op in OP_SUCCESS:
            items.append(("success", op, b[i:]))
            return items
        if 0 < op <= 0x4E:
            if op < 0x4C:
                n = op
            else:
                w = 1 << (op - 0x4C)
                if i + w > len(b):
                    return None
                n = int.from_bytes(b[i : i + w], "little")
                i += w
            if i + n > len(b):
                return None
            items.append(("data", b[i : i + n]))
            i += n
        elif op in NAME_OF:
            items.append(("op", NAME_OF[op]))
        else:
            return None
    return items


# ------------------------------------------------------ descriptor leaves
def pk_leaf(xonly: bytes) -> bytes:
    """BIP386: pk(KEY) inside tr() is <KEY> OP_CHECKSIG with the 32-byte x-only key."""
    return push(xonly) + bytes([OPCODES["OP_CHECKSIG"]])


def script_num(k: int) -> bytes:
    """Push of a small non-negative number as Core writes it (CScript::push_int64)."""
    if k == 0:
        return b"\x00"
    if 1 <= k <= 16:
        return bytes([0x50 + k])
    out = b""
    v = k
    while v:
        out += bytes([v & 0xFF])
        v >>= 8
    if out[-1] & 0x80:
        out += b"\x00"
    return push(out)


def multi_a_leaf(k: int, xonlys: list[bytes]) -> bytes:
    """BIP387: <K1> OP_CHECKSIG <K2> OP_CHECKSIGADD ... <Kn> OP_CHECKSIGADD <k> OP_NUMEQUAL."""
    out = push(xonlys[0]) + bytes([OPCODES["OP_CHECKSIG"]])
    for x in xonlys[1:]:
        out += push(x) + bytes([OPCODES["OP_CHECKSIGADD"]])
    return out + script_num(k) + bytes([OPCODES["OP_NUMEQUAL"]])


# ------------------------------------------------------------- self-test
def selftest(vectors: dict) -> tuple[int, list[str]]:
    """Run the BIP341 wallet vectors through this module; (checks passed, failures)."""
    ok, bad = 0, []

    def chk(cond: bool, what: str):
        nonlocal ok
        if cond:
            ok += 1
        else:
            bad.append(what)

    def build(node):
        if isinstance(node, dict):
            return (node["leafVersion"], bytes.fromhex(node["script"]))
        return [build(node[0]), build(node[1])]

    def leaves_of(node, out):
        if isinstance(node, dict):
            out.append(node)
        else:
            leaves_of(node[0], out)
            leaves_of(node[1], out)
        return out

    for i, v in enumerate(vectors["scriptPubKey"]):
        ik = bytes.fromhex(v["given"]["internalPubkey"])
        st = v["given"]["scriptTree"]
        tree = None if st is None else build(st)
        inter, exp = v["intermediary"], v["expected"]
        h = merkle_root(tree)
        if tree is not None:
            chk(h.hex() == inter["merkleRoot"], f"spk[{i}] merkle root")
            info, _ = taproot_tree_helper(tree)
            chk([leaf_hash(l[0], l[1]).hex() for l, _ in info] == inter["leafHashes"], f"spk[{i}] leaf hashes")
        chk(tweak_int(ik, h).to_bytes(32, "big").hex() == inter["tweak"], f"spk[{i}] tweak")
        parity, q = taproot_tweak_pubkey(ik, h)
        chk(q.hex() == inter["tweakedPubkey"], f"spk[{i}] tweaked pubkey")
        chk(taproot_output_script(ik, tree).hex() == exp["scriptPubKey"], f"spk[{i}] scriptPubKey")
        if tree is not None:
            lv = leaves_of(st, [])
            for j, want in enumerate(exp["scriptPathControlBlocks"]):
                script, cb = control_block(ik, tree, j)
                chk(cb.hex() == want, f"spk[{i}] control block {j}")
                chk(script.hex() == lv[j]["script"], f"spk[{i}] leaf order {j}")
                chk(verify_control_block(q, script, cb), f"spk[{i}] control block {j} verifies")
                # the verifier must be able to say no: parity, version, path, key and length
                flip = bytearray(cb)
                flip[0] ^= 1
                chk(not verify_control_block(q, script, bytes(flip)), f"spk[{i}] parity flip {j} fails")
                flip = bytearray(cb)
                flip[-1] ^= 0x10
                chk(not verify_control_block(q, script, bytes(flip)), f"spk[{i}] last-byte flip {j} fails")
                chk(not verify_control_block(q, script + b"\x00", cb), f"spk[{i}] script extension {j} fails")
                chk(not verify_control_block(q, script, cb + b"\x00"), f"spk[{i}] length {j} fails")
                chk(not verify_control_block(q, script, cb[:-1]), f"spk[{i}] truncation {j} fails")
                # the script encoder reproduces the published leaf scripts
                items = script_items(script)
                chk(items is not None and script_bytes(items) == script, f"spk[{i}] script codec {j}")
    for i, v in enumerate(vectors["keyPathSpending"]):
        for j, inp in enumerate(v["inputSpending"]):
            g, inter = inp["given"], inp["intermediary"]
            d0 = int(g["internalPrivkey"], 16)
            h = bytes.fromhex(g["merkleRoot"]) if g["merkleRoot"] else b""
            Pt = point_mul(d0)
            chk(Pt[0].to_bytes(32, "big").hex() == inter["internalPubkey"], f"kps[{i}][{j}] internal pubkey")
            chk(tweak_int(Pt[0].to_bytes(32, "big"), h).to_bytes(32, "big").hex() == inter["tweak"], f"kps[{i}][{j}] tweak")
            d = taproot_tweak_seckey(d0, h)
            chk(d.to_bytes(32, "big").hex() == inter["tweakedPrivkey"], f"kps[{i}][{j}] tweaked privkey")
            parity, q = taproot_tweak_pubkey(Pt[0].to_bytes(32, "big"), h)
            Q = point_mul(d)
            chk(Q[0].to_bytes(32, "big") == q and (Q[1] & 1) == parity, f"kps[{i}][{j}] d*G is the output key")
    # fixed points of the arithmetic the vectors do not pin down
    chk(lift_x(int.from_bytes(NUMS_X, "big")) is not None, "NUMS point lifts")
    chk(lift_x(P_FIELD) is None and lift_x(P_FIELD + 1) is None, "x >= p is not lifted")
    chk(compact_size(252) == b"\xfc" and compact_size(253) == b"\xfd\xfd\x00" and compact_size(0x10000) == b"\xfe\x00\x00\x01\x00",
        "compact size boundaries")
    chk(push(b"\x01" * 75)[:1] == b"\x4b" and push(b"\x01" * 76)[:2] == b"\x4c\x4c" and push(b"\x01" * 256)[:3] == b"\x4d\x00\x01",
        "push boundaries")
    chk(multi_a_leaf(2, [b"\x11" * 32, b"\x22" * 32]).hex() == "20" + "11" * 32 + "ac" + "20" + "22" * 32 + "ba" + "52" + "9c",
        "multi_a leaf shape")
    return ok, bad
