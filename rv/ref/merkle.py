"""Reference merkle tree, block/transaction wire codec and BIP141 commitment (no btclib import).

Transcribed from Bitcoin Core ``consensus/merkle.cpp`` (``ComputeMerkleRoot`` with
its ``mutated`` out-parameter), the branch functions Core keeps in
``test/merkle_tests.cpp`` (``ComputeMerkleBranch`` / ``ComputeMerkleRootFromBranch``),
BIP141 (witness commitment) and BIP144 (transaction serialization).  Everything is
in *internal* byte order (the order that is hashed); callers reverse for display.

Deliberately the slowest formulation: lists of 32-byte strings, one level at a time.
"""

from __future__ import annotations

import hashlib


def dsha256(b: bytes) -> bytes:
    return hashlib.sha256(hashlib.sha256(b).digest()).digest()


# ------------------------------------------------------------------ merkle tree
def compute_merkle_root(hashes: list[bytes]) -> tuple[bytes, bool]:
    """Core's ComputeMerkleRoot(hashes, &mutated): (root, mutated).  Empty list -> 32 zero bytes."""
    hashes = list(hashes)
    mutation = False
    while len(hashes) > 1:
        pos = 0
        while pos + 1 < len(hashes):
            if hashes[pos] == hashes[pos + 1]:
                mutation = True
            pos += 2
        if len(hashes) & 1:
            hashes.append(hashes[-1])
        hashes = [dsha256(hashes[2 * i] + hashes[2 * i + 1]) for i in range(len(hashes) // 2)]
    if not hashes:
        return bytes(32), mutation
    return hashes[0], mutation


def levels(hashes: list[bytes]) -> list[list[bytes]]:
    """Every level of the tree, bottom-up, *before* padding (the last one is [root])."""
    out = [list(hashes)]
    cur = list(hashes)
    while len(cur) > 1:
        if len(cur) & 1:
            cur = cur + [cur[-1]]
        cur = [dsha256(cur[2 * i] + cur[2 * i + 1]) for i in range(len(cur) // 2)]
        out.append(cur)
    return out


def merkle_branch(hashes: list[bytes], index: int, lv: list[list[bytes]] | None = None) -> list[bytes]:
    """The siblings met from leaf ``index`` up to the root (an absent sibling is the node itself).

    ``lv`` may carry ``levels(hashes)`` computed once for many indexes of the same list.
    """
    assert 0 <= index < len(hashes)
    branch = []
    for level in (levels(hashes) if lv is None else lv)[:-1]:
        sib = index ^ 1
        branch.append(level[sib] if sib < len(level) else level[index])
        index >>= 1
    return branch


def root_from_branch(leaf: bytes, branch: list[bytes], index: int) -> bytes:
    """Core's ComputeMerkleRootFromBranch (no hardening: pure arithmetic)."""
    h = leaf
    for sib in branch:
        if index & 1:
            h = dsha256(sib + h)
        else:
            h = dsha256(h + sib)
        index >>= 1
    return h


def is_correct_proof(hashes: list[bytes], leaf: bytes, branch: list[bytes], index: int, lv=None) -> bool:
    """Is (leaf, branch, index) *the* proof of the leaf at that position of this very list?"""
    return 0 <= index < len(hashes) and hashes[index] == leaf and merkle_branch(hashes, index, lv) == list(branch)


def duplicated_tail(hashes: list[bytes]) -> list[bytes] | None:
    """CVE-2012-2459: the longer list with the same root (Core merkle_tests: duplicate the last 2^ctz(n))."""
    n = len(hashes)
    d = n & -n  # 1 << ctz(n)
    if d >= n:
        return None  # duplicating the whole tree adds a level: different root
    return list(hashes) + list(hashes[n - d:])


# ------------------------------------------------------------------ wire codec
def ser_compact_size(n: int) -> bytes:
    if n < 253:
        return bytes([n])
    if n <= 0xFFFF:
        return b"\xfd" + n.to_bytes(2, "little")
    if n <= 0xFFFFFFFF:
        return b"\xfe" + n.to_bytes(4, "little")
    return b"\xff" + n.to_bytes(8, "little")


class Reader:
    def __init__(self, b: bytes, pos: int = 0):
        self.b, self.pos = b, pos

    def take(self, n: int) -> bytes:
        if self.pos + n > len(self.b):
            raise ValueError("short read")
        r = self.b[self.pos:self.pos + n]
        self.pos += n
        return r

    def u(self, n: int) -> int:
        return int.from_bytes(self.take(n), "little")

    def compact_size(self) -> int:
        f = self.u(1)
        if f < 253:
            return f
        n = self.u({253: 2, 254: 4, 255: 8}[f])
        if n < {253: 253, 254: 0x10000, 255: 0x100000000}[f]:
            raise ValueError("non-canonical compact size")
        return n

    def var_bytes(self) -> bytes:
        return self.take(self.compact_size())


class RawTx:
    """One transaction as written on the wire, with both of its hashes (internal order)."""

    def __init__(self, version: int, vin: list[tuple], vout: list[tuple], locktime: int):
        # vin: (prev_txid_internal, prev_index, script_sig, sequence, witness_stack(list[bytes]))
        # vout: (value, script_pub_key)
        self.version, self.vin, self.vout, self.locktime = version, [tuple(i) for i in vin], [tuple(o) for o in vout], locktime

    @property
    def has_witness(self) -> bool:
        return any(i[4] for i in self.vin)

    @property
    def is_coinbase(self) -> bool:
        return len(self.vin) == 1 and self.vin[0][0] == bytes(32) and self.vin[0][1] == 0xFFFFFFFF

    def serialize(self, with_witness: bool = True) -> bytes:
        wit = with_witness and self.has_witness
        out = self.version.to_bytes(4, "little")
        if wit:
            out += b"\x00\x01"
        out += ser_compact_size(len(self.vin))
        for txid, n, script, seq, _ in self.vin:
            out += txid + n.to_bytes(4, "little") + ser_compact_size(len(script)) + script + seq.to_bytes(4, "little")
        out += ser_compact_size(len(self.vout))
        for value, script in self.vout:
            out += value.to_bytes(8, "little") + ser_compact_size(len(script)) + script
        if wit:
            for *_, stack in self.vin:
                out += ser_compact_size(len(stack))
                for item in stack:
                    out += ser_compact_size(len(item)) + item
        return out + self.locktime.to_bytes(4, "little")

    @property
    def txid(self) -> bytes:
        return dsha256(self.serialize(False))

    @property
    def wtxid(self) -> bytes:
        return dsha256(self.serialize(True))


def parse_tx(r: Reader) -> RawTx:
    version = r.u(4)
    n_in = r.compact_size()
    wit = False
    if n_in == 0:
        if r.u(1) != 1:
            raise ValueError("bad segwit flag")
        wit = True
        n_in = r.compact_size()
    vin = []
    for _ in range(n_in):
        txid = r.take(32)
        n = r.u(4)
        script = r.var_bytes()
        vin.append([txid, n, script, r.u(4), []])
    vout = []
    for _ in range(r.compact_size()):
        value = r.u(8)
        vout.append((value, r.var_bytes()))
    if wit:
        for i in vin:
            i[4] = [r.var_bytes() for _ in range(r.compact_size())]
    return RawTx(version, vin, vout, r.u(4))


def is_serialized_tx(b: bytes) -> bool:
    """Do these bytes parse as exactly one transaction that serializes back to them?"""
    try:
        r = Reader(b)
        tx = parse_tx(r)
        return r.pos == len(b) and len(tx.vin) > 0 and tx.serialize(True) == b
    except (ValueError, KeyError):
        return False


class RawBlock:
    def __init__(self, header: bytes, txs: list[RawTx]):
        assert len(header) == 80
        self.header, self.txs = header, txs

    @property
    def hash(self) -> bytes:
        return dsha256(self.header)

    @property
    def header_merkle_root(self) -> bytes:
        return self.header[36:68]

    @property
    def bits(self) -> int:
        return int.from_bytes(self.header[72:76], "little")

    def serialize(self, with_witness: bool = True) -> bytes:
        return self.header + ser_compact_size(len(self.txs)) + b"".join(t.serialize(with_witness) for t in self.txs)


def parse_block(b: bytes) -> RawBlock:
    r = Reader(b)
    header = r.take(80)
    txs = [parse_tx(r) for _ in range(r.compact_size())]
    if r.pos != len(b):
        raise ValueError("trailing bytes after block")
    return RawBlock(header, txs)


def ser_header(version: int, prev_internal: bytes, root_internal: bytes, time: int, bits: int, nonce: int) -> bytes:
    return (version.to_bytes(4, "little") + prev_internal + root_internal + time.to_bytes(4, "little")
            + bits.to_bytes(4, "little") + nonce.to_bytes(4, "little"))


def block_merkle_root(txs: list[RawTx]) -> tuple[bytes, bool]:
    """Core's BlockMerkleRoot."""
    return compute_merkle_root([t.txid for t in txs])


# ------------------------------------------------------------------ BIP141
COMMITMENT_HEADER = bytes.fromhex("6a24aa21a9ed")


def witness_merkle_root(txs: list[RawTx]) -> bytes:
    """Core's BlockWitnessMerkleRoot: the coinbase's leaf is 32 zero bytes."""
    return compute_merkle_root([bytes(32)] + [t.wtxid for t in txs[1:]])[0]


def witness_commitment(txs: list[RawTx], nonce: bytes) -> bytes:
    """BIP141: Double-SHA256(witness root hash | witness reserved value)."""
    return dsha256(witness_merkle_root(txs) + nonce)


def commitment_script(commitment: bytes, extra: bytes = b"") -> bytes:
    return COMMITMENT_HEADER + commitment + extra


def commitment_index(coinbase: RawTx) -> int | None:
    """Core's GetWitnessCommitmentIndex: the *last* output of at least 38 bytes starting 6a24aa21a9ed."""
    pos = None
    for i, (_, script) in enumerate(coinbase.vout):
        if len(script) >= 38 and script[:6] == COMMITMENT_HEADER:
            pos = i
    return pos
