"""Reference for Bitcoin Core's compact targets, retarget and work (no btclib import).

Line-by-line transcriptions of ``arith_uint256::SetCompact`` / ``GetCompact``
(arith_uint256.cpp), ``CalculateNextWorkRequired`` / ``CheckProofOfWork`` (pow.cpp) and
``GetBlockProof`` (chain.cpp).  ``arith_uint256`` is an unsigned 256-bit integer whose
shifts, products and sums wrap: every such operation is followed by ``& M256`` here.
"""

from __future__ import annotations

M256 = (1 << 256) - 1

POW_TARGET_TIMESPAN = 14 * 24 * 60 * 60
# chainparams.cpp, consensus.powLimit as the uint256 Core holds (not a compact value)
MAINNET_POW_LIMIT = int("00000000ffffffffffffffffffffffffffffffffffffffffffffffffffffffff", 16)
REGTEST_POW_LIMIT = int("7fffffffffffffffffffffffffffffffffffffffffffffffffffffffffffffff", 16)
SIGNET_POW_LIMIT = int("00000377ae000000000000000000000000000000000000000000000000000000", 16)


def set_compact(n_compact: int) -> tuple[int, bool, bool]:
    """(value, fNegative, fOverflow).  The value is what the arith_uint256 holds afterwards
    (wrapped to 256 bits when the shift pushes bits out)."""
    n_size = n_compact >> 24
    n_word = n_compact & 0x007FFFFF
    if n_size <= 3:
        n_word >>= 8 * (3 - n_size)
        value = n_word
    else:
        value = (n_word << (8 * (n_size - 3))) & M256
    negative = n_word != 0 and (n_compact & 0x00800000) != 0
    overflow = n_word != 0 and ((n_size > 34) or (n_word > 0xFF and n_size > 33) or (n_word > 0xFFFF and n_size > 32))
    return value, negative, overflow


def bits_len(value: int) -> int:
    """base_uint::bits(): position of the highest set bit, plus one."""
    return value.bit_length()


def get_compact(value: int, negative: bool = False) -> int:
    assert 0 <= value <= M256
    n_size = (bits_len(value) + 7) // 8
    if n_size <= 3:
        n_compact = (value & 0xFFFFFFFFFFFFFFFF) << (8 * (3 - n_size))  # GetLow64() << ...
    else:
        n_compact = (value >> (8 * (n_size - 3))) & 0xFFFFFFFFFFFFFFFF  # bn.GetLow64()
    # the 0x00800000 bit denotes the sign: if it is already set, divide the mantissa by 256
    if n_compact & 0x00800000:
        n_compact >>= 8
        n_size += 1
    assert (n_compact & ~0x007FFFFF) == 0
    assert n_size < 256
    n_compact |= n_size << 24
    if negative and (n_compact & 0x007FFFFF):
        n_compact |= 0x00800000
    return n_compact & 0xFFFFFFFF


def sign_carry(value: int) -> bool:
    """Does GetCompact take its ``nCompact >>= 8; nSize++`` branch on this value?"""
    n_size = (value.bit_length() + 7) // 8
    c = value << (8 * (3 - n_size)) if n_size <= 3 else value >> (8 * (n_size - 3))
    return bool(c & 0x00800000)


def calculate_next_work_required(n_bits: int, first_block_time: int, last_block_time: int,
                                 pow_limit: int = MAINNET_POW_LIMIT,
                                 target_timespan: int = POW_TARGET_TIMESPAN) -> int:
    """pow.cpp CalculateNextWorkRequired (fPowNoRetargeting false, no BIP94)."""
    actual = last_block_time - first_block_time
    if actual < target_timespan // 4:
        actual = target_timespan // 4
    if actual > target_timespan * 4:
        actual = target_timespan * 4
    bn_new, _, _ = set_compact(n_bits)  # SetCompact without flags: the sign is dropped, overflow wraps
    bn_new = (bn_new * actual) & M256  # arith_uint256::operator*=(uint64_t) wraps
    bn_new //= target_timespan
    if bn_new > pow_limit:
        bn_new = pow_limit
    return get_compact(bn_new)


def get_block_proof(n_bits: int) -> int:
    """chain.cpp GetBlockProof: 0 for a negative, overflowing or zero target."""
    target, negative, overflow = set_compact(n_bits)
    if negative or overflow or target == 0:
        return 0
    return ((~target & M256) // (target + 1)) + 1


def check_proof_of_work(hash_as_int: int, n_bits: int, pow_limit: int) -> bool:
    """pow.cpp CheckProofOfWorkImpl."""
    target, negative, overflow = set_compact(n_bits)
    if negative or target == 0 or overflow or target > pow_limit:
        return False
    return hash_as_int <= target
