"""Independent transaction / block reader and writer (never imports btclib).

Written from the protocol documentation (Bitcoin developer reference "Raw
Transaction Format", BIP141 "Transaction ID" / "Transaction size calculations",
BIP144 "Serialization") in the plainest way: a cursor over bytes, one read per
field, every field recorded in a *field map* ``(offset, width, kind)`` that the
structure-aware mutators of C05 use.

Sizes and identifiers are computed *from bytes*, not from an object model:

    txid   = sha256d(version | vin | vout | locktime)           (BIP141)
    wtxid  = sha256d(whole BIP144 serialization)                (BIP141)
    weight = 3 * stripped_size + total_size                     (BIP141)
    vsize  = ceil(weight / 4)
"""

from __future__ import annotations

import hashlib
from dataclasses import dataclass, field


class RefError(ValueError):
    """The bytes are not an encoding the reference reader understands."""


def sha256d(b: bytes) -> bytes:
    return hashlib.sha256(hashlib.sha256(b).digest()).digest()


# ------------------------------------------------------------- CompactSize
def ser_compact_size(n: int) -> bytes:
    if n < 0:
        raise RefError("negative CompactSize")
    if n < 253:
        return bytes([n])
    if n <= 0xFFFF:
        return b"\xfd" + n.to_bytes(2, "little")
    if n <= 0xFFFFFFFF:
        return b"\xfe" + n.to_bytes(4, "little")
    if n <= 0xFFFFFFFFFFFFFFFF:
        return b"\xff" + n.to_bytes(8, "little")
    raise RefError("CompactSize above 2^64-1")


def ser_compact_size_width(n: int, width: int) -> bytes:
    """``n`` in an encoding of exactly ``width`` bytes (1, 3, 5, 9), minimal or not."""
    if width == 1:
        if n >= 253:
            raise RefError("does not fit")
        return bytes([n])
    lead, size = {3: (0xFD, 2), 5: (0xFE, 4), 9: (0xFF, 8)}[width]
    if n >= 1 << (8 * size):
        raise RefError("does not fit")
    return bytes([lead]) + n.to_bytes(size, "little")


def read_compact_size(b: bytes, pos: int) -> tuple[int, int, bool]:
    """-> (value, new position, encoding is minimal)."""
    if pos >= len(b):
        raise RefError("short read: CompactSize")
    lead = b[pos]
    if lead < 253:
        return lead, pos + 1, True
    size, floor = {253: (2, 253), 254: (4, 0x10000), 255: (8, 0x100000000)}[lead]
    if pos + 1 + size > len(b):
        raise RefError("short read: CompactSize body")
    v = int.from_bytes(b[pos + 1 : pos + 1 + size], "little")
    return v, pos + 1 + size, v >= floor


# ------------------------------------------------------------------ cursor
class Cursor:
    """Byte cursor that records a field map."""

    def __init__(self, b: bytes, pos: int = 0):
        self.b = b
        self.pos = pos
        self.fields: list[tuple[int, int, str]] = []
        self.minimal = True

    def take(self, n: int, kind: str) -> bytes:
        if n < 0 or self.pos + n > len(self.b):
            raise RefError(f"short read: {kind}")
        out = self.b[self.pos : self.pos + n]
        self.fields.append((self.pos, n, kind))
        self.pos += n
        return out

    def uint(self, n: int, kind: str, signed: bool = False, big: bool = False) -> int:
        return int.from_bytes(self.take(n, kind), "big" if big else "little", signed=signed)

    def compact(self, kind: str) -> int:
        v, new, minimal = read_compact_size(self.b, self.pos)
        self.fields.append((self.pos, new - self.pos, kind))
        self.pos = new
        self.minimal = self.minimal and minimal
        return v

    def var_bytes(self, kind: str) -> bytes:
        n = self.compact("len:" + kind)
        return self.take(n, kind)

    def peek(self, n: int) -> bytes:
        return self.b[self.pos : self.pos + n]

    def at_end(self) -> bool:
        return self.pos == len(self.b)


# ------------------------------------------------------------- transaction
@dataclass
class RTxIn:
    prev_hash: bytes          # as on the wire (internal byte order)
    prev_n: int
    script_sig: bytes
    sequence: int
    witness: list[bytes] = field(default_factory=list)


@dataclass
class RTxOut:
    value: int                # signed 64-bit as on the wire
    script: bytes


@dataclass
class RTx:
    version: int
    vin: list[RTxIn]
    vout: list[RTxOut]
    lock_time: int
    # filled by the reader
    has_marker: bool = False
    start: int = 0
    end: int = 0
    minimal: bool = True
    fields: list[tuple[int, int, str]] = field(default_factory=list)

    @property
    def has_witness(self) -> bool:
        return any(i.witness for i in self.vin)

    def ser(self, witness: bool = True) -> bytes:
        """BIP144: marker and flag are written exactly when some input has a witness."""
        seg = witness and self.has_witness
        out = [self.version.to_bytes(4, "little")]
        if seg:
            out.append(b"\x00\x01")
        out.append(ser_compact_size(len(self.vin)))
        for i in self.vin:
            out += [i.prev_hash, i.prev_n.to_bytes(4, "little"), ser_compact_size(len(i.script_sig)), i.script_sig,
                    i.sequence.to_bytes(4, "little")]
        out.append(ser_compact_size(len(self.vout)))
        for o in self.vout:
            out += [o.value.to_bytes(8, "little", signed=True), ser_compact_size(len(o.script)), o.script]
        if seg:
            for i in self.vin:
                out.append(ser_compact_size(len(i.witness)))
                for w in i.witness:
                    out += [ser_compact_size(len(w)), w]
        out.append(self.lock_time.to_bytes(4, "little"))
        return b"".join(out)

    # identifiers and sizes, all from bytes
    def txid(self) -> bytes:
        """Display order (reversed digest), as block explorers and RPC print it."""
        return sha256d(self.ser(False))[::-1]

    def wtxid(self) -> bytes:
        return sha256d(self.ser(True))[::-1]

    def total_size(self) -> int:
        return len(self.ser(True))

    def stripped_size(self) -> int:
        return len(self.ser(False))

    def weight(self) -> int:
        return 3 * self.stripped_size() + self.total_size()

    def vsize(self) -> int:
        return -(-self.weight() // 4)


def read_tx(b: bytes, pos: int = 0, cur: Cursor | None = None) -> RTx:
    """Read one transaction starting at ``pos`` (BIP144 aware); ``tx.end`` is where it stops.

    Lenient where the *format* is lenient (it reads non-minimal CompactSize and a
    witness record whose stacks are all empty, and reports them through ``minimal``
    and ``has_marker``/``has_witness``) so that mutants can be described; it is the
    caller that decides what a canonical encoding is.
    """
    c = cur if cur is not None else Cursor(b, pos)
    start = c.pos
    nfields = len(c.fields)
    version = c.uint(4, "tx.version")
    marker = c.peek(2)
    seg = marker == b"\x00\x01"
    if seg:
        c.take(1, "tx.marker")
        c.take(1, "tx.flag")
    n_in = c.compact("count:tx.vin")
    if n_in > len(b):  # every input takes at least 41 bytes
        raise RefError("input count beyond the data")
    vin = []
    for _ in range(n_in):
        h = c.take(32, "in.prev_hash")
        n = c.uint(4, "in.prev_n")
        ss = c.var_bytes("in.script_sig")
        seq = c.uint(4, "in.sequence")
        vin.append(RTxIn(h, n, ss, seq))
    n_out = c.compact("count:tx.vout")
    if n_out > len(b):
        raise RefError("output count beyond the data")
    vout = []
    for _ in range(n_out):
        v = c.uint(8, "out.value", signed=True)
        s = c.var_bytes("out.script")
        vout.append(RTxOut(v, s))
    if seg:
        for i in vin:
            k = c.compact("count:witness")
            if k > len(b):
                raise RefError("witness count beyond the data")
            i.witness = [c.var_bytes("witness.item") for _ in range(k)]
    lock = c.uint(4, "tx.lock_time")
    tx = RTx(version, vin, vout, lock, has_marker=seg, start=start, end=c.pos, minimal=c.minimal,
             fields=c.fields[nfields:])
    return tx


def is_canonical_tx(b: bytes) -> bool:
    """The whole of ``b`` is one transaction in the one encoding BIP144 allows for it."""
    try:
        tx = read_tx(b)
    except RefError:
        return False
    return tx.end == len(b) and tx.ser(True) == b


# -------------------------------------------------------------------- block
@dataclass
class RBlock:
    header: bytes
    txs: list[RTx]
    end: int
    minimal: bool
    fields: list[tuple[int, int, str]]

    def hash(self) -> bytes:
        return sha256d(self.header)[::-1]

    @property
    def merkle_root_field(self) -> bytes:
        """Header bytes 36..68, display order."""
        return self.header[36:68][::-1]

    def total_size(self) -> int:
        return 80 + len(ser_compact_size(len(self.txs))) + sum(t.total_size() for t in self.txs)

    def stripped_size(self) -> int:
        return 80 + len(ser_compact_size(len(self.txs))) + sum(t.stripped_size() for t in self.txs)

    def weight(self) -> int:
        return 3 * self.stripped_size() + self.total_size()

    def ser(self, witness: bool = True) -> bytes:
        return self.header + ser_compact_size(len(self.txs)) + b"".join(t.ser(witness) for t in self.txs)


HEADER_FIELDS = [(0, 4, "hdr.version"), (4, 32, "hdr.prev"), (36, 32, "hdr.merkle_root"), (68, 4, "hdr.time"),
                 (72, 4, "hdr.bits"), (76, 4, "hdr.nonce")]


def read_header(c: Cursor) -> bytes:
    start = c.pos
    for off, w, kind in HEADER_FIELDS:
        c.take(w, kind)
    return c.b[start : start + 80]


def read_block(b: bytes) -> RBlock:
    c = Cursor(b)
    header = read_header(c)
    n = c.compact("count:block.txs")
    if n > len(b):
        raise RefError("transaction count beyond the data")
    txs = [read_tx(b, cur=c) for _ in range(n)]
    return RBlock(header, txs, c.pos, c.minimal, c.fields)


def merkle_root(txids_display: list[bytes]) -> bytes:
    """Bitcoin's transaction merkle tree over txids (display order in, display order out)."""
    level = [t[::-1] for t in txids_display]
    if not level:
        return bytes(32)
    while len(level) > 1:
        if len(level) % 2:
            level.append(level[-1])
        level = [sha256d(level[i] + level[i + 1]) for i in range(0, len(level), 2)]
    return level[0][::-1]


def witness_commitment(block: RBlock) -> bytes | None:
    """BIP141: sha256d(witness root | witness reserved value); None when the coinbase carries no commitment."""
    cb = block.txs[0]
    found = None
    for o in cb.vout:
        if len(o.script) >= 38 and o.script[:6] == bytes.fromhex("6a24aa21a9ed"):
            found = o.script[6:38]
    if found is None or not cb.vin or len(cb.vin[0].witness) != 1:
        return None
    wtxids = [bytes(32)] + [t.wtxid() for t in block.txs[1:]]
    root = merkle_root(wtxids)[::-1]
    return found if sha256d(root + cb.vin[0].witness[0]) == found else b"mismatch"
