"""Reference BIP-0039 and Electrum seed phrases.  No btclib import.

BIP39 is written from the BIP (generation, checksum, "from mnemonic to seed").  The Electrum
scheme has no specification other than spesmilo/electrum's ``mnemonic.py`` / ``old_mnemonic.py``;
the functions below are those, formula by formula, with the word list passed in.
"""

from __future__ import annotations

import hashlib
import hmac
import string
import unicodedata

BIP39_ENT = (128, 160, 192, 224, 256)
BIP39_WORDS = (12, 15, 18, 21, 24)


class Reject(Exception):
    def __init__(self, rule: str, detail: str = ""):
        super().__init__(f"{rule}: {detail}" if detail else rule)
        self.rule = rule


def nfkd(s: str) -> str:
    return unicodedata.normalize("NFKD", s)


# ------------------------------------------------------------------ BIP39
def bip39_indexes(entropy: bytes) -> list[int]:
    """ENT bits || first ENT/32 bits of SHA256(ENT), in groups of 11 bits."""
    ent = 8 * len(entropy)
    if ent not in BIP39_ENT:
        raise Reject("entropy-length", str(ent))
    cs = ent // 32
    h = hashlib.sha256(entropy).digest()
    bits = "".join(f"{b:08b}" for b in entropy) + "".join(f"{b:08b}" for b in h)[:cs]
    return [int(bits[i: i + 11], 2) for i in range(0, ent + cs, 11)]


def bip39_words(entropy: bytes, wordlist) -> list[str]:
    return [wordlist[i] for i in bip39_indexes(entropy)]


def bip39_entropy_from_indexes(idx) -> bytes:
    if len(idx) not in BIP39_WORDS:
        raise Reject("length", f"{len(idx)} words")
    bits = "".join(f"{i:011b}" for i in idx)
    cs = len(bits) // 33
    ent = len(bits) - cs
    entropy = int(bits[:ent], 2).to_bytes(ent // 8, "big")
    if "".join(f"{b:08b}" for b in hashlib.sha256(entropy).digest())[:cs] != bits[ent:]:
        raise Reject("checksum")
    return entropy


def bip39_entropy(words, index_map) -> bytes:
    """Entropy of a sentence given as a list of (NFKD) words, or Reject."""
    idx = []
    for w in words:
        if w not in index_map:
            raise Reject("unknown-word", w)
        idx.append(index_map[w])
    return bip39_entropy_from_indexes(idx)


def bip39_seed(sentence: str, passphrase: str) -> bytes:
    """PBKDF2-HMAC-SHA512, password = sentence (UTF-8 NFKD), salt = "mnemonic" + passphrase (UTF-8 NFKD)."""
    return hashlib.pbkdf2_hmac("sha512", nfkd(sentence).encode("utf-8"), ("mnemonic" + nfkd(passphrase)).encode("utf-8"),
                               2048, 64)


# --------------------------------------------------------------- Electrum
# electrum/mnemonic.py: CJK_INTERVALS (http://www.asahi-net.or.jp/~ax2s-kmtn/ref/unicode/e_asia.html)
CJK_INTERVALS = [
    (0x4E00, 0x9FFF), (0x3400, 0x4DBF), (0x20000, 0x2A6DF), (0x2A700, 0x2B73F), (0x2B740, 0x2B81F), (0xF900, 0xFAFF),
    (0x2F800, 0x2FA1D), (0x3190, 0x319F), (0x2E80, 0x2EFF), (0x2F00, 0x2FDF), (0x31C0, 0x31EF), (0x2FF0, 0x2FFF),
    (0xE0100, 0xE01EF), (0x3100, 0x312F), (0x31A0, 0x31BF), (0xFF00, 0xFFEF), (0x3040, 0x309F), (0x30A0, 0x30FF),
    (0x31F0, 0x31FF), (0x1B000, 0x1B0FF), (0xAC00, 0xD7AF), (0x1100, 0x11FF), (0xA960, 0xA97F), (0xD7B0, 0xD7FF),
    (0x3130, 0x318F), (0xA4D0, 0xA4FF), (0x16F00, 0x16F9F), (0xA000, 0xA48F), (0xA490, 0xA4CF),
]

PREFIX = {"standard": "01", "segwit": "100", "2fa": "101", "2fa_segwit": "102"}


def is_cjk(c: str) -> bool:
    n = ord(c)
    for lo, hi in CJK_INTERVALS:
        if lo <= n <= hi:
            return True
    return False


def normalize_text(seed: str) -> str:
    seed = unicodedata.normalize("NFKD", seed)
    seed = seed.lower()
    seed = "".join([c for c in seed if not unicodedata.combining(c)])
    seed = " ".join(seed.split())
    seed = "".join([seed[i] for i in range(len(seed))
                    if not (seed[i] in string.whitespace and is_cjk(seed[i - 1]) and is_cjk(seed[i + 1]))])
    return seed


def seed_version_hex(seed: str) -> str:
    return hmac.new(b"Seed version", normalize_text(seed).encode("utf8"), hashlib.sha512).hexdigest()


def is_new_seed(seed: str, prefix: str) -> bool:
    return seed_version_hex(seed).startswith(prefix)


def old_mn_encode(message: str, old_words) -> list[str]:
    n = len(old_words)
    if len(message) % 8 != 0:
        raise Reject("old-hex-length")
    out = []
    for i in range(len(message) // 8):
        x = int(message[8 * i: 8 * i + 8], 16)
        w1 = x % n
        w2 = ((x // n) + w1) % n
        w3 = ((x // n // n) + w2) % n
        out += [old_words[w1], old_words[w2], old_words[w3]]
    return out


def old_mn_decode(wlist, old_index) -> str:
    n = len(old_index)
    out = ""
    for i in range(len(wlist) // 3):
        word1, word2, word3 = wlist[3 * i: 3 * i + 3]
        w1 = old_index[word1]  # KeyError for a word off the list
        w2 = old_index[word2] % n
        w3 = old_index[word3] % n
        x = w1 + n * ((w2 - w1) % n) + n * n * ((w3 - w2) % n)
        out += "%08x" % x
    return out


def is_old_seed(seed: str, old_index) -> bool:
    seed = normalize_text(seed)
    words = seed.split()
    try:
        old_mn_decode(words, old_index)
        uses_electrum_words = True
    except KeyError:
        uses_electrum_words = False
    try:
        raw = bytes.fromhex(seed)
        is_hex = len(raw) == 16 or len(raw) == 32
    except ValueError:
        is_hex = False
    return is_hex or (uses_electrum_words and (len(words) == 12 or len(words) == 24))


def seed_type(x: str, old_index) -> str:
    """electrum.mnemonic.calc_seed_type"""
    num_words = len(x.split())
    if is_old_seed(x, old_index):
        return "old"
    if is_new_seed(x, PREFIX["standard"]):
        return "standard"
    if is_new_seed(x, PREFIX["segwit"]):
        return "segwit"
    if is_new_seed(x, PREFIX["2fa"]) and (num_words == 12 or num_words >= 20):
        return "2fa"
    if is_new_seed(x, PREFIX["2fa_segwit"]):
        return "2fa_segwit"
    return ""


def electrum_encode(i: int, wordlist) -> str:
    n = len(wordlist)
    words = []
    while i:
        x = i % n
        i = i // n
        words.append(wordlist[x])
    return " ".join(words)


def electrum_decode(seed: str, index_map) -> int:
    n = len(index_map)
    words = seed.split()
    i = 0
    while words:
        w = words.pop()
        k = index_map[w]
        i = i * n + k
    return i


def electrum_bip39_is_checksum_valid(mnemonic: str, index_map) -> tuple[bool, bool]:
    """electrum.keystore.bip39_is_checksum_valid -> (is_checksum_valid, is_wordlist_valid)."""
    words = [unicodedata.normalize("NFKD", word) for word in mnemonic.split()]
    words_len = len(words)
    n = len(index_map)
    i = 0
    for w in words:
        if w not in index_map:
            return False, False
        i = i * n + index_map[w]
    if words_len not in [12, 15, 18, 21, 24]:
        return False, True
    checksum_length = 11 * words_len // 33
    entropy_length = 32 * checksum_length
    entropy = i >> checksum_length
    checksum = i % 2 ** checksum_length
    entropy_bytes = int.to_bytes(entropy, length=entropy_length // 8, byteorder="big")
    hashed = int.from_bytes(hashlib.sha256(entropy_bytes).digest(), byteorder="big")
    calculated_checksum = hashed >> (256 - checksum_length)
    return checksum == calculated_checksum, True


def electrum_make_seed(entropy: int, prefix: str, wordlist, index_map, old_index, max_tries: int = 400000):
    """The search of Mnemonic.make_seed from a given starting entropy -> (sentence, nonce)."""
    nonce = 0
    while nonce < max_tries:
        nonce += 1
        i = entropy + nonce
        seed = electrum_encode(i, wordlist)
        if i != electrum_decode(seed, index_map):
            raise Reject("cannot extract same entropy from mnemonic")
        if is_old_seed(seed, old_index):
            continue
        if electrum_bip39_is_checksum_valid(seed, index_map) == (True, True):
            continue
        if is_new_seed(seed, prefix):
            return seed, nonce
    raise Reject("search-exhausted")


def electrum_seed(mnemonic: str, passphrase: str) -> bytes:
    """Mnemonic.mnemonic_to_seed"""
    return hashlib.pbkdf2_hmac("sha512", normalize_text(mnemonic).encode("utf-8"),
                               b"electrum" + normalize_text(passphrase or "").encode("utf-8"), 2048, 64)


def old_stretch(hex_seed: str) -> int:
    """Old_KeyStore.stretch_key: 100000 rounds of sha256(x + seed) over the hex *characters*."""
    seed = hex_seed.encode("ascii")
    x = seed
    for _ in range(100000):
        x = hashlib.sha256(x + seed).digest()
    return int.from_bytes(x, "big")
