"""Reference for the strict DER encoding of an ECDSA signature (no btclib import).

``is_valid_signature_encoding`` is BIP 66's function of the same name, line by
line; like the original it takes the signature *with* its one-byte hash type
appended.  ``is_canonical`` asks it about a bare DER string by appending a hash
type byte.  ``encode`` is X.690 DER for SEQUENCE { INTEGER r, INTEGER s } with
definite lengths (short form below 128, long form above), ``decode`` reads a
string that ``is_canonical`` accepted.
"""

from __future__ import annotations


def is_valid_signature_encoding(sig: bytes) -> bool:
    # Format: 0x30 [total-length] 0x02 [R-length] [R] 0x02 [S-length] [S] [sighash]
    # Minimum and maximum size constraints.
    if len(sig) < 9:
        return False
    if len(sig) > 73:
        return False
    # A signature is of type 0x30 (compound).
    if sig[0] != 0x30:
        return False
    # Make sure the length covers the entire signature.
    if sig[1] != len(sig) - 3:
        return False
    # Extract the length of the R element.
    lenR = sig[3]
    # Make sure the length of the S element is still inside the signature.
    if 5 + lenR >= len(sig):
        return False
    # Extract the length of the S element.
    lenS = sig[5 + lenR]
    # Verify that the length of the signature matches the sum of the length of the elements.
    if lenR + lenS + 7 != len(sig):
        return False
    # Check whether the R element is an integer.
    if sig[2] != 0x02:
        return False
    # Zero-length integers are not allowed for R.
    if lenR == 0:
        return False
    # Negative numbers are not allowed for R.
    if sig[4] & 0x80:
        return False
    # Null bytes at the start of R are not allowed, unless R would otherwise be interpreted as negative.
    if lenR > 1 and sig[4] == 0x00 and not (sig[5] & 0x80):
        return False
    # Check whether the S element is an integer.
    if sig[lenR + 4] != 0x02:
        return False
    # Zero-length integers are not allowed for S.
    if lenS == 0:
        return False
    # Negative numbers are not allowed for S.
    if sig[lenR + 6] & 0x80:
        return False
    # Null bytes at the start of S are not allowed, unless S would otherwise be interpreted as negative.
    if lenS > 1 and sig[lenR + 6] == 0x00 and not (sig[lenR + 7] & 0x80):
        return False
    return True


def is_canonical(der: bytes) -> bool:
    """BIP 66's verdict on a DER string that carries no hash type byte."""
    return is_valid_signature_encoding(bytes(der) + b"\x01")


def decode(der: bytes) -> tuple[int, int]:
    """(r, s) of a string for which ``is_canonical`` is true."""
    assert is_canonical(der)
    lenR = der[3]
    r = int.from_bytes(der[4 : 4 + lenR], "big")
    lenS = der[5 + lenR]
    s = int.from_bytes(der[6 + lenR : 6 + lenR + lenS], "big")
    return r, s


def _length(n: int) -> bytes:
    if n < 0x80:
        return bytes([n])
    b = n.to_bytes((n.bit_length() + 7) // 8, "big")
    return bytes([0x80 | len(b)]) + b


def encode_int(v: int) -> bytes:
    """DER INTEGER of a non-negative value: minimal two's complement, so one 0x00 in
    front exactly when the leading bit of the magnitude is set."""
    assert v >= 0
    body = v.to_bytes(max(1, (v.bit_length() + 7) // 8), "big")
    if body[0] & 0x80:
        body = b"\x00" + body
    return b"\x02" + _length(len(body)) + body


def encode(r: int, s: int) -> bytes:
    body = encode_int(r) + encode_int(s)
    return b"\x30" + _length(len(body)) + body
