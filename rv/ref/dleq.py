"""Reference BIP374 (discrete-log equality proofs).  Never imports btclib.

A transcription of the reference published with BIP374 (``dleq_challenge``,
``dleq_generate_proof``, ``dleq_verify_proof``) over ``rv.ref.ec``; infinity is ``None``.
"""

from __future__ import annotations

import csv

from . import ec as rec
from .bip340 import tagged_hash

EC = rec.SECP256K1
p, n = EC.p, EC.n


def cbytes(P) -> bytes:
    return bytes([2 + (P[1] & 1)]) + P[0].to_bytes(32, "big")


def cpoint(b: bytes):
    if len(b) != 33 or b[0] not in (2, 3):
        return None
    return EC.lift_x(int.from_bytes(b[1:], "big"), b[0] & 1)


def challenge(A, B, C, R1, R2, m, G) -> int:
    if m is not None:
        assert len(m) == 32
    m = bytes([]) if m is None else m
    return int.from_bytes(tagged_hash("BIP0374/challenge",
                                      cbytes(A) + cbytes(B) + cbytes(C) + cbytes(G) + cbytes(R1) + cbytes(R2) + m), "big")


def generate_proof(a: int, B, r: bytes, G=EC.G, m=None):
    """64-byte proof or None (a out of range, B at infinity)."""
    assert len(r) == 32
    if not 0 < a < n or B is None:
        return None
    A = EC.mul_nored(a, G)
    C = EC.mul_nored(a, B)
    t = bytes(x ^ y for x, y in zip(a.to_bytes(32, "big"), tagged_hash("BIP0374/aux", r)))
    m_prime = bytes([]) if m is None else m
    rand = tagged_hash("BIP0374/nonce", t + cbytes(A) + cbytes(C) + m_prime)
    k = int.from_bytes(rand, "big") % n
    if k == 0:
        return None
    R1 = EC.mul_nored(k, G)
    R2 = EC.mul_nored(k, B)
    e = challenge(A, B, C, R1, R2, m, G)
    s = (k + e * a) % n
    proof = e.to_bytes(32, "big") + s.to_bytes(32, "big")
    if not verify_proof(A, B, C, proof, G, m):
        return None
    return proof


def verify_proof(A, B, C, proof: bytes, G=EC.G, m=None) -> bool:
    if A is None or B is None or C is None or len(proof) != 64:
        return False
    e = int.from_bytes(proof[:32], "big")
    s = int.from_bytes(proof[32:], "big")
    if s >= n:
        return False
    R1 = EC.add(EC.mul_nored(s, G), EC.neg(EC.mul_nored(e % n, A)))
    if R1 is None:
        return False
    R2 = EC.add(EC.mul_nored(s, B), EC.neg(EC.mul_nored(e % n, C)))
    if R2 is None:
        return False
    return e == challenge(A, B, C, R1, R2, m, G)


def selftest(gen_csv: str, ver_csv: str) -> tuple[int, list[str]]:
    bad: list[str] = []
    cnt = 0

    def pt(s):
        return None if s == "INFINITY" else cpoint(bytes.fromhex(s))

    with open(gen_csv, newline="") as f:
        for row in list(csv.DictReader(f)):
            cnt += 1
            m = bytes.fromhex(row["message"]) if row["message"] else None
            got = generate_proof(int(row["scalar_a"], 16), pt(row["point_B"]), bytes.fromhex(row["auxrand_r"]), pt(row["point_G"]), m)
            want = None if row["result_proof"] == "INVALID" else bytes.fromhex(row["result_proof"])
            if got != want:
                bad.append(f"generate_proof {row['index']}")
    with open(ver_csv, newline="") as f:
        for row in list(csv.DictReader(f)):
            cnt += 1
            m = bytes.fromhex(row["message"]) if row["message"] else None
            got = verify_proof(pt(row["point_A"]), pt(row["point_B"]), pt(row["point_C"]), bytes.fromhex(row["proof"]), pt(row["point_G"]), m)
            if got != (row["result_success"] == "TRUE"):
                bad.append(f"verify_proof {row['index']}")
    return cnt, bad
