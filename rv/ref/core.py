"""Prototype transcription of Bitcoin Core's script interpreter (no btclib import)."""
from __future__ import annotations

import hashlib
import struct
from dataclasses import dataclass, field

# ---------------------------------------------------------------- secp256k1
P = 0xFFFFFFFFFFFFFFFFFFFFFFFFFFFFFFFFFFFFFFFFFFFFFFFFFFFFFFFEFFFFFC2F
N = 0xFFFFFFFFFFFFFFFFFFFFFFFFFFFFFFFEBAAEDCE6AF48A03BBFD25E8CD0364141
G = (
    0x79BE667EF9DCBBAC55A06295CE870B07029BFCDB2DCE28D959F2815B16F81798,
    0x483ADA7726A3C4655DA4FBFC0E1108A8FD17B448A68554199C47D08FFB10D4B8,
)


def ec_add(A, B):
    if A is None:
        return B
    if B is None:
        return A
    if A[0] == B[0]:
        if (A[1] + B[1]) % P == 0:
            return None
        lam = 3 * A[0] * A[0] * pow(2 * A[1], -1, P) % P
    else:
        lam = (B[1] - A[1]) * pow(B[0] - A[0], -1, P) % P
    x = (lam * lam - A[0] - B[0]) % P
    return x, (lam * (A[0] - x) - A[1]) % P


def ec_mul(k, A):
    k %= N
    R = None
    while k:
        if k & 1:
            R = ec_add(R, A)
        A = ec_add(A, A)
        k >>= 1
    return R


def lift_x(x):
    if not 0 <= x < P:
        return None
    y2 = (pow(x, 3, P) + 7) % P
    y = pow(y2, (P + 1) // 4, P)
    if y * y % P != y2:
        return None
    return x, y if y % 2 == 0 else P - y


def parse_pubkey(b: bytes):
    """secp256k1_ec_pubkey_parse: compressed, uncompressed, hybrid."""
    if len(b) == 33 and b[0] in (2, 3):
        pt = lift_x(int.from_bytes(b[1:], "big"))
        if pt is None:
            return None
        return pt if (pt[1] & 1) == (b[0] & 1) else (pt[0], P - pt[1])
    if len(b) == 65 and b[0] in (4, 6, 7):
        x = int.from_bytes(b[1:33], "big")
        y = int.from_bytes(b[33:], "big")
        if x >= P or y >= P:
            return None
        if (y * y - x * x * x - 7) % P:
            return None
        if b[0] in (6, 7) and (y & 1) != (b[0] & 1):
            return None
        return x, y
    return None


def parse_der_lax(sig: bytes):
    """ecdsa_signature_parse_der_lax from Core's pubkey.cpp; returns (r, s) or None."""
    pos = 0
    n = len(sig)
    if pos == n or sig[pos] != 0x30:
        return None
    pos += 1
    if pos == n:
        return None
    lenbyte = sig[pos]
    pos += 1
    if lenbyte & 0x80:
        lenbyte -= 0x80
        if lenbyte > n - pos:
            return None
        pos += lenbyte
    out = []
    for _ in range(2):
        if pos == n or sig[pos] != 0x02:
            return None
        pos += 1
        if pos == n:
            return None
        lenbyte = sig[pos]
        pos += 1
        if lenbyte & 0x80:
            lenbyte -= 0x80
            if lenbyte > n - pos:
                return None
            while lenbyte > 0 and sig[pos] == 0:
                pos += 1
                lenbyte -= 1
            if lenbyte >= 8:  # sizeof(size_t)
                return None
            ilen = 0
            while lenbyte > 0:
                ilen = (ilen << 8) + sig[pos]
                pos += 1
                lenbyte -= 1
        else:
            ilen = lenbyte
        if ilen > n - pos:
            return None
        ipos = pos
        pos += ilen
        # ignore leading zeroes
        while ilen > 0 and sig[ipos] == 0:
            ilen -= 1
            ipos += 1
        if ilen > 32:
            out.append(None)  # overflow
        else:
            out.append(int.from_bytes(sig[ipos : ipos + ilen], "big"))
    r, s = out
    if r is None or s is None or r >= N or s >= N:
        # overflow: Core zeroes the signature, which then fails verification
        return (0, 0)
    return r, s


def ecdsa_verify(sig_der: bytes, pubkey: bytes, msg32: bytes) -> bool:
    Q = parse_pubkey(pubkey)
    if Q is None:
        return False
    rs = parse_der_lax(sig_der)
    if rs is None:
        return False
    r, s = rs
    if s > N // 2:
        s = N - s  # normalize
    if not (0 < r < N and 0 < s < N):
        return False
    z = int.from_bytes(msg32, "big")
    w = pow(s, -1, N)
    R = ec_add(ec_mul(z * w % N, G), ec_mul(r * w % N, Q))
    return R is not None and R[0] % N == r


def tagged_hash(tag: bytes, msg: bytes) -> bytes:
    t = hashlib.sha256(tag).digest()
    return hashlib.sha256(t + t + msg).digest()


def schnorr_verify(msg: bytes, pubkey32: bytes, sig64: bytes) -> bool:
    Pt = lift_x(int.from_bytes(pubkey32, "big"))
    if Pt is None:
        return False
    r = int.from_bytes(sig64[:32], "big")
    s = int.from_bytes(sig64[32:], "big")
    if r >= P or s >= N:
        return False
    e = int.from_bytes(tagged_hash(b"BIP0340/challenge", sig64[:32] + pubkey32 + msg), "big") % N
    R = ec_add(ec_mul(s, G), ec_mul(N - e, Pt))
    return R is not None and R[1] % 2 == 0 and R[0] == r


# ---------------------------------------------------------------- tx
def sha256(b):
    return hashlib.sha256(b).digest()


def hash256(b):
    return sha256(sha256(b))


def ripemd160(b):
    return hashlib.new("ripemd160", b).digest()


def ser_compact(n):
    if n < 253:
        return bytes([n])
    if n <= 0xFFFF:
        return b"\xfd" + struct.pack("<H", n)
    if n <= 0xFFFFFFFF:
        return b"\xfe" + struct.pack("<I", n)
    return b"\xff" + struct.pack("<Q", n)


def ser_string(b):
    return ser_compact(len(b)) + b


@dataclass
class TxIn:
    prev_hash: bytes  # internal byte order
    prev_n: int
    script_sig: bytes
    sequence: int
    witness: list = field(default_factory=list)


@dataclass
class TxOut:
    value: int
    spk: bytes

    def ser(self):
        return struct.pack("<q", self.value) + ser_string(self.spk)


@dataclass
class Tx:
    version: int
    vin: list
    vout: list
    lock_time: int

    def ser(self, witness=False):
        r = struct.pack("<I", self.version & 0xFFFFFFFF)
        has_w = witness and any(i.witness for i in self.vin)
        if has_w:
            r += b"\x00\x01"
        r += ser_compact(len(self.vin))
        for i in self.vin:
            r += i.prev_hash + struct.pack("<I", i.prev_n) + ser_string(i.script_sig) + struct.pack("<I", i.sequence)
        r += ser_compact(len(self.vout))
        for o in self.vout:
            r += o.ser()
        if has_w:
            for i in self.vin:
                r += ser_compact(len(i.witness)) + b"".join(ser_string(w) for w in i.witness)
        return r + struct.pack("<I", self.lock_time)

    def txid(self):
        return hash256(self.ser(False))


class Reader:
    def __init__(self, b):
        self.b = b
        self.p = 0

    def read(self, n):
        if self.p + n > len(self.b):
            raise ValueError("eof")
        r = self.b[self.p : self.p + n]
        self.p += n
        return r

    def compact(self):
        c = self.read(1)[0]
        if c < 253:
            return c
        if c == 253:
            return struct.unpack("<H", self.read(2))[0]
        if c == 254:
            return struct.unpack("<I", self.read(4))[0]
        return struct.unpack("<Q", self.read(8))[0]

    def string(self):
        return self.read(self.compact())


def parse_tx(b: bytes) -> Tx:
    r = Reader(b)
    version = struct.unpack("<I", r.read(4))[0]
    n = r.compact()
    flags = 0
    if n == 0:
        flags = r.read(1)[0]
        if flags != 0:
            n = r.compact()
    vin = []
    for _ in range(n):
        h = r.read(32)
        idx = struct.unpack("<I", r.read(4))[0]
        ss = r.string()
        seq = struct.unpack("<I", r.read(4))[0]
        vin.append(TxIn(h, idx, ss, seq))
    vout = []
    for _ in range(r.compact()):
        v = struct.unpack("<q", r.read(8))[0]
        vout.append(TxOut(v, r.string()))
    if flags & 1:
        for i in vin:
            i.witness = [r.string() for _ in range(r.compact())]
    lock = struct.unpack("<I", r.read(4))[0]
    return Tx(version, vin, vout, lock)


# ---------------------------------------------------------------- script
OP_0, OP_PUSHDATA1, OP_PUSHDATA2, OP_PUSHDATA4, OP_1NEGATE, OP_RESERVED, OP_1, OP_16 = 0, 76, 77, 78, 79, 80, 81, 96
OP_NOP, OP_VER, OP_IF, OP_NOTIF, OP_VERIF, OP_VERNOTIF, OP_ELSE, OP_ENDIF, OP_VERIFY, OP_RETURN = range(97, 107)
OP_TOALTSTACK, OP_FROMALTSTACK, OP_2DROP, OP_2DUP, OP_3DUP, OP_2OVER, OP_2ROT, OP_2SWAP, OP_IFDUP, OP_DEPTH = range(107, 117)
OP_DROP, OP_DUP, OP_NIP, OP_OVER, OP_PICK, OP_ROLL, OP_ROT, OP_SWAP, OP_TUCK = range(117, 126)
OP_CAT, OP_SUBSTR, OP_LEFT, OP_RIGHT, OP_SIZE, OP_INVERT, OP_AND, OP_OR, OP_XOR, OP_EQUAL, OP_EQUALVERIFY = range(126, 137)
OP_RESERVED1, OP_RESERVED2, OP_1ADD, OP_1SUB, OP_2MUL, OP_2DIV, OP_NEGATE, OP_ABS, OP_NOT, OP_0NOTEQUAL = range(137, 147)
OP_ADD, OP_SUB, OP_MUL, OP_DIV, OP_MOD, OP_LSHIFT, OP_RSHIFT, OP_BOOLAND, OP_BOOLOR = range(147, 156)
OP_NUMEQUAL, OP_NUMEQUALVERIFY, OP_NUMNOTEQUAL, OP_LESSTHAN, OP_GREATERTHAN, OP_LESSTHANOREQUAL = range(156, 162)
OP_GREATERTHANOREQUAL, OP_MIN, OP_MAX, OP_WITHIN = range(162, 166)
OP_RIPEMD160, OP_SHA1, OP_SHA256, OP_HASH160, OP_HASH256, OP_CODESEPARATOR = range(166, 172)
OP_CHECKSIG, OP_CHECKSIGVERIFY, OP_CHECKMULTISIG, OP_CHECKMULTISIGVERIFY = range(172, 176)
OP_NOP1, OP_CHECKLOCKTIMEVERIFY, OP_CHECKSEQUENCEVERIFY = 176, 177, 178
OP_NOP4, OP_NOP10 = 179, 185
OP_CHECKSIGADD = 186

DISABLED = {OP_CAT, OP_SUBSTR, OP_LEFT, OP_RIGHT, OP_INVERT, OP_AND, OP_OR, OP_XOR, OP_2MUL, OP_2DIV, OP_MUL, OP_DIV, OP_MOD, OP_LSHIFT, OP_RSHIFT}

FLAG_NAMES = [
    "P2SH", "STRICTENC", "DERSIG", "LOW_S", "NULLDUMMY", "SIGPUSHONLY", "MINIMALDATA",
    "DISCOURAGE_UPGRADABLE_NOPS", "CLEANSTACK", "CHECKLOCKTIMEVERIFY", "CHECKSEQUENCEVERIFY",
    "WITNESS", "DISCOURAGE_UPGRADABLE_WITNESS_PROGRAM", "MINIMALIF", "NULLFAIL",
    "WITNESS_PUBKEYTYPE", "CONST_SCRIPTCODE", "TAPROOT", "DISCOURAGE_UPGRADABLE_PUBKEYTYPE",
    "DISCOURAGE_OP_SUCCESS", "DISCOURAGE_UPGRADABLE_TAPROOT_VERSION",
]
F = {name: 1 << i for i, name in enumerate(FLAG_NAMES)}
ALL_FLAGS = (1 << len(FLAG_NAMES)) - 1

MAX_SCRIPT_ELEMENT_SIZE = 520
MAX_OPS_PER_SCRIPT = 201
MAX_PUBKEYS_PER_MULTISIG = 20
MAX_SCRIPT_SIZE = 10000
MAX_STACK_SIZE = 1000
LOCKTIME_THRESHOLD = 500000000
SEQ_FINAL = 0xFFFFFFFF
SEQ_DISABLE = 1 << 31
SEQ_TYPE = 1 << 22
SEQ_MASK = 0xFFFF
BASE, WITNESS_V0, TAPROOT, TAPSCRIPT = 0, 1, 2, 3
SIGHASH_DEFAULT, SIGHASH_ALL, SIGHASH_NONE, SIGHASH_SINGLE, SIGHASH_ACP = 0, 1, 2, 3, 0x80


class ScriptErr(Exception):
    def __init__(self, code):
        super().__init__(code)
        self.code = code


def get_op(script: bytes, pc: int):
    """Return (opcode, data, next_pc), or None when the script cannot be read."""
    if pc >= len(script):
        return None
    opcode = script[pc]
    pc += 1
    data = b""
    if opcode <= OP_PUSHDATA4:
        if opcode < OP_PUSHDATA1:
            n = opcode
        elif opcode == OP_PUSHDATA1:
            if len(script) - pc < 1:
                return None
            n = script[pc]
            pc += 1
        elif opcode == OP_PUSHDATA2:
            if len(script) - pc < 2:
                return None
            n = int.from_bytes(script[pc : pc + 2], "little")
            pc += 2
        else:
            if len(script) - pc < 4:
                return None
            n = int.from_bytes(script[pc : pc + 4], "little")
            pc += 4
        if len(script) - pc < n:
            return None
        data = script[pc : pc + n]
        pc += n
    return opcode, data, pc


def push_data(data: bytes) -> bytes:
    n = len(data)
    if n < OP_PUSHDATA1:
        return bytes([n]) + data
    if n <= 0xFF:
        return bytes([OP_PUSHDATA1, n]) + data
    if n <= 0xFFFF:
        return bytes([OP_PUSHDATA2]) + struct.pack("<H", n) + data
    return bytes([OP_PUSHDATA4]) + struct.pack("<I", n) + data


def num_encode(v: int) -> bytes:
    if v == 0:
        return b""
    neg = v < 0
    a = abs(v)
    out = bytearray()
    while a:
        out.append(a & 0xFF)
        a >>= 8
    if out[-1] & 0x80:
        out.append(0x80 if neg else 0)
    elif neg:
        out[-1] |= 0x80
    return bytes(out)


def num_decode(vch: bytes, minimal: bool, max_size: int = 4) -> int:
    if len(vch) > max_size:
        raise ScriptErr("SCRIPTNUM")
    if minimal and len(vch) > 0:
        if (vch[-1] & 0x7F) == 0:
            if len(vch) <= 1 or (vch[-2] & 0x80) == 0:
                raise ScriptErr("SCRIPTNUM")
    if not vch:
        return 0
    v = int.from_bytes(vch, "little")
    if vch[-1] & 0x80:
        return -(v & ~(0x80 << (8 * (len(vch) - 1))))
    return v


def cast_to_bool(vch: bytes) -> bool:
    for i, c in enumerate(vch):
        if c != 0:
            return not (i == len(vch) - 1 and c == 0x80)
    return False


def check_minimal_push(data: bytes, opcode: int) -> bool:
    if len(data) == 0:
        return opcode == OP_0
    if len(data) == 1 and 1 <= data[0] <= 16:
        return False
    if len(data) == 1 and data[0] == 0x81:
        return False
    if len(data) <= 75:
        return opcode == len(data)
    if len(data) <= 255:
        return opcode == OP_PUSHDATA1
    if len(data) <= 65535:
        return opcode == OP_PUSHDATA2
    return True


def is_valid_sig_encoding(sig: bytes) -> bool:
    if len(sig) < 9 or len(sig) > 73:
        return False
    if sig[0] != 0x30:
        return False
    if sig[1] != len(sig) - 3:
        return False
    len_r = sig[3]
    if 5 + len_r >= len(sig):
        return False
    len_s = sig[5 + len_r]
    if len_r + len_s + 7 != len(sig):
        return False
    if sig[2] != 0x02:
        return False
    if len_r == 0:
        return False
    if sig[4] & 0x80:
        return False
    if len_r > 1 and sig[4] == 0 and not (sig[5] & 0x80):
        return False
    if sig[len_r + 4] != 0x02:
        return False
    if len_s == 0:
        return False
    if sig[len_r + 6] & 0x80:
        return False
    if len_s > 1 and sig[len_r + 6] == 0 and not (sig[len_r + 7] & 0x80):
        return False
    return True


def is_low_der(sig: bytes) -> bool:
    if not is_valid_sig_encoding(sig):
        raise ScriptErr("SIG_DER")
    rs = parse_der_lax(sig[:-1])
    # CPubKey::CheckLowS: parse lax, then not normalizable
    if rs is None:
        return False
    return rs[1] <= N // 2


def is_defined_hashtype(sig: bytes) -> bool:
    if not sig:
        return False
    ht = sig[-1] & ~SIGHASH_ACP
    return SIGHASH_ALL <= ht <= SIGHASH_SINGLE


def check_sig_encoding(sig: bytes, flags: int) -> None:
    if len(sig) == 0:
        return
    if flags & (F["DERSIG"] | F["LOW_S"] | F["STRICTENC"]) and not is_valid_sig_encoding(sig):
        raise ScriptErr("SIG_DER")
    if flags & F["LOW_S"] and not is_low_der(sig):
        raise ScriptErr("SIG_HIGH_S")
    if flags & F["STRICTENC"] and not is_defined_hashtype(sig):
        raise ScriptErr("SIG_HASHTYPE")


def is_comp_or_uncomp(pk: bytes) -> bool:
    if len(pk) < 33:
        return False
    if pk[0] == 4:
        return len(pk) == 65
    if pk[0] in (2, 3):
        return len(pk) == 33
    return False


def check_pubkey_encoding(pk: bytes, flags: int, sigversion: int) -> None:
    if flags & F["STRICTENC"] and not is_comp_or_uncomp(pk):
        raise ScriptErr("PUBKEYTYPE")
    if flags & F["WITNESS_PUBKEYTYPE"] and sigversion == WITNESS_V0 and not (len(pk) == 33 and pk[0] in (2, 3)):
        raise ScriptErr("WITNESS_PUBKEYTYPE")


def find_and_delete(script: bytes, b: bytes):
    n_found = 0
    if not b:
        return script, 0
    result = bytearray()
    pc = pc2 = 0
    end = len(script)
    while True:
        result += script[pc2:pc]
        while end - pc >= len(b) and script[pc : pc + len(b)] == b:
            pc += len(b)
            n_found += 1
        pc2 = pc
        op = get_op(script, pc)
        if op is None:
            break
        pc = op[2]
    if n_found > 0:
        result += script[pc2:end]
        return bytes(result), n_found
    return script, 0


# ---------------------------------------------------------------- sighash
def legacy_sighash(script_code: bytes, tx: Tx, n_in: int, hash_type: int) -> bytes:
    if (hash_type & 0x1F) == SIGHASH_SINGLE and n_in >= len(tx.vout):
        return (1).to_bytes(32, "little")
    acp = bool(hash_type & SIGHASH_ACP)
    single = (hash_type & 0x1F) == SIGHASH_SINGLE
    none = (hash_type & 0x1F) == SIGHASH_NONE
    # script code without OP_CODESEPARATOR
    pieces = bytearray()
    pc = begin = 0
    while True:
        op = get_op(script_code, pc)
        if op is None:
            break
        opcode, _, nxt = op
        if opcode == OP_CODESEPARATOR:
            pieces += script_code[begin : nxt - 1]
            begin = nxt
        pc = nxt
    if begin != len(script_code):
        pieces += script_code[begin:]
    r = struct.pack("<I", tx.version & 0xFFFFFFFF)
    inputs = [n_in] if acp else range(len(tx.vin))
    r += ser_compact(len(inputs))
    for i in inputs:
        ti = tx.vin[i]
        r += ti.prev_hash + struct.pack("<I", ti.prev_n)
        r += ser_string(bytes(pieces)) if i == n_in else ser_compact(0)
        if i != n_in and (single or none):
            r += struct.pack("<I", 0)
        else:
            r += struct.pack("<I", ti.sequence)
    n_out = 0 if none else (n_in + 1 if single else len(tx.vout))
    r += ser_compact(n_out)
    for o in range(n_out):
        if single and o != n_in:
            r += struct.pack("<q", -1) + ser_compact(0)
        else:
            r += tx.vout[o].ser()
    r += struct.pack("<I", tx.lock_time)
    r += struct.pack("<I", hash_type & 0xFFFFFFFF)
    return hash256(r)


def segwit_sighash(script_code: bytes, tx: Tx, n_in: int, hash_type: int, amount: int) -> bytes:
    hp = hs = ho = bytes(32)
    if not hash_type & SIGHASH_ACP:
        hp = hash256(b"".join(i.prev_hash + struct.pack("<I", i.prev_n) for i in tx.vin))
    if not hash_type & SIGHASH_ACP and (hash_type & 0x1F) not in (SIGHASH_SINGLE, SIGHASH_NONE):
        hs = hash256(b"".join(struct.pack("<I", i.sequence) for i in tx.vin))
    if (hash_type & 0x1F) not in (SIGHASH_SINGLE, SIGHASH_NONE):
        ho = hash256(b"".join(o.ser() for o in tx.vout))
    elif (hash_type & 0x1F) == SIGHASH_SINGLE and n_in < len(tx.vout):
        ho = hash256(tx.vout[n_in].ser())
    ti = tx.vin[n_in]
    r = struct.pack("<I", tx.version & 0xFFFFFFFF) + hp + hs + ti.prev_hash + struct.pack("<I", ti.prev_n)
    r += ser_string(script_code) + struct.pack("<q", amount) + struct.pack("<I", ti.sequence) + ho
    r += struct.pack("<I", tx.lock_time) + struct.pack("<I", hash_type & 0xFFFFFFFF)
    return hash256(r)


@dataclass
class ExecData:
    annex: bytes | None = None
    tapleaf_hash: bytes = b""
    codesep_pos: int = 0xFFFFFFFF
    weight_left: int = 0


def taproot_sighash(tx: Tx, n_in: int, spent: list, hash_type: int, sigversion: int, ed: ExecData):
    """Return the digest, or None where Core's SignatureHashSchnorr returns false."""
    if not (hash_type <= 3 or 0x81 <= hash_type <= 0x83):
        return None
    out_type = SIGHASH_ALL if hash_type == SIGHASH_DEFAULT else hash_type & 3
    in_type = hash_type & SIGHASH_ACP
    r = b"\x00" + bytes([hash_type]) + struct.pack("<I", tx.version & 0xFFFFFFFF) + struct.pack("<I", tx.lock_time)
    if in_type != SIGHASH_ACP:
        r += sha256(b"".join(i.prev_hash + struct.pack("<I", i.prev_n) for i in tx.vin))
        r += sha256(b"".join(struct.pack("<q", o.value) for o in spent))
        r += sha256(b"".join(ser_string(o.spk) for o in spent))
        r += sha256(b"".join(struct.pack("<I", i.sequence) for i in tx.vin))
    if out_type == SIGHASH_ALL:
        r += sha256(b"".join(o.ser() for o in tx.vout))
    ext = 1 if sigversion == TAPSCRIPT else 0
    r += bytes([ext * 2 + (1 if ed.annex is not None else 0)])
    ti = tx.vin[n_in]
    if in_type == SIGHASH_ACP:
        r += ti.prev_hash + struct.pack("<I", ti.prev_n) + spent[n_in].ser() + struct.pack("<I", ti.sequence)
    else:
        r += struct.pack("<I", n_in)
    if ed.annex is not None:
        r += sha256(ser_string(ed.annex))
    if out_type == SIGHASH_SINGLE:
        if n_in >= len(tx.vout):
            return None
        r += sha256(tx.vout[n_in].ser())
    if sigversion == TAPSCRIPT:
        r += ed.tapleaf_hash + b"\x00" + struct.pack("<I", ed.codesep_pos)
    return tagged_hash(b"TapSighash", r)


# ---------------------------------------------------------------- checker
@dataclass
class Checker:
    tx: Tx
    n_in: int
    amount: int
    spent: list | None = None  # list[TxOut] for taproot

    def check_ecdsa(self, sig: bytes, pk: bytes, script_code: bytes, sigversion: int) -> bool:
        if not (len(pk) in (33, 65) and ((len(pk) == 33 and pk[0] in (2, 3)) or (len(pk) == 65 and pk[0] in (4, 6, 7)))):
            return False
        if not sig:
            return False
        hash_type = sig[-1]
        body = sig[:-1]
        if sigversion == WITNESS_V0:
            h = segwit_sighash(script_code, self.tx, self.n_in, hash_type, self.amount)
        else:
            h = legacy_sighash(script_code, self.tx, self.n_in, hash_type)
        return ecdsa_verify(body, pk, h)

    def check_schnorr(self, sig: bytes, pk: bytes, sigversion: int, ed: ExecData) -> None:
        if len(sig) not in (64, 65):
            raise ScriptErr("SCHNORR_SIG_SIZE")
        hash_type = SIGHASH_DEFAULT
        if len(sig) == 65:
            hash_type = sig[-1]
            sig = sig[:-1]
            if hash_type == SIGHASH_DEFAULT:
                raise ScriptErr("SCHNORR_SIG_HASHTYPE")
        if self.spent is None:
            raise ScriptErr("SCHNORR_SIG_HASHTYPE")  # missing data
        h = taproot_sighash(self.tx, self.n_in, self.spent, hash_type, sigversion, ed)
        if h is None:
            raise ScriptErr("SCHNORR_SIG_HASHTYPE")
        if not schnorr_verify(h, pk, sig):
            raise ScriptErr("SCHNORR_SIG")

    def check_lock_time(self, lock: int) -> bool:
        t = self.tx.lock_time
        if not ((t < LOCKTIME_THRESHOLD and lock < LOCKTIME_THRESHOLD) or (t >= LOCKTIME_THRESHOLD and lock >= LOCKTIME_THRESHOLD)):
            return False
        if lock > t:
            return False
        return self.tx.vin[self.n_in].sequence != SEQ_FINAL

    def check_sequence(self, seq: int) -> bool:
        tx_seq = self.tx.vin[self.n_in].sequence
        if (self.tx.version & 0xFFFFFFFF) < 2:
            return False
        if tx_seq & SEQ_DISABLE:
            return False
        mask = SEQ_TYPE | SEQ_MASK
        a, b = tx_seq & mask, seq & mask
        if not ((a < SEQ_TYPE and b < SEQ_TYPE) or (a >= SEQ_TYPE and b >= SEQ_TYPE)):
            return False
        return b <= a


# ---------------------------------------------------------------- interpreter
def eval_checksig_pre_tapscript(sig, pk, script, begincode, flags, checker, sigversion) -> bool:
    script_code = script[begincode:]
    if sigversion == BASE:
        script_code, found = find_and_delete(script_code, push_data(sig))
        if found > 0 and flags & F["CONST_SCRIPTCODE"]:
            raise ScriptErr("SIG_FINDANDDELETE")
    check_sig_encoding(sig, flags)
    check_pubkey_encoding(pk, flags, sigversion)
    ok = checker.check_ecdsa(sig, pk, script_code, sigversion)
    if not ok and flags & F["NULLFAIL"] and len(sig):
        raise ScriptErr("SIG_NULLFAIL")
    return ok


def eval_checksig_tapscript(sig, pk, ed, flags, checker, sigversion) -> bool:
    success = len(sig) > 0
    if success:
        ed.weight_left -= 50
        if ed.weight_left < 0:
            raise ScriptErr("TAPSCRIPT_VALIDATION_WEIGHT")
    if len(pk) == 0:
        raise ScriptErr("PUBKEYTYPE")
    if len(pk) == 32:
        if success:
            checker.check_schnorr(sig, pk, sigversion, ed)
    elif flags & F["DISCOURAGE_UPGRADABLE_PUBKEYTYPE"]:
        raise ScriptErr("DISCOURAGE_UPGRADABLE_PUBKEYTYPE")
    return success


def eval_checksig(sig, pk, script, begincode, ed, flags, checker, sigversion) -> bool:
    if sigversion in (BASE, WITNESS_V0):
        return eval_checksig_pre_tapscript(sig, pk, script, begincode, flags, checker, sigversion)
    return eval_checksig_tapscript(sig, pk, ed, flags, checker, sigversion)


def eval_script(stack: list, script: bytes, flags: int, checker: Checker, sigversion: int, ed: ExecData | None = None) -> None:
    """Mutates stack; raises ScriptErr on failure."""
    ed = ed or ExecData()
    if sigversion in (BASE, WITNESS_V0) and len(script) > MAX_SCRIPT_SIZE:
        raise ScriptErr("SCRIPT_SIZE")
    pc = 0
    begincode = 0
    altstack: list = []
    vf_exec: list = []
    n_op = 0
    minimal = bool(flags & F["MINIMALDATA"])
    opcode_pos = 0
    ed.codesep_pos = 0xFFFFFFFF

    def need(n):
        if len(stack) < n:
            raise ScriptErr("INVALID_STACK_OPERATION")

    while pc < len(script):
        f_exec = all(vf_exec)
        op = get_op(script, pc)
        if op is None:
            raise ScriptErr("BAD_OPCODE")
        opcode, data, pc = op
        if len(data) > MAX_SCRIPT_ELEMENT_SIZE:
            raise ScriptErr("PUSH_SIZE")
        if sigversion in (BASE, WITNESS_V0):
            if opcode > OP_16:
                n_op += 1
                if n_op > MAX_OPS_PER_SCRIPT:
                    raise ScriptErr("OP_COUNT")
        if opcode in DISABLED:
            raise ScriptErr("DISABLED_OPCODE")
        if opcode == OP_CODESEPARATOR and sigversion == BASE and flags & F["CONST_SCRIPTCODE"]:
            raise ScriptErr("OP_CODESEPARATOR")
        if f_exec and 0 <= opcode <= OP_PUSHDATA4:
            if minimal and not check_minimal_push(data, opcode):
                raise ScriptErr("MINIMALDATA")
            stack.append(data)
        elif f_exec or OP_IF <= opcode <= OP_ENDIF:
            if opcode == OP_1NEGATE or OP_1 <= opcode <= OP_16:
                stack.append(num_encode(opcode - (OP_1 - 1)))
            elif opcode == OP_NOP:
                pass
            elif opcode == OP_CHECKLOCKTIMEVERIFY:
                if flags & F["CHECKLOCKTIMEVERIFY"]:
                    need(1)
                    lock = num_decode(stack[-1], minimal, 5)
                    if lock < 0:
                        raise ScriptErr("NEGATIVE_LOCKTIME")
                    if not checker.check_lock_time(lock):
                        raise ScriptErr("UNSATISFIED_LOCKTIME")
            elif opcode == OP_CHECKSEQUENCEVERIFY:
                if flags & F["CHECKSEQUENCEVERIFY"]:
                    need(1)
                    seq = num_decode(stack[-1], minimal, 5)
                    if seq < 0:
                        raise ScriptErr("NEGATIVE_LOCKTIME")
                    if not seq & SEQ_DISABLE and not checker.check_sequence(seq):
                        raise ScriptErr("UNSATISFIED_LOCKTIME")
            elif opcode == OP_NOP1 or OP_NOP4 <= opcode <= OP_NOP10:
                if flags & F["DISCOURAGE_UPGRADABLE_NOPS"]:
                    raise ScriptErr("DISCOURAGE_UPGRADABLE_NOPS")
            elif opcode in (OP_IF, OP_NOTIF):
                value = False
                if f_exec:
                    if len(stack) < 1:
                        raise ScriptErr("UNBALANCED_CONDITIONAL")
                    vch = stack[-1]
                    if sigversion == TAPSCRIPT:
                        if len(vch) > 1 or (len(vch) == 1 and vch[0] != 1):
                            raise ScriptErr("TAPSCRIPT_MINIMALIF")
                    if sigversion == WITNESS_V0 and flags & F["MINIMALIF"]:
                        if len(vch) > 1 or (len(vch) == 1 and vch[0] != 1):
                            raise ScriptErr("MINIMALIF")
                    value = cast_to_bool(vch)
                    if opcode == OP_NOTIF:
                        value = not value
                    stack.pop()
                vf_exec.append(value)
            elif opcode == OP_ELSE:
                if not vf_exec:
                    raise ScriptErr("UNBALANCED_CONDITIONAL")
                vf_exec[-1] = not vf_exec[-1]
            elif opcode == OP_ENDIF:
                if not vf_exec:
                    raise ScriptErr("UNBALANCED_CONDITIONAL")
                vf_exec.pop()
            elif opcode == OP_VERIFY:
                need(1)
                if cast_to_bool(stack[-1]):
                    stack.pop()
                else:
                    raise ScriptErr("VERIFY")
            elif opcode == OP_RETURN:
                raise ScriptErr("OP_RETURN")
            elif opcode == OP_TOALTSTACK:
                need(1)
                altstack.append(stack.pop())
            elif opcode == OP_FROMALTSTACK:
                if len(altstack) < 1:
                    raise ScriptErr("INVALID_ALTSTACK_OPERATION")
                stack.append(altstack.pop())
            elif opcode == OP_2DROP:
                need(2)
                stack.pop()
                stack.pop()
            elif opcode == OP_2DUP:
                need(2)
                stack.extend(stack[-2:])
            elif opcode == OP_3DUP:
                need(3)
                stack.extend(stack[-3:])
            elif opcode == OP_2OVER:
                need(4)
                stack.extend(stack[-4:-2])
            elif opcode == OP_2ROT:
                need(6)
                a, b = stack[-6], stack[-5]
                del stack[-6:-4]
                stack.extend((a, b))
            elif opcode == OP_2SWAP:
                need(4)
                stack[-4], stack[-2] = stack[-2], stack[-4]
                stack[-3], stack[-1] = stack[-1], stack[-3]
            elif opcode == OP_IFDUP:
                need(1)
                if cast_to_bool(stack[-1]):
                    stack.append(stack[-1])
            elif opcode == OP_DEPTH:
                stack.append(num_encode(len(stack)))
            elif opcode == OP_DROP:
                need(1)
                stack.pop()
            elif opcode == OP_DUP:
                need(1)
                stack.append(stack[-1])
            elif opcode == OP_NIP:
                need(2)
                del stack[-2]
            elif opcode == OP_OVER:
                need(2)
                stack.append(stack[-2])
            elif opcode in (OP_PICK, OP_ROLL):
                need(2)
                n = num_decode(stack[-1], minimal)
                stack.pop()
                if n < 0 or n >= len(stack):
                    raise ScriptErr("INVALID_STACK_OPERATION")
                vch = stack[-n - 1]
                if opcode == OP_ROLL:
                    del stack[-n - 1]
                stack.append(vch)
            elif opcode == OP_ROT:
                need(3)
                stack[-3], stack[-2] = stack[-2], stack[-3]
                stack[-2], stack[-1] = stack[-1], stack[-2]
            elif opcode == OP_SWAP:
                need(2)
                stack[-2], stack[-1] = stack[-1], stack[-2]
            elif opcode == OP_TUCK:
                need(2)
                stack.insert(len(stack) - 2, stack[-1])
            elif opcode == OP_SIZE:
                need(1)
                stack.append(num_encode(len(stack[-1])))
            elif opcode in (OP_EQUAL, OP_EQUALVERIFY):
                need(2)
                eq = stack[-2] == stack[-1]
                stack.pop()
                stack.pop()
                stack.append(b"\x01" if eq else b"")
                if opcode == OP_EQUALVERIFY:
                    if eq:
                        stack.pop()
                    else:
                        raise ScriptErr("EQUALVERIFY")
            elif opcode in (OP_1ADD, OP_1SUB, OP_NEGATE, OP_ABS, OP_NOT, OP_0NOTEQUAL):
                need(1)
                bn = num_decode(stack[-1], minimal)
                if opcode == OP_1ADD:
                    bn += 1
                elif opcode == OP_1SUB:
                    bn -= 1
                elif opcode == OP_NEGATE:
                    bn = -bn
                elif opcode == OP_ABS:
                    bn = abs(bn)
                elif opcode == OP_NOT:
                    bn = int(bn == 0)
                else:
                    bn = int(bn != 0)
                stack.pop()
                stack.append(num_encode(bn))
            elif OP_ADD <= opcode <= OP_MAX and opcode not in DISABLED:
                need(2)
                a = num_decode(stack[-2], minimal)
                b = num_decode(stack[-1], minimal)
                if opcode == OP_ADD:
                    bn = a + b
                elif opcode == OP_SUB:
                    bn = a - b
                elif opcode == OP_BOOLAND:
                    bn = int(a != 0 and b != 0)
                elif opcode == OP_BOOLOR:
                    bn = int(a != 0 or b != 0)
                elif opcode in (OP_NUMEQUAL, OP_NUMEQUALVERIFY):
                    bn = int(a == b)
                elif opcode == OP_NUMNOTEQUAL:
                    bn = int(a != b)
                elif opcode == OP_LESSTHAN:
                    bn = int(a < b)
                elif opcode == OP_GREATERTHAN:
                    bn = int(a > b)
                elif opcode == OP_LESSTHANOREQUAL:
                    bn = int(a <= b)
                elif opcode == OP_GREATERTHANOREQUAL:
                    bn = int(a >= b)
                elif opcode == OP_MIN:
                    bn = min(a, b)
                elif opcode == OP_MAX:
                    bn = max(a, b)
                else:
                    raise ScriptErr("BAD_OPCODE")
                stack.pop()
                stack.pop()
                stack.append(num_encode(bn))
                if opcode == OP_NUMEQUALVERIFY:
                    if cast_to_bool(stack[-1]):
                        stack.pop()
                    else:
                        raise ScriptErr("NUMEQUALVERIFY")
            elif opcode == OP_WITHIN:
                need(3)
                x = num_decode(stack[-3], minimal)
                lo = num_decode(stack[-2], minimal)
                hi = num_decode(stack[-1], minimal)
                del stack[-3:]
                stack.append(b"\x01" if lo <= x < hi else b"")
            elif OP_RIPEMD160 <= opcode <= OP_HASH256:
                need(1)
                v = stack.pop()
                if opcode == OP_RIPEMD160:
                    h = ripemd160(v)
                elif opcode == OP_SHA1:
                    h = hashlib.sha1(v).digest()
                elif opcode == OP_SHA256:
                    h = sha256(v)
                elif opcode == OP_HASH160:
                    h = ripemd160(sha256(v))
                else:
                    h = hash256(v)
                stack.append(h)
            elif opcode == OP_CODESEPARATOR:
                begincode = pc
                ed.codesep_pos = opcode_pos
            elif opcode in (OP_CHECKSIG, OP_CHECKSIGVERIFY):
                need(2)
                sig, pk = stack[-2], stack[-1]
                ok = eval_checksig(sig, pk, script, begincode, ed, flags, checker, sigversion)
                stack.pop()
                stack.pop()
                stack.append(b"\x01" if ok else b"")
                if opcode == OP_CHECKSIGVERIFY:
                    if ok:
                        stack.pop()
                    else:
                        raise ScriptErr("CHECKSIGVERIFY")
            elif opcode == OP_CHECKSIGADD:
                if sigversion in (BASE, WITNESS_V0):
                    raise ScriptErr("BAD_OPCODE")
                need(3)
                sig = stack[-3]
                num = num_decode(stack[-2], minimal)
                pk = stack[-1]
                ok = eval_checksig(sig, pk, script, begincode, ed, flags, checker, sigversion)
                del stack[-3:]
                stack.append(num_encode(num + (1 if ok else 0)))
            elif opcode in (OP_CHECKMULTISIG, OP_CHECKMULTISIGVERIFY):
                if sigversion == TAPSCRIPT:
                    raise ScriptErr("TAPSCRIPT_CHECKMULTISIG")
                i = 1
                need(i)
                n_keys = num_decode(stack[-i], minimal)
                if n_keys < 0 or n_keys > MAX_PUBKEYS_PER_MULTISIG:
                    raise ScriptErr("PUBKEY_COUNT")
                n_op += n_keys
                if n_op > MAX_OPS_PER_SCRIPT:
                    raise ScriptErr("OP_COUNT")
                i += 1
                ikey = i
                ikey2 = n_keys + 2
                i += n_keys
                need(i)
                n_sigs = num_decode(stack[-i], minimal)
                if n_sigs < 0 or n_sigs > n_keys:
                    raise ScriptErr("SIG_COUNT")
                i += 1
                isig = i
                i += n_sigs
                need(i)
                script_code = script[begincode:]
                for k in range(n_sigs):
                    vch_sig = stack[-isig - k]
                    if sigversion == BASE:
                        script_code, found = find_and_delete(script_code, push_data(vch_sig))
                        if found > 0 and flags & F["CONST_SCRIPTCODE"]:
                            raise ScriptErr("SIG_FINDANDDELETE")
                success = True
                while success and n_sigs > 0:
                    vch_sig = stack[-isig]
                    vch_pk = stack[-ikey]
                    check_sig_encoding(vch_sig, flags)
                    check_pubkey_encoding(vch_pk, flags, sigversion)
                    if checker.check_ecdsa(vch_sig, vch_pk, script_code, sigversion):
                        isig += 1
                        n_sigs -= 1
                    ikey += 1
                    n_keys -= 1
                    if n_sigs > n_keys:
                        success = False
                while i > 1:
                    i -= 1
                    if not success and flags & F["NULLFAIL"] and not ikey2 and len(stack[-1]):
                        raise ScriptErr("SIG_NULLFAIL")
                    if ikey2 > 0:
                        ikey2 -= 1
                    stack.pop()
                need(1)
                if flags & F["NULLDUMMY"] and len(stack[-1]):
                    raise ScriptErr("SIG_NULLDUMMY")
                stack.pop()
                stack.append(b"\x01" if success else b"")
                if opcode == OP_CHECKMULTISIGVERIFY:
                    if success:
                        stack.pop()
                    else:
                        raise ScriptErr("CHECKMULTISIGVERIFY")
            else:
                raise ScriptErr("BAD_OPCODE")
        if len(stack) + len(altstack) > MAX_STACK_SIZE:
            raise ScriptErr("STACK_SIZE")
        opcode_pos += 1
    if vf_exec:
        raise ScriptErr("UNBALANCED_CONDITIONAL")


def is_push_only(script: bytes) -> bool:
    pc = 0
    while pc < len(script):
        op = get_op(script, pc)
        if op is None:
            return False
        if op[0] > OP_16:
            return False
        pc = op[2]
    return True


def witness_program(script: bytes):
    if len(script) < 4 or len(script) > 42:
        return None
    if script[0] != OP_0 and not (OP_1 <= script[0] <= OP_16):
        return None
    if script[1] + 2 == len(script):
        return (0 if script[0] == 0 else script[0] - 80), script[2:]
    return None


def is_p2sh(script: bytes) -> bool:
    return len(script) == 23 and script[0] == OP_HASH160 and script[1] == 0x14 and script[22] == OP_EQUAL


def is_op_success(op: int) -> bool:
    return op == 80 or op == 98 or 126 <= op <= 129 or 131 <= op <= 134 or 137 <= op <= 138 or 141 <= op <= 142 or 149 <= op <= 153 or 187 <= op <= 254


def execute_witness_script(stack_in, exec_script, flags, sigversion, checker, ed) -> None:
    stack = list(stack_in)
    if sigversion == TAPSCRIPT:
        pc = 0
        while pc < len(exec_script):
            op = get_op(exec_script, pc)
            if op is None:
                raise ScriptErr("BAD_OPCODE")
            if is_op_success(op[0]):
                if flags & F["DISCOURAGE_OP_SUCCESS"]:
                    raise ScriptErr("DISCOURAGE_OP_SUCCESS")
                return
            pc = op[2]
        if len(stack) > MAX_STACK_SIZE:
            raise ScriptErr("STACK_SIZE")
    for e in stack:
        if len(e) > MAX_SCRIPT_ELEMENT_SIZE:
            raise ScriptErr("PUSH_SIZE")
    eval_script(stack, exec_script, flags, checker, sigversion, ed)
    if len(stack) != 1:
        raise ScriptErr("CLEANSTACK")
    if not cast_to_bool(stack[-1]):
        raise ScriptErr("EVAL_FALSE")


def tapleaf_hash(leaf_version: int, script: bytes) -> bytes:
    return tagged_hash(b"TapLeaf", bytes([leaf_version]) + ser_string(script))


def verify_taproot_commitment(control: bytes, program: bytes, leaf_hash: bytes) -> bool:
    p = control[1:33]
    k = leaf_hash
    for j in range((len(control) - 33) // 32):
        e = control[33 + 32 * j : 65 + 32 * j]
        k = tagged_hash(b"TapBranch", k + e) if k < e else tagged_hash(b"TapBranch", e + k)
    Pt = lift_x(int.from_bytes(p, "big"))
    if Pt is None:
        return False
    t = int.from_bytes(tagged_hash(b"TapTweak", p + k), "big")
    if t >= N:
        return False
    Q = ec_add(Pt, ec_mul(t, G))
    if Q is None:
        return False
    return Q[0] == int.from_bytes(program, "big") and (Q[1] & 1) == (control[0] & 1)


PAY_TO_ANCHOR = bytes([0x4E, 0x73])


def verify_witness_program(witness, version, program, flags, checker, is_p2sh_) -> None:
    stack = list(witness)
    ed = ExecData()
    if version == 0:
        if len(program) == 32:
            if not stack:
                raise ScriptErr("WITNESS_PROGRAM_WITNESS_EMPTY")
            exec_script = stack.pop()
            if sha256(exec_script) != program:
                raise ScriptErr("WITNESS_PROGRAM_MISMATCH")
            return execute_witness_script(stack, exec_script, flags, WITNESS_V0, checker, ed)
        if len(program) == 20:
            if len(stack) != 2:
                raise ScriptErr("WITNESS_PROGRAM_MISMATCH")
            exec_script = bytes([OP_DUP, OP_HASH160, 20]) + program + bytes([OP_EQUALVERIFY, OP_CHECKSIG])
            return execute_witness_script(stack, exec_script, flags, WITNESS_V0, checker, ed)
        raise ScriptErr("WITNESS_PROGRAM_WRONG_LENGTH")
    if version == 1 and len(program) == 32 and not is_p2sh_:
        if not flags & F["TAPROOT"]:
            return
        if not stack:
            raise ScriptErr("WITNESS_PROGRAM_WITNESS_EMPTY")
        if len(stack) >= 2 and stack[-1] and stack[-1][0] == 0x50:
            ed.annex = stack.pop()
        if len(stack) == 1:
            checker.check_schnorr(stack[0], program, TAPROOT, ed)
            return
        control = stack.pop()
        script = stack.pop()
        if len(control) < 33 or len(control) > 33 + 32 * 128 or (len(control) - 33) % 32:
            raise ScriptErr("TAPROOT_WRONG_CONTROL_SIZE")
        ed.tapleaf_hash = tapleaf_hash(control[0] & 0xFE, script)
        if not verify_taproot_commitment(control, program, ed.tapleaf_hash):
            raise ScriptErr("WITNESS_PROGRAM_MISMATCH")
        if control[0] & 0xFE == 0xC0:
            ed.weight_left = len(ser_compact(len(witness)) + b"".join(ser_string(w) for w in witness)) + 50
            return execute_witness_script(stack, script, flags, TAPSCRIPT, checker, ed)
        if flags & F["DISCOURAGE_UPGRADABLE_TAPROOT_VERSION"]:
            raise ScriptErr("DISCOURAGE_UPGRADABLE_TAPROOT_VERSION")
        return
    if not is_p2sh_ and version == 1 and program == PAY_TO_ANCHOR:
        return
    if flags & F["DISCOURAGE_UPGRADABLE_WITNESS_PROGRAM"]:
        raise ScriptErr("DISCOURAGE_UPGRADABLE_WITNESS_PROGRAM")


def verify_script(script_sig: bytes, spk: bytes, witness: list, flags: int, checker: Checker) -> None:
    """Core's VerifyScript; returns on success, raises ScriptErr(code) otherwise."""
    if flags & F["SIGPUSHONLY"] and not is_push_only(script_sig):
        raise ScriptErr("SIG_PUSHONLY")
    stack: list = []
    eval_script(stack, script_sig, flags, checker, BASE)
    stack_copy = list(stack) if flags & F["P2SH"] else None
    eval_script(stack, spk, flags, checker, BASE)
    if not stack or not cast_to_bool(stack[-1]):
        raise ScriptErr("EVAL_FALSE")
    had_witness = False
    if flags & F["WITNESS"]:
        wp = witness_program(spk)
        if wp is not None:
            had_witness = True
            if len(script_sig) != 0:
                raise ScriptErr("WITNESS_MALLEATED")
            verify_witness_program(witness, wp[0], wp[1], flags, checker, False)
            del stack[1:]
    if flags & F["P2SH"] and is_p2sh(spk):
        if not is_push_only(script_sig):
            raise ScriptErr("SIG_PUSHONLY")
        stack = stack_copy
        assert stack
        pub_key2 = stack.pop()
        eval_script(stack, pub_key2, flags, checker, BASE)
        if not stack or not cast_to_bool(stack[-1]):
            raise ScriptErr("EVAL_FALSE")
        if flags & F["WITNESS"]:
            wp = witness_program(pub_key2)
            if wp is not None:
                had_witness = True
                if script_sig != push_data(pub_key2):
                    raise ScriptErr("WITNESS_MALLEATED_P2SH")
                verify_witness_program(witness, wp[0], wp[1], flags, checker, True)
                del stack[1:]
    if flags & F["CLEANSTACK"]:
        assert flags & F["P2SH"] and flags & F["WITNESS"]
        if len(stack) != 1:
            raise ScriptErr("CLEANSTACK")
    if flags & F["WITNESS"]:
        assert flags & F["P2SH"]
        if not had_witness and witness:
            raise ScriptErr("WITNESS_UNEXPECTED")


def run(script_sig, spk, witness, flags, checker) -> str:
    try:
        verify_script(script_sig, spk, witness, flags, checker)
    except ScriptErr as e:
        return e.code
    return "OK"


# ---------------------------------------------------------------- asm
OPNAMES = {}
_names = {
    0: "0", 76: "PUSHDATA1", 77: "PUSHDATA2", 78: "PUSHDATA4", 79: "1NEGATE", 80: "RESERVED", 97: "NOP", 98: "VER",
    99: "IF", 100: "NOTIF", 101: "VERIF", 102: "VERNOTIF", 103: "ELSE", 104: "ENDIF", 105: "VERIFY", 106: "RETURN",
    107: "TOALTSTACK", 108: "FROMALTSTACK", 109: "2DROP", 110: "2DUP", 111: "3DUP", 112: "2OVER", 113: "2ROT",
    114: "2SWAP", 115: "IFDUP", 116: "DEPTH", 117: "DROP", 118: "DUP", 119: "NIP", 120: "OVER", 121: "PICK",
    122: "ROLL", 123: "ROT", 124: "SWAP", 125: "TUCK", 126: "CAT", 127: "SUBSTR", 128: "LEFT", 129: "RIGHT",
    130: "SIZE", 131: "INVERT", 132: "AND", 133: "OR", 134: "XOR", 135: "EQUAL", 136: "EQUALVERIFY",
    137: "RESERVED1", 138: "RESERVED2", 139: "1ADD", 140: "1SUB", 141: "2MUL", 142: "2DIV", 143: "NEGATE",
    144: "ABS", 145: "NOT", 146: "0NOTEQUAL", 147: "ADD", 148: "SUB", 149: "MUL", 150: "DIV", 151: "MOD",
    152: "LSHIFT", 153: "RSHIFT", 154: "BOOLAND", 155: "BOOLOR", 156: "NUMEQUAL", 157: "NUMEQUALVERIFY",
    158: "NUMNOTEQUAL", 159: "LESSTHAN", 160: "GREATERTHAN", 161: "LESSTHANOREQUAL", 162: "GREATERTHANOREQUAL",
    163: "MIN", 164: "MAX", 165: "WITHIN", 166: "RIPEMD160", 167: "SHA1", 168: "SHA256", 169: "HASH160",
    170: "HASH256", 171: "CODESEPARATOR", 172: "CHECKSIG", 173: "CHECKSIGVERIFY", 174: "CHECKMULTISIG",
    175: "CHECKMULTISIGVERIFY", 176: "NOP1", 177: "CHECKLOCKTIMEVERIFY", 178: "CHECKSEQUENCEVERIFY",
    179: "NOP4", 180: "NOP5", 181: "NOP6", 182: "NOP7", 183: "NOP8", 184: "NOP9", 185: "NOP10", 186: "CHECKSIGADD",
    255: "INVALIDOPCODE",
}
for _code, _name in _names.items():
    if _code <= 96 and _code not in (79, 80):
        continue
    OPNAMES["OP_" + _name] = _code
    OPNAMES[_name] = _code
OPNAMES.update({"NOP2": 177, "OP_NOP2": 177, "NOP3": 178, "OP_NOP3": 178, "OP_1NEGATE": 79, "1NEGATE": 79, "OP_RESERVED": 80, "RESERVED": 80})


def parse_asm(s: str) -> bytes:
    out = bytearray()
    for w in s.split():
        if w.isdigit() or (w[0] == "-" and w[1:].isdigit()):
            n = int(w)
            if n == -1 or 1 <= n <= 16:
                out.append(n + 80)
            elif n == 0:
                out.append(0)
            else:
                out += push_data(num_encode(n))
        elif w.startswith("0x"):
            out += bytes.fromhex(w[2:])
        elif len(w) >= 2 and w[0] == "'" and w[-1] == "'":
            out += push_data(w[1:-1].encode())
        elif w in OPNAMES:
            out.append(OPNAMES[w])
        else:
            raise ValueError(f"bad asm word {w!r}")
    return bytes(out)


def parse_flags(s: str) -> int:
    f = 0
    for name in s.split(","):
        if name and name != "NONE":
            f |= F[name]
    return f
