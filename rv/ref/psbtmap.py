"""Map-level PSBT reader/writer from BIP174 "Specification" (never imports btclib).

    <psbt> := <magic> <global-map> <input-map>* <output-map>*
    <magic> := 0x70 0x73 0x62 0x74 0xFF
    <map> := <keypair>* 0x00
    <keypair> := <key> <value>
    <key> := <keylen> <keytype> <keydata>      (keylen = CompactSize of keytype|keydata)
    <value> := <valuelen> <valuedata>

No interpretation of any key type beyond what is needed to *count* the maps
(BIP174: as many input/output maps as the unsigned transaction has inputs/outputs;
BIP370: PSBT_GLOBAL_INPUT_COUNT / PSBT_GLOBAL_OUTPUT_COUNT).  Used by C05 to
compare the multiset of (map index, key, value) before and after a
parse -> serialize pass of the library, and to build structure-aware mutants.
"""

from __future__ import annotations

from collections import Counter

from .txcodec import RefError, read_compact_size, read_tx, ser_compact_size

MAGIC = b"psbt\xff"

Pair = tuple[bytes, bytes]


def read_map(b: bytes, pos: int) -> tuple[list[Pair], int, bool]:
    """-> (pairs in wire order, position after the separator, all length prefixes minimal)."""
    pairs: list[Pair] = []
    minimal = True
    while True:
        klen, pos, m = read_compact_size(b, pos)
        minimal = minimal and m
        if klen == 0:
            return pairs, pos, minimal
        if pos + klen > len(b):
            raise RefError("short read: psbt key")
        key = b[pos : pos + klen]
        pos += klen
        vlen, pos, m = read_compact_size(b, pos)
        minimal = minimal and m
        if pos + vlen > len(b):
            raise RefError("short read: psbt value")
        pairs.append((key, b[pos : pos + vlen]))
        pos += vlen


class PsbtMaps:
    def __init__(self, maps: list[list[Pair]], minimal: bool = True):
        self.maps = maps
        self.minimal = minimal

    @property
    def global_map(self) -> list[Pair]:
        return self.maps[0]

    def has_duplicate_keys(self) -> bool:
        return any(len({k for k, _ in m}) != len(m) for m in self.maps)

    def multiset(self) -> Counter:
        return Counter((i, k, v) for i, m in enumerate(self.maps) for k, v in m)

    def sorted_form(self) -> list[list[Pair]]:
        return [sorted(m) for m in self.maps]

    def version(self) -> int:
        for k, v in self.global_map:
            if k == b"\xfb" and len(v) == 4:
                return int.from_bytes(v, "little")
        return 0

    def declared_counts(self) -> tuple[int, int] | None:
        """(inputs, outputs) the global map announces, or None when it does not say."""
        g = dict(self.global_map)
        if b"\x00" in g:
            try:
                tx = read_tx(g[b"\x00"])
            except RefError:
                return None
            return len(tx.vin), len(tx.vout)
        if b"\x04" in g and b"\x05" in g:
            try:
                return read_compact_size(g[b"\x04"], 0)[0], read_compact_size(g[b"\x05"], 0)[0]
            except RefError:
                return None
        return None

    def split(self) -> tuple[list[Pair], list[list[Pair]], list[list[Pair]]] | None:
        c = self.declared_counts()
        if c is None or 1 + c[0] + c[1] != len(self.maps):
            return None
        return self.maps[0], self.maps[1 : 1 + c[0]], self.maps[1 + c[0] :]

    def ser(self) -> bytes:
        return build(self.maps)


def parse(b: bytes) -> PsbtMaps:
    """Every map up to the end of the data; anything that is not a whole number of maps is an error."""
    if b[:5] != MAGIC:
        raise RefError("missing psbt magic")
    pos = 5
    maps = []
    minimal = True
    while pos < len(b) or not maps:
        m, pos, mm = read_map(b, pos)
        maps.append(m)
        minimal = minimal and mm
    return PsbtMaps(maps, minimal)


def ser_pair(key: bytes, value: bytes) -> bytes:
    return ser_compact_size(len(key)) + key + ser_compact_size(len(value)) + value


def ser_map(pairs: list[Pair]) -> bytes:
    return b"".join(ser_pair(k, v) for k, v in pairs) + b"\x00"


def build(maps: list[list[Pair]]) -> bytes:
    return MAGIC + b"".join(ser_map(m) for m in maps)


def lost_and_gained(before: PsbtMaps, after: PsbtMaps) -> tuple[list, list]:
    """Pairs of ``before`` missing from ``after`` and pairs of ``after`` that ``before`` did not have."""
    a, b = before.multiset(), after.multiset()
    return sorted((a - b).elements()), sorted((b - a).elements())
