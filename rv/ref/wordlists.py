"""Independent word-list reader.  No btclib import.

The lists are the published ones (bitcoin/bips bip-0039/*.txt, trezor/python-mnemonic's
russian.txt and turkish.txt, satoshilabs/slips slip-0039/wordlist.txt, spesmilo/electrum's
wordlist/portuguese.txt and the ``_words`` tuple of old_mnemonic.py), copied once into
``/verif/vectors/wordlists`` so that nothing the library under test ships is read here.

BIP-0039: "the wordlist ... 2048 words", sentence and words "in UTF-8 NFKD".  A line is a
word; ``#`` starts a comment (the licence header of Electrum's Portuguese list).
"""

from __future__ import annotations

import os
import unicodedata

DIR = os.path.join(os.path.dirname(os.path.dirname(os.path.dirname(os.path.abspath(__file__)))), "vectors", "wordlists")

# language code -> (file, number of words)
BIP39 = {
    "cs": "czech.txt", "en": "english.txt", "es": "spanish.txt", "fr": "french.txt", "it": "italian.txt",
    "ja": "japanese.txt", "ko": "korean.txt", "pt": "portuguese.txt", "ru": "russian.txt", "tr": "turkish.txt",
    "zh": "chinese_simplified.txt", "zh_tw": "chinese_traditional.txt",
}
# the names the published BIP39 vector file uses
VECTOR_NAME = {
    "cs": "czech", "en": "english", "es": "spanish", "fr": "french", "it": "italian", "ja": "japanese",
    "ko": "korean", "pt": "portuguese", "ru": "russian", "tr": "turkish", "zh": "chinese_simplified",
    "zh_tw": "chinese_traditional",
}
OTHER = {"slip39": ("slip39.txt", 1024), "electrum_pt": ("electrum_portuguese.txt", 1626),
         "electrum_old": ("electrum_old_english.txt", 1626)}

_cache: dict[str, list[str]] = {}


def read(filename: str) -> list[str]:
    with open(os.path.join(DIR, filename), "rb") as f:
        text = f.read().decode("utf-8")
    words = []
    for line in text.split("\n"):
        line = line.split("#", 1)[0].strip()
        if line:
            words.append(unicodedata.normalize("NFKD", line))
    return words


def load(key: str) -> list[str]:
    """The word list for a BIP39 language code, 'slip39', 'electrum_pt' or 'electrum_old'."""
    if key not in _cache:
        if key in BIP39:
            fn, n = BIP39[key], 2048
        else:
            fn, n = OTHER[key]
        w = read(fn)
        if len(w) != n or len(set(w)) != n:
            raise ValueError(f"word list {key}: {len(w)} words, {len(set(w))} distinct, expected {n}")
        if any(not x or x != x.strip() or len(x.split()) != 1 for x in w):
            raise ValueError(f"word list {key}: a line is not one word")
        _cache[key] = w
    return _cache[key]


def electrum(lang: str) -> list[str]:
    """Electrum's list for a language: BIP39's, except Portuguese (Monero's 1626 words)."""
    return load("electrum_pt" if lang == "pt" else lang)


def index_map(key: str) -> dict[str, int]:
    return {w: i for i, w in enumerate(load(key))}


def selftest() -> list[str]:
    bad = []
    try:
        en = load("en")
        if (en[0], en[1], en[3], en[2047]) != ("abandon", "ability", "about", "zoo"):
            bad.append("english.txt does not start abandon/ability/.../ end zoo")
        if en != sorted(en):
            bad.append("english.txt not sorted")
        s = load("slip39")
        if (s[0], s[1], s[1023]) != ("academic", "acid", "zero"):
            bad.append("slip39 list does not start academic/acid / end zero")
        # SLIP-0039: "each word has a unique 4-letter prefix", words are 4 to 8 letters
        if len({w[:4] for w in s}) != 1024 or any(not 4 <= len(w) <= 8 for w in s):
            bad.append("slip39 list: 4-letter prefixes not unique or word length outside 4..8")
        # BIP-0039: english words are identified by their first four letters
        if len({w[:4] for w in en}) != 2048:
            bad.append("english.txt: 4-letter prefixes not unique")
        for k in BIP39:
            load(k)
        old = load("electrum_old")
        if (old[0], old[1], old[1624], old[1625]) != ("like", "just", "weapon", "weary"):
            bad.append("electrum old list does not start like/just / end weapon/weary")
        load("electrum_pt")
    except (OSError, ValueError) as e:
        bad.append(repr(e))
    return bad
