"""Reference BIP352 (silent payments): sender, labels, scanner.  Never imports btclib.

Written from the BIP text and the reference published with it
(bip-0352/reference.py: ``get_pubkey_from_input``, ``get_input_hash``,
``create_outputs``, ``scanning``, ``generate_label``) over the affine arithmetic of
``rv.ref.ec``; infinity is ``None``.

The BIP leaves the order in which the addresses of one group take their counter k
to the sender ("for each B_m in the group"): ``create_outputs`` follows the order
given, and ``is_valid_output_set`` decides whether *some* order produces a set.
"""

from __future__ import annotations

import hashlib
import json

from . import bech32 as rb32
from . import ec as rec
from .bip340 import tagged_hash

EC = rec.SECP256K1
p, n, G = EC.p, EC.n, EC.G
NUMS_H = bytes.fromhex("50929b74c1a04954b78b4b6035e97a5e078a5a0f28ec96d547bfee9ace803ac0")
K_MAX = 2323


def ser33(P) -> bytes:
    return bytes([2 + (P[1] & 1)]) + P[0].to_bytes(32, "big")


def ser32(P) -> bytes:
    return P[0].to_bytes(32, "big")


def parse33(b: bytes):
    """Compressed point or None."""
    if len(b) != 33 or b[0] not in (2, 3):
        return None
    return EC.lift_x(int.from_bytes(b[1:], "big"), b[0] & 1)


def hash160(b: bytes) -> bytes:
    return hashlib.new("ripemd160", hashlib.sha256(b).digest()).digest()


# ------------------------------------------------------------------ addresses
def encode_address(B_scan, B_m, hrp: str = "sp", version: int = 0) -> str:
    data = rb32.convertbits(ser33(B_scan) + ser33(B_m), 8, 5)
    return rb32.bech32_encode(hrp, [version] + data, rb32.BECH32M)


def decode_address(addr: str):
    """(B_scan, B_m) or None: bech32m up to 1023 characters, version 0 with 66 bytes
    (higher versions below 31: the first 66 bytes are read, forward compatibly)."""
    hrp, data, spec = rb32.bech32_decode(addr, 1023)
    if hrp not in ("sp", "tsp") or spec != rb32.BECH32M or not data:
        return None
    version = data[0]
    payload = rb32.convertbits(data[1:], 5, 8, False)
    if payload is None or version == 31:
        return None
    payload = bytes(payload)
    if (version == 0 and len(payload) != 66) or len(payload) < 66:
        return None
    B_scan, B_m = parse33(payload[:33]), parse33(payload[33:66])
    if B_scan is None or B_m is None:
        return None
    return B_scan, B_m


# --------------------------------------------------------------------- labels
def label_tweak(b_scan: int, m: int) -> int:
    return int.from_bytes(tagged_hash("BIP0352/Label", b_scan.to_bytes(32, "big") + m.to_bytes(4, "big")), "big")


def labeled_spend_key(b_scan: int, B_spend, m: int):
    return EC.add(B_spend, EC.mul_nored(label_tweak(b_scan, m) % n, G))


# --------------------------------------------------------------------- inputs
def input_hash(outpoints: list[bytes], A_sum) -> int:
    """outpoints: 36-byte serializations (txid as in the transaction, little-endian vout)."""
    return int.from_bytes(tagged_hash("BIP0352/Inputs", min(outpoints) + ser33(A_sum)), "big")


def prv_key_sum(keys: list[tuple[int, bool]]) -> int:
    """Sum of the input keys, a taproot key negated when its point has odd y."""
    a_sum = 0
    for a, is_taproot in keys:
        if is_taproot and EC.mul_nored(a, G)[1] % 2:
            a = n - a
        a_sum = (a_sum + a) % n
    return a_sum


def output_tweak(secret, k: int) -> int:
    return int.from_bytes(tagged_hash("BIP0352/SharedSecret", ser33(secret) + k.to_bytes(4, "big")), "big")


def groups_of(recipients: list[tuple]) -> dict:
    groups: dict = {}
    for B_scan, B_m in recipients:
        groups.setdefault(B_scan, []).append(B_m)
    return groups


def create_outputs(keys: list[tuple[int, bool]], outpoints: list[bytes], recipients: list[tuple]) -> list[bytes]:
    """x-only output keys, group by group, k in the order given; [] when there is nothing to pay.
    Raises ValueError when the BIP says sending fails."""
    a_sum = prv_key_sum(keys)
    if a_sum == 0:
        raise ValueError("input private keys sum to zero")
    ih = input_hash(outpoints, EC.mul_nored(a_sum, G))
    if not 0 < ih < n:
        raise ValueError("input hash out of range")
    out = []
    for B_scan, B_ms in groups_of(recipients).items():
        if len(B_ms) > K_MAX:
            raise ValueError("K_max exceeded")
        secret = EC.mul_nored(ih * a_sum % n, B_scan)
        for k, B_m in enumerate(B_ms):
            t_k = output_tweak(secret, k)
            if not 0 < t_k < n:
                raise ValueError("t_k out of range")
            out.append(ser32(EC.add(B_m, EC.mul_nored(t_k, G))))
    return out


def is_valid_output_set(outputs: list[bytes], keys, outpoints, recipients) -> bool:
    """Is ``outputs`` (any order) what *some* k-order within each group produces?"""
    a_sum = prv_key_sum(keys)
    ih = input_hash(outpoints, EC.mul_nored(a_sum, G))
    remaining = list(outputs)
    for B_scan, B_ms in groups_of(recipients).items():
        secret = EC.mul_nored(ih * a_sum % n, B_scan)
        left = list(B_ms)
        for k in range(len(B_ms)):
            T = EC.mul_nored(output_tweak(secret, k) % n, G)
            hit = None
            for B_m in left:
                x = ser32(EC.add(B_m, T))
                if x in remaining:
                    hit = (B_m, x)
                    break
            if hit is None:
                return False
            left.remove(hit[0])
            remaining.remove(hit[1])
    return not remaining


# -------------------------------------------------------------------- scanner
def scanning(b_scan: int, B_spend, A_sum, ih: int, outputs: list[bytes], label_ms: list[int]) -> list[tuple[bytes, int]]:
    """[(x-only key, private tweak)] of the outputs belonging to (b_scan, B_spend) - BIP 'Scanning'."""
    secret = EC.mul_nored(ih * b_scan % n, A_sum)
    labels = {}
    for m in label_ms:
        t = label_tweak(b_scan, m) % n
        labels[EC.mul_nored(t, G)] = t
    remaining = list(outputs)
    found = []
    k = 0
    while k < K_MAX:
        t_k = output_tweak(secret, k)
        P_k = EC.add(B_spend, EC.mul_nored(t_k % n, G))
        hit = None
        for out in remaining:
            if ser32(P_k) == out:
                hit = (out, t_k % n)
                break
            O = EC.lift_x(int.from_bytes(out, "big"))
            if O is None:
                continue
            for cand in (O, EC.neg(O)):
                L = EC.add(cand, EC.neg(P_k))
                if L in labels:
                    hit = (out, (t_k + labels[L]) % n)
                    break
            if hit:
                break
        if hit is None:
            break
        remaining.remove(hit[0])
        found.append(hit)
        k += 1
    return found


# --------------------------------------------------------- vector self-test
def _witness_stack(hexs: str) -> list[bytes]:
    """The vectors serialize a witness as compact-size count, then length-prefixed items."""
    b = bytes.fromhex(hexs)
    if not b:
        return []

    def cs(pos):
        v = b[pos]
        if v < 0xFD:
            return v, pos + 1
        if v == 0xFD:
            return int.from_bytes(b[pos + 1:pos + 3], "little"), pos + 3
        if v == 0xFE:
            return int.from_bytes(b[pos + 1:pos + 5], "little"), pos + 5
        return int.from_bytes(b[pos + 1:pos + 9], "little"), pos + 9

    cnt, pos = cs(0)
    out = []
    for _ in range(cnt):
        ln, pos = cs(pos)
        out.append(b[pos:pos + ln])
        pos += ln
    return out


def pubkey_from_input(spk: bytes, script_sig: bytes, witness: list[bytes]):
    """The BIP's 'Inputs For Shared Secret Derivation'; None when the input does not count."""
    if len(spk) == 25 and spk[:3] == b"\x76\xa9\x14" and spk[23:] == b"\x88\xac":  # p2pkh
        want = spk[3:23]
        for i in range(len(script_sig), 32, -1):
            if i - 33 >= 0 and hash160(script_sig[i - 33:i]) == want:
                return parse33(script_sig[i - 33:i])
        return None
    if len(spk) == 23 and spk[:2] == b"\xa9\x14" and spk[22:] == b"\x87":  # p2sh: only p2sh-p2wpkh counts
        redeem = script_sig[1:]
        if len(redeem) == 22 and redeem[:2] == b"\x00\x14" and witness:
            return parse33(witness[-1]) if len(witness[-1]) == 33 else None
        return None
    if len(spk) == 22 and spk[:2] == b"\x00\x14":  # p2wpkh
        return parse33(witness[-1]) if witness and len(witness[-1]) == 33 else None
    if len(spk) == 34 and spk[:2] == b"\x51\x20":  # p2tr
        stack = list(witness)
        if not stack:
            return None
        if len(stack) > 1 and stack[-1][:1] == b"\x50":
            stack.pop()
        if len(stack) > 1 and stack[-1][1:33] == NUMS_H:
            return None
        return EC.lift_x(int.from_bytes(spk[2:], "big"))
    return None


def selftest(path: str, heavy: bool = True) -> tuple[int, list[str]]:
    """Replay send_and_receive_test_vectors.json (sender and scanner); (checked, failures).
    ``heavy=False`` leaves out the one scan over 2324 outputs (about 5000 reference multiplications)."""
    with open(path) as f:
        data = json.load(f)
    bad: list[str] = []
    cnt = 0
    for t in data:
        name = t["comment"][:60]
        for s in t["sending"]:
            cnt += 1
            keys, outpoints = [], []
            for vin in s["given"]["vin"]:
                outpoints.append(bytes.fromhex(vin["txid"])[::-1] + vin["vout"].to_bytes(4, "little"))
                spk = bytes.fromhex(vin["prevout"]["scriptPubKey"]["hex"])
                P = pubkey_from_input(spk, bytes.fromhex(vin["scriptSig"]), _witness_stack(vin["txinwitness"]))
                if P is not None:
                    keys.append((int(vin["private_key"], 16), len(spk) == 34))
            recipients = []
            for r in s["given"]["recipients"]:
                dec = decode_address(r["address"])
                if dec is None or ser33(dec[0]).hex() != r["scan_pub_key"] or ser33(dec[1]).hex() != r["spend_pub_key"]:
                    bad.append(f"{name}: address decoding")
                    continue
                if encode_address(*dec) != r["address"]:
                    bad.append(f"{name}: address encoding")
                recipients += [dec] * r.get("count", 1)
            want_sets = [sorted(x) for x in s["expected"]["outputs"]]
            try:
                got = [o.hex() for o in create_outputs(keys, outpoints, recipients)] if keys else []
            except ValueError:
                got = []
            if sorted(got) not in want_sets:
                bad.append(f"{name}: sender outputs")
            if got and keys:
                for alt in s["expected"]["outputs"]:
                    if not is_valid_output_set([bytes.fromhex(x) for x in alt], keys, outpoints, recipients):
                        bad.append(f"{name}: published alternative not recognised")
            want_sum = s["expected"].get("input_private_key_sum")
            if want_sum and prv_key_sum(keys) != int(want_sum, 16):
                bad.append(f"{name}: input_private_key_sum")
        for r in t["receiving"]:
            if not heavy and len(r["given"]["outputs"]) > 500:
                continue
            cnt += 1
            g = r["given"]
            pts, outpoints = [], []
            for vin in g["vin"]:
                outpoints.append(bytes.fromhex(vin["txid"])[::-1] + vin["vout"].to_bytes(4, "little"))
                spk = bytes.fromhex(vin["prevout"]["scriptPubKey"]["hex"])
                P = pubkey_from_input(spk, bytes.fromhex(vin["scriptSig"]), _witness_stack(vin["txinwitness"]))
                if P is not None:
                    pts.append(P)
            b_scan = int(g["key_material"]["scan_priv_key"], 16)
            b_spend = int(g["key_material"]["spend_priv_key"], 16)
            B_spend = EC.mul_nored(b_spend, G)
            A_sum = None
            for P in pts:
                A_sum = EC.add(A_sum, P)
            exp = r["expected"]
            if A_sum is None:
                found = []
            else:
                ih = input_hash(outpoints, A_sum)
                found = scanning(b_scan, B_spend, A_sum, ih, [bytes.fromhex(x) for x in g["outputs"]], g.get("labels", []))
            if "n_outputs" in exp:
                if len(found) != exp["n_outputs"]:
                    bad.append(f"{name}: scanner count {len(found)} != {exp['n_outputs']}")
            else:
                want = sorted((o["pub_key"], o["priv_key_tweak"]) for o in exp["outputs"])
                if sorted((x.hex(), f"{tw:064x}") for x, tw in found) != want:
                    bad.append(f"{name}: scanner outputs")
            for x, tw in found[:50]:
                if ser32(EC.mul_nored((b_spend + tw) % n, G)) != x:
                    bad.append(f"{name}: spend key does not open the output")
            want_addr = exp.get("addresses")
            if want_addr:
                got_addr = [encode_address(EC.mul_nored(b_scan, G), B_spend)] + \
                           [encode_address(EC.mul_nored(b_scan, G), labeled_spend_key(b_scan, B_spend, m)) for m in g.get("labels", [])]
                if got_addr != want_addr:
                    bad.append(f"{name}: addresses")
    return cnt, bad
