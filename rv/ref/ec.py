"""Reference elliptic-curve arithmetic (no btclib import).

Short Weierstrass curves y^2 = x^3 + a x + b over a prime field, affine
coordinates, infinity is ``None``, inverses by ``pow(x, -1, p)``, scalar
multiplication by double-and-add.  Deliberately the slowest and most obviously
correct formulation.  For toy curves: the brute-force group.
"""

from __future__ import annotations

from math import isqrt

Pt = "tuple[int, int] | None"


class RefCurve:
    def __init__(self, p: int, a: int, b: int, G=None, n: int | None = None, name: str = ""):
        self.p, self.a, self.b, self.G, self.n, self.name = p, a % p, b % p, G, n, name

    # ------------------------------------------------------------------ law
    def on_curve(self, P) -> bool:
        if P is None:
            return True
        x, y = P
        return 0 <= x < self.p and 0 <= y < self.p and (y * y - (x * x * x + self.a * x + self.b)) % self.p == 0

    def neg(self, P):
        return None if P is None else (P[0], (-P[1]) % self.p)

    def add(self, P, Q):
        p = self.p
        if P is None:
            return Q
        if Q is None:
            return P
        if P[0] == Q[0]:
            if (P[1] + Q[1]) % p == 0:
                return None
            lam = (3 * P[0] * P[0] + self.a) * pow(2 * P[1], -1, p) % p
        else:
            lam = (Q[1] - P[1]) * pow(Q[0] - P[0], -1, p) % p
        x = (lam * lam - P[0] - Q[0]) % p
        return x, (lam * (P[0] - x) - P[1]) % p

    def mul(self, k: int, P):
        """k*P by double-and-add; k any integer (negative handled through the opposite)."""
        if P is None:
            return None
        if k < 0:
            k, P = -k, self.neg(P)
        if self.n is not None:
            k %= self.n
        R = None
        while k:
            if k & 1:
                R = self.add(R, P)
            P = self.add(P, P)
            k >>= 1
        return R

    def mul_nored(self, k: int, P):
        """k*P without reducing k modulo n (for order computations)."""
        R = None
        while k:
            if k & 1:
                R = self.add(R, P)
            P = self.add(P, P)
            k >>= 1
        return R

    def lincomb(self, scalars, points):
        R = None
        for k, P in zip(scalars, points):
            R = self.add(R, self.mul(k, P))
        return R

    # ------------------------------------------------------------- roots
    def sqrt(self, v: int):
        """A square root of v modulo p or None (brute force below 2000, else Tonelli-Shanks)."""
        p = self.p
        v %= p
        if v == 0:
            return 0
        if p < 2000:
            for y in range(p):
                if y * y % p == v:
                    return y
            return None
        if pow(v, (p - 1) // 2, p) != 1:
            return None
        if p % 4 == 3:
            return pow(v, (p + 1) // 4, p)
        q, s = p - 1, 0
        while q % 2 == 0:
            q //= 2
            s += 1
        z = 2
        while pow(z, (p - 1) // 2, p) != p - 1:
            z += 1
        m, c, t, r = s, pow(z, q, p), pow(v, q, p), pow(v, (q + 1) // 2, p)
        while t != 1:
            i, t2 = 0, t
            while t2 != 1:
                t2 = t2 * t2 % p
                i += 1
            bb = pow(c, 1 << (m - i - 1), p)
            m, c = i, bb * bb % p
            t, r = t * c % p, r * bb % p
        return r

    def lift_x(self, x: int, odd: int | None = None):
        """Point with this x (even y unless ``odd``), or None."""
        if not 0 <= x < self.p:
            return None
        y = self.sqrt(x * x * x + self.a * x + self.b)
        if y is None:
            return None
        if odd is not None and (y & 1) != odd:
            y = (self.p - y) % self.p
        if odd is None and y & 1:
            y = self.p - y
        return x, y

    # -------------------------------------------------------- brute force
    def all_points(self):
        """Every affine point, by trying every (x, y) (toy fields only)."""
        p = self.p
        sq: dict[int, list[int]] = {}
        for y in range(p):
            sq.setdefault(y * y % p, []).append(y)
        pts = []
        for x in range(p):
            for y in sq.get((x * x * x + self.a * x + self.b) % p, []):
                pts.append((x, y))
        return pts

    def order_of(self, P) -> int:
        k, Q = 1, P
        while Q is not None:
            Q = self.add(Q, P)
            k += 1
        return k

    def subgroup(self, G):
        """[None, G, 2G, ...] by repeated addition."""
        out, Q = [None], G
        while Q is not None:
            out.append(Q)
            Q = self.add(Q, G)
        return out

    def discriminant_nonzero(self) -> bool:
        return (4 * self.a**3 + 27 * self.b * self.b) % self.p != 0

    # -------------------------------------------------------------- SEC 1
    def sec(self, P, compressed: bool = True) -> bytes:
        size = (self.p.bit_length() + 7) // 8
        x, y = P
        if compressed:
            return bytes([2 + (y & 1)]) + x.to_bytes(size, "big")
        return b"\x04" + x.to_bytes(size, "big") + y.to_bytes(size, "big")

    def from_sec(self, b: bytes, hybrid: bool = False):
        """Point or None for malformed octets (SEC 1 2.3.4; hybrid per X9.62 if allowed)."""
        size = (self.p.bit_length() + 7) // 8
        if len(b) == size + 1 and b[0] in (2, 3):
            x = int.from_bytes(b[1:], "big")
            return self.lift_x(x, b[0] & 1)
        if len(b) == 2 * size + 1 and (b[0] == 4 or (hybrid and b[0] in (6, 7))):
            x, y = int.from_bytes(b[1 : size + 1], "big"), int.from_bytes(b[size + 1 :], "big")
            if not (x < self.p and y < self.p and self.on_curve((x, y))):
                return None
            if b[0] in (6, 7) and (y & 1) != (b[0] & 1):
                return None
            return x, y
        return None


def is_prime(n: int) -> bool:
    """Deterministic: trial division for small n, Miller-Rabin with fixed bases otherwise
    (the bases cover n < 3.3e24; beyond that 40 further fixed bases)."""
    if n < 2:
        return False
    small = (2, 3, 5, 7, 11, 13, 17, 19, 23, 29, 31, 37, 41)
    for q in small:
        if n % q == 0:
            return n == q
    if n < 1_000_000:
        return all(n % i for i in range(43, isqrt(n) + 1, 2))
    d, s = n - 1, 0
    while d % 2 == 0:
        d //= 2
        s += 1
    bases = small if n < 3_317_044_064_679_887_385_961_981 else small + tuple(range(43, 200, 4))
    for a in bases:
        x = pow(a, d, n)
        if x in (1, n - 1):
            continue
        for _ in range(s - 1):
            x = x * x % n
            if x == n - 1:
                break
        else:
            return False
    return True


def toy_curves(p: int):
    """Yield (RefCurve, G, n, true_cofactor) for every (a, b) with non-zero discriminant
    and every prime n dividing the group order, with one generator of a subgroup of order n."""
    for a in range(p):
        for b in range(p):
            c = RefCurve(p, a, b)
            if not c.discriminant_nonzero():
                continue
            pts = c.all_points()
            N = len(pts) + 1
            primes = [q for q in range(2, N + 1) if N % q == 0 and is_prime(q)]
            for n in primes:
                G = None
                for P in pts:
                    # order exactly n: n*P == INF and P != INF (n prime)
                    if c.mul_nored(n, P) is None:
                        G = P
                        break
                if G is None:
                    continue
                yield RefCurve(p, a, b, G, n), G, n, N // n, N


# secp256k1, for models that need it directly
SECP256K1 = RefCurve(
    0xFFFFFFFFFFFFFFFFFFFFFFFFFFFFFFFFFFFFFFFFFFFFFFFFFFFFFFFEFFFFFC2F,
    0,
    7,
    (
        0x79BE667EF9DCBBAC55A06295CE870B07029BFCDB2DCE28D959F2815B16F81798,
        0x483ADA7726A3C4655DA4FBFC0E1108A8FD17B448A68554199C47D08FFB10D4B8,
    ),
    0xFFFFFFFFFFFFFFFFFFFFFFFFFFFFFFFEBAAEDCE6AF48A03BBFD25E8CD0364141,
    "secp256k1",
)
