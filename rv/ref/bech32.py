"""Reference Bech32 / Bech32m and segwit address rules (BIP173, BIP350).  Never imports btclib.

A transcription of the reference decoder published with BIP350 (``segwit_addr.py``),
kept in its original, unoptimised shape.  The only addition is the ``limit``
argument: BIP173 caps a Bech32 string at 90 characters, BIP352 (silent payments)
reuses Bech32m with a cap of 1023.
"""

from __future__ import annotations

CHARSET = "qpzry9x8gf2tvdw0s3jn54khce6mua7l"
BECH32_CONST = 1
BECH32M_CONST = 0x2BC830A3
BECH32, BECH32M = "bech32", "bech32m"


def polymod(values) -> int:
    generator = [0x3B6A57B2, 0x26508E6D, 0x1EA119FA, 0x3D4233DD, 0x2A1462B3]
    chk = 1
    for value in values:
        top = chk >> 25
        chk = (chk & 0x1FFFFFF) << 5 ^ value
        for i in range(5):
            chk ^= generator[i] if ((top >> i) & 1) else 0
    return chk


def hrp_expand(hrp: str) -> list[int]:
    return [ord(x) >> 5 for x in hrp] + [0] + [ord(x) & 31 for x in hrp]


def verify_checksum(hrp: str, data: list[int]):
    const = polymod(hrp_expand(hrp) + data)
    if const == BECH32_CONST:
        return BECH32
    if const == BECH32M_CONST:
        return BECH32M
    return None


def create_checksum(hrp: str, data: list[int], spec: str) -> list[int]:
    values = hrp_expand(hrp) + data
    const = BECH32M_CONST if spec == BECH32M else BECH32_CONST
    pm = polymod(values + [0, 0, 0, 0, 0, 0]) ^ const
    return [(pm >> 5 * (5 - i)) & 31 for i in range(6)]


def bech32_encode(hrp: str, data: list[int], spec: str) -> str:
    combined = data + create_checksum(hrp, data, spec)
    return hrp + "1" + "".join(CHARSET[d] for d in combined)


def bech32_decode(bech: str, limit: int = 90):
    """(hrp, data-without-checksum, spec) or (None, None, None)."""
    if (any(ord(x) < 33 or ord(x) > 126 for x in bech)) or (bech.lower() != bech and bech.upper() != bech):
        return (None, None, None)
    bech = bech.lower()
    pos = bech.rfind("1")
    if pos < 1 or pos + 7 > len(bech) or len(bech) > limit:
        return (None, None, None)
    if not all(x in CHARSET for x in bech[pos + 1:]):
        return (None, None, None)
    hrp = bech[:pos]
    data = [CHARSET.find(x) for x in bech[pos + 1:]]
    spec = verify_checksum(hrp, data)
    if spec is None:
        return (None, None, None)
    return (hrp, data[:-6], spec)


def convertbits(data, frombits: int, tobits: int, pad: bool = True):
    """General power-of-2 base conversion; None on invalid input or padding."""
    acc = 0
    bits = 0
    ret = []
    maxv = (1 << tobits) - 1
    max_acc = (1 << (frombits + tobits - 1)) - 1
    for value in data:
        if value < 0 or (value >> frombits):
            return None
        acc = ((acc << frombits) | value) & max_acc
        bits += frombits
        while bits >= tobits:
            bits -= tobits
            ret.append((acc >> bits) & maxv)
    if pad:
        if bits:
            ret.append((acc << (tobits - bits)) & maxv)
    elif bits >= frombits or ((acc << (tobits - bits)) & maxv):
        return None
    return ret


def segwit_decode(hrp: str, addr: str):
    """(witness version, program bytes) or (None, None) - BIP350 ``decode``."""
    hrpgot, data, spec = bech32_decode(addr)
    if hrpgot != hrp:
        return (None, None)
    if not data:  # the published code indexes data[0]; an empty data part is no address
        return (None, None)
    decoded = convertbits(data[1:], 5, 8, False)
    if decoded is None or len(decoded) < 2 or len(decoded) > 40:
        return (None, None)
    if data[0] > 16:
        return (None, None)
    if data[0] == 0 and len(decoded) != 20 and len(decoded) != 32:
        return (None, None)
    if (data[0] == 0 and spec != BECH32) or (data[0] != 0 and spec != BECH32M):
        return (None, None)
    return (data[0], bytes(decoded))


def segwit_encode(hrp: str, witver: int, witprog: bytes):
    """Address string, or None when (version, program) is not encodable - BIP350 ``encode``."""
    spec = BECH32 if witver == 0 else BECH32M
    if not 0 <= witver <= 31:
        return None
    ret = bech32_encode(hrp, [witver] + convertbits(witprog, 8, 5), spec)
    if segwit_decode(hrp, ret) == (None, None):
        return None
    return ret
