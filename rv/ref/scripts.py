"""Hand-written output-script templates and a small descriptor model (no btclib import).

Two layers:

* the script templates of BIP381-BIP387 and Bitcoin Core's doc/descriptors.md, written
  as literal byte strings (``pk``, ``pkh``, ``wpkh``, ``sh``, ``wsh``, ``multi``,
  ``sortedmulti``, ``tr``, ``multi_a``, ``sortedmulti_a``, ``rawtr``, ``combo``;
  ``addr`` and ``raw`` are their argument);
* a descriptor as data (``Key`` / tuples), with a writer (data -> text), an evaluator
  (data, index -> the scriptPubKey bytes, by BIP32 derivation with ``rv.ref.bip32``,
  BIP327/328/390 aggregation with ``rv.ref.bip390`` and BIP341 commitments with
  ``rv.ref.taproot``) and a reader (text -> data) that exists so that the evaluator
  can be self-tested on the published descriptor vectors.

Nodes:  ("pk"|"pkh"|"wpkh"|"combo"|"rawtr", Key) | ("sh"|"wsh", node)
        | ("multi"|"sortedmulti", k, [Key]) | ("tr", Key, tree | None)
        | ("addr", address) | ("raw", hex)
Trees:  ("pk", Key) | ("multi_a"|"sortedmulti_a", k, [Key]) | [tree, tree]
"""

from __future__ import annotations

import hashlib
import re

from . import base58 as r58
from . import bip32 as rb
from . import bip390 as r390
from . import taproot as rt

HARDENED = 0x80000000


# ------------------------------------------------------------------ templates
def sha256(b: bytes) -> bytes:
    return hashlib.sha256(b).digest()


def hash160(b: bytes) -> bytes:
    return hashlib.new("ripemd160", hashlib.sha256(b).digest()).digest()


def push(data: bytes) -> bytes:
    n = len(data)
    if n < 0x4C:
        return bytes([n]) + data
    if n <= 0xFF:
        return b"\x4c" + bytes([n]) + data
    if n <= 0xFFFF:
        return b"\x4d" + n.to_bytes(2, "little") + data
    return b"\x4e" + n.to_bytes(4, "little") + data


def small_int(k: int) -> bytes:
    """OP_1 .. OP_16."""
    if not 1 <= k <= 16:
        raise ValueError("no op code for this number")
    return bytes([0x50 + k])


def t_pk(key: bytes) -> bytes:
    return push(key) + b"\xac"  # <KEY> OP_CHECKSIG


def t_pkh(key: bytes) -> bytes:
    return b"\x76\xa9\x14" + hash160(key) + b"\x88\xac"  # DUP HASH160 <h> EQUALVERIFY CHECKSIG


def t_wpkh(key: bytes) -> bytes:
    return b"\x00\x14" + hash160(key)


def t_sh(script: bytes) -> bytes:
    return b"\xa9\x14" + hash160(script) + b"\x87"  # HASH160 <h> EQUAL


def t_wsh(script: bytes) -> bytes:
    return b"\x00\x20" + sha256(script)


def t_multi(k: int, keys: list[bytes]) -> bytes:
    """<k> <KEY>... <n> OP_CHECKMULTISIG; the numbers as CScript's ``<< int64`` writes them (OP_1..OP_16, a push above)."""
    return rt.script_num(k) + b"".join(push(x) for x in keys) + rt.script_num(len(keys)) + b"\xae"


def t_sortedmulti(k: int, keys: list[bytes]) -> bytes:
    """BIP383 / BIP67: the keys in lexicographic order of their encodings."""
    return t_multi(k, sorted(keys))


def t_rawtr(xonly: bytes) -> bytes:
    return b"\x51\x20" + xonly


def t_multi_a(k: int, xonlys: list[bytes]) -> bytes:
    return rt.multi_a_leaf(k, xonlys)


def t_sortedmulti_a(k: int, xonlys: list[bytes]) -> bytes:
    """BIP387: the x-only keys in lexicographic order."""
    return rt.multi_a_leaf(k, sorted(xonlys))


def t_combo(key: bytes) -> list[bytes]:
    """BIP384: P2PK, P2PKH and, for a compressed key, P2WPKH and P2SH-P2WPKH."""
    out = [t_pk(key), t_pkh(key)]
    if len(key) == 33:
        out += [t_wpkh(key), t_sh(t_wpkh(key))]
    return out


# ---------------------------------------------------------------------- keys
class CannotDerive(Exception):
    """BIP32 has no answer (hardened step from a public key, invalid child)."""


class Unsupported(Exception):
    """The reader does not model this expression (miniscript)."""


class Key:
    """A KEY expression as data.

    kind 'hex'  : ``text`` is the hex as written, ``pub`` the 33/65 bytes (x-only: 02 || x, ``xonly`` True)
    kind 'wif'  : ``text`` is the WIF, ``pub`` the public key it stands for
    kind 'xkey' : ``text`` is the xpub/xprv as written, ``xkey`` its ``rb.XKey``, ``path`` a list of steps,
                  ``wildcard`` None | 0 | HARDENED
    kind 'musig': ``participants`` a list of Key, ``path`` / ``wildcard`` (unhardened) after the bracket
    A step of ``path`` is an int, or a tuple of ints for a BIP389 ``<a;b;...>`` step.
    ``marks`` spells the hardened marker of each hardened step in writing order (cycled).
    """

    def __init__(self, kind, text="", pub=None, xonly=False, xkey=None, path=(), wildcard=None, origin=None,
                 participants=(), marks="h"):
        self.kind, self.text, self.pub, self.xonly, self.xkey = kind, text, pub, xonly, xkey
        self.path, self.wildcard, self.origin = list(path), wildcard, origin
        self.participants, self.marks = list(participants), marks
        self._mi = 0

    @property
    def ranged(self) -> bool:
        return self.wildcard is not None or any(p.ranged for p in self.participants)

    def arity(self):
        ns = {len(s) for s in self.path if isinstance(s, tuple)}
        for p in self.participants:
            ns |= p.arity()
        return ns

    def choose(self, j: int) -> "Key":
        """The j-th single-path key of a multipath key."""
        return Key(self.kind, self.text, self.pub, self.xonly, self.xkey,
                   [s[j] if isinstance(s, tuple) else s for s in self.path], self.wildcard, self.origin,
                   [p.choose(j) for p in self.participants], self.marks)

    # -- writer
    def _step(self, i: int) -> str:
        if i < HARDENED:
            return str(i)
        m = self.marks[self._mi % len(self.marks)]
        self._mi += 1
        return str(i - HARDENED) + m

    def _steps(self, path) -> str:
        out = ""
        for s in path:
            if isinstance(s, tuple):
                out += "/<" + ";".join(self._step(i) for i in s) + ">"
            else:
                out += "/" + self._step(s)
        return out

    def write(self) -> str:
        self._mi = 0
        if self.kind == "musig":
            t = "musig(" + ",".join(p.write() for p in self.participants) + ")" + self._steps(self.path)
            return t + ("/*" if self.wildcard is not None else "")
        t = ""
        if self.origin is not None:
            t = "[" + self.origin[0] + self._steps(self.origin[1]) + "]"
        t += self.text
        if self.kind == "xkey":
            t += self._steps(self.path)
            if self.wildcard is not None:
                t += "/*" + (self.marks[self._mi % len(self.marks)] if self.wildcard else "")
        return t


class Deriver:
    """BIP32 derivation with a memo on (extended key, path): a pure function of both."""

    def __init__(self):
        self.memo: dict = {}
        self.agg_memo: dict = {}
        # public extended key -> its private counterpart, where the reader was handed one (BIP380: a descriptor
        # may name the same key privately elsewhere; whoever holds that private key can take a hardened step)
        self.known: dict = {}

    def derive(self, x: rb.XKey, path) -> rb.XKey:
        path = tuple(path)
        k = (x, path)
        if k in self.memo:
            return self.memo[k]
        if not path:
            return x
        parent = self.derive(x, path[:-1])
        try:
            c = rb.child(parent, path[-1])
        except (rb.HardenedFromPublic, rb.InvalidChild) as e:
            raise CannotDerive(str(e)) from e
        if len(self.memo) > 20000:
            self.memo.clear()
        self.memo[k] = c
        return c

    def sec(self, key: Key, index: int, neutered: bool = False) -> bytes:
        """The public key the expression stands for at ``index`` (33 or 65 bytes).

        ``neutered``: derive from the public half of a private extended key
        (what a reader that was not given the private keys back can do).
        """
        if key.kind in ("hex", "wif"):
            return key.pub
        if any(isinstance(s, tuple) for s in key.path):
            raise ValueError("multipath key: choose() a path first")
        path = list(key.path) + ([key.wildcard + index] if key.wildcard is not None else [])
        if key.kind == "xkey":
            x = key.xkey
            if neutered and x.is_private:
                x = rb.neuter(x)
            elif not neutered and not x.is_private:
                x = self.known.get(x, x)
            return rb.xkey_pubkey(self.derive(x, path))
        # musig: BIP390
        parts = [self.sec(p, index, neutered) for p in key.participants]
        if any(len(p) != 33 for p in parts):
            raise CannotDerive("uncompressed participant")
        agg = self.agg_memo.get(tuple(parts))  # a pure function of the participant keys
        if agg is None:
            try:
                agg = r390.musig_aggregate(parts)
            except r390.Fail as e:
                raise CannotDerive(str(e)) from e
            if len(self.agg_memo) > 5000:
                self.agg_memo.clear()
            self.agg_memo[tuple(parts)] = agg
        if not path:
            return agg
        ver, depth, fp, num, cc, k33 = r390.synthetic_xpub_fields(agg)
        return self.derive(rb.XKey(ver, depth, fp, num, cc, k33), path).key


# ----------------------------------------------------------------- evaluator
def node_keys(node) -> list:
    f = node[0]
    if f in ("pk", "pkh", "wpkh", "combo", "rawtr"):
        return [node[1]]
    if f in ("sh", "wsh"):
        return node_keys(node[1])
    if f in ("multi", "sortedmulti"):
        return list(node[2])
    if f == "tr":
        return [node[1]] + (tree_keys(node[2]) if node[2] is not None else [])
    return []


def tree_keys(tree) -> list:
    if isinstance(tree, list):
        return tree_keys(tree[0]) + tree_keys(tree[1])
    return [tree[1]] if tree[0] == "pk" else list(tree[2])


def is_ranged(node) -> bool:
    return any(k.ranged for k in node_keys(node))


def arity(node) -> set:
    ns = set()
    for k in node_keys(node):
        ns |= k.arity()
    return ns


def choose(node, j: int):
    """The j-th single-path descriptor of a multipath one (BIP389)."""
    f = node[0]
    if f in ("pk", "pkh", "wpkh", "combo", "rawtr"):
        return (f, node[1].choose(j))
    if f in ("sh", "wsh"):
        return (f, choose(node[1], j))
    if f in ("multi", "sortedmulti"):
        return (f, node[1], [k.choose(j) for k in node[2]])
    if f == "tr":
        return (f, node[1].choose(j), None if node[2] is None else choose_tree(node[2], j))
    return node


def choose_tree(tree, j: int):
    if isinstance(tree, list):
        return [choose_tree(tree[0], j), choose_tree(tree[1], j)]
    if tree[0] == "pk":
        return ("pk", tree[1].choose(j))
    return (tree[0], tree[1], [k.choose(j) for k in tree[2]])


def write(node) -> str:
    f = node[0]
    if f in ("pk", "pkh", "wpkh", "combo", "rawtr"):
        return f"{f}({node[1].write()})"
    if f in ("sh", "wsh"):
        return f"{f}({write(node[1])})"
    if f in ("multi", "sortedmulti"):
        return f"{f}({node[1]}," + ",".join(k.write() for k in node[2]) + ")"
    if f == "tr":
        return "tr(" + node[1].write() + ("" if node[2] is None else "," + write_tree(node[2])) + ")"
    if f in ("addr", "raw"):
        return f"{f}({node[1]})"
    raise ValueError(f)


def write_tree(tree) -> str:
    if isinstance(tree, list):
        return "{" + write_tree(tree[0]) + "," + write_tree(tree[1]) + "}"
    if tree[0] == "pk":
        return f"pk({tree[1].write()})"
    return f"{tree[0]}({tree[1]}," + ",".join(k.write() for k in tree[2]) + ")"


def leaf_script(dv: Deriver, leaf, index: int, neutered: bool) -> bytes:
    if leaf[0] == "pk":
        return rt.pk_leaf(dv.sec(leaf[1], index, neutered)[1:])
    xs = [dv.sec(k, index, neutered)[1:] for k in leaf[2]]
    return t_multi_a(leaf[1], xs) if leaf[0] == "multi_a" else t_sortedmulti_a(leaf[1], xs)


def bip341_tree(dv: Deriver, tree, index: int, neutered: bool):
    """The tree in ``rv.ref.taproot``'s shape: (0xc0, script) leaves, [left, right] branches."""
    if isinstance(tree, list):
        return [bip341_tree(dv, tree[0], index, neutered), bip341_tree(dv, tree[1], index, neutered)]
    return (0xC0, leaf_script(dv, tree, index, neutered))


def scripts(dv: Deriver, node, index: int, decode_address=None, neutered: bool = False) -> list[bytes]:
    """The scriptPubKeys the descriptor describes at ``index`` (one, or combo()'s set in BIP384's order)."""
    f = node[0]
    if f == "pk":
        return [t_pk(dv.sec(node[1], index, neutered))]
    if f == "pkh":
        return [t_pkh(dv.sec(node[1], index, neutered))]
    if f == "wpkh":
        return [t_wpkh(dv.sec(node[1], index, neutered))]
    if f == "combo":
        return t_combo(dv.sec(node[1], index, neutered))
    if f == "sh":
        return [t_sh(scripts(dv, node[1], index, decode_address, neutered)[0])]
    if f == "wsh":
        return [t_wsh(scripts(dv, node[1], index, decode_address, neutered)[0])]
    if f == "multi":
        return [t_multi(node[1], [dv.sec(k, index, neutered) for k in node[2]])]
    if f == "sortedmulti":
        return [t_sortedmulti(node[1], [dv.sec(k, index, neutered) for k in node[2]])]
    if f == "rawtr":
        return [t_rawtr(dv.sec(node[1], index, neutered)[1:])]
    if f == "tr":
        internal = dv.sec(node[1], index, neutered)[1:]
        tree = None if node[2] is None else bip341_tree(dv, node[2], index, neutered)
        try:
            return [rt.taproot_output_script(internal, tree)]
        except rt.Fail as e:
            raise CannotDerive(str(e)) from e
    if f == "raw":
        return [bytes.fromhex(node[1])]
    if f == "addr":
        return [decode_address(node[1])]
    raise ValueError(f)


# -------------------------------------------------------------------- reader
_NUM = re.compile(r"(0|[1-9][0-9]*)(h|')?")
WIF_VERSIONS = {0x80, 0xEF}


def _split(args: str) -> list[str]:
    out, depth, start = [], 0, 0
    for i, c in enumerate(args):
        if c in "({":
            depth += 1
        elif c in ")}":
            depth -= 1
        elif c == "," and depth == 0:
            out.append(args[start:i])
            start = i + 1
    out.append(args[start:])
    return out


def _read_steps(steps: list[str]) -> tuple[list, str]:
    path, marks = [], ""
    for s in steps:
        m = _NUM.fullmatch(s)
        if not m or int(m[1]) >= HARDENED:
            raise ValueError(f"not a derivation step: {s}")
        path.append(int(m[1]) + (HARDENED if m[2] else 0))
        marks += m[2] or ""
    return path, marks


def read_key(text: str, taproot: bool) -> Key:
    if text.startswith("musig("):
        close = text.rfind(")")
        parts = [read_key(t, False) for t in _split(text[6:close])]
        steps = text[close + 1:].split("/")[1:] if text[close + 1:] else []
        wildcard = None
        if steps and steps[-1] == "*":
            wildcard, steps = 0, steps[:-1]
        path, _ = _read_steps(steps)
        return Key("musig", participants=parts, path=path, wildcard=wildcard)
    origin, marks = None, ""
    if text.startswith("["):
        end = text.index("]")
        fp, *steps = text[1:end].split("/")
        opath, marks = _read_steps(steps)
        origin, text = (fp, opath), text[end + 1:]
    body, *steps = text.split("/")
    if re.fullmatch(r"[0-9a-fA-F]+", body) and len(body) in (64, 66, 130):
        if len(body) == 64:
            if not taproot:
                raise ValueError("x-only key outside tr()")
            return Key("hex", body, b"\x02" + bytes.fromhex(body), True, origin=origin, marks=marks or "h")
        return Key("hex", body, bytes.fromhex(body), origin=origin, marks=marks or "h")
    raw = r58.check_decode(body)
    if raw is None:
        raise ValueError("not a key")
    if len(raw) in (33, 34) and raw[0] in WIF_VERSIONS:
        q = int.from_bytes(raw[1:33], "big")
        Q = rb.point(q)
        if len(raw) == 34:
            pub = rb.ser_p(Q)
        else:
            pub = b"\x04" + Q[0].to_bytes(32, "big") + Q[1].to_bytes(32, "big")
        return Key("wif", body, pub, origin=origin, marks=marks or "h")
    x = rb.decode(body)
    wildcard = None
    if steps and steps[-1] in ("*", "*h", "*'"):
        wildcard = HARDENED if len(steps[-1]) == 2 else 0
        marks2 = steps[-1][1:]
        steps = steps[:-1]
    else:
        marks2 = ""
    path, m = _read_steps(steps)
    return Key("xkey", body, xkey=x, path=path, wildcard=wildcard, origin=origin, marks=(marks + m + marks2) or "h")


def read_tree(text: str):
    if text.startswith("{"):
        a, b = _split(text[1:-1])
        return [read_tree(a), read_tree(b)]
    name, _, rest = text.partition("(")
    args = _split(rest[:-1])
    if name == "pk":
        return ("pk", read_key(args[0], True))
    if name in ("multi_a", "sortedmulti_a"):
        return (name, int(args[0]), [read_key(a, True) for a in args[1:]])
    raise Unsupported(name)


def read(text: str, context: str = "top"):
    """Descriptor text (no checksum) -> node.  Raises Unsupported for miniscript."""
    name, _, rest = text.partition("(")
    if not rest.endswith(")"):
        raise ValueError("not an expression")
    args = _split(rest[:-1])
    if name in ("pk", "pkh", "wpkh", "combo"):
        return (name, read_key(args[0], False))
    if name == "rawtr":
        return (name, read_key(args[0], True))
    if name in ("sh", "wsh"):
        return (name, read(args[0], name))
    if name in ("multi", "sortedmulti"):
        return (name, int(args[0]), [read_key(a, False) for a in args[1:]])
    if name == "tr":
        return ("tr", read_key(args[0], True), read_tree(args[1]) if len(args) > 1 else None)
    if name in ("addr", "raw"):
        return (name, args[0])
    raise Unsupported(name)
