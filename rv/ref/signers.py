"""Reference signers over the secp256k1 arithmetic of rv.ref.core (no btclib import).

Signing is only a way to *produce* signatures the reference verifier accepts;
nonces come from a small precomputed pool (nonce reuse is irrelevant to whether
a signature verifies), so a signature costs no scalar multiplication.
"""

from __future__ import annotations

import hashlib

from .core import G, N, P, ec_add, ec_mul, lift_x, tagged_hash


def _h(*parts: bytes) -> int:
    return int.from_bytes(hashlib.sha256(b"|".join(parts)).digest(), "big")


class KeyPool:
    """A few private keys with their points, and a few nonces with theirs."""

    def __init__(self, n_keys: int = 6, n_nonces: int = 6, label: bytes = b"rv"):
        self.keys = []
        for i in range(n_keys):
            d = _h(label, b"key", bytes([i])) % (N - 1) + 1
            self.keys.append((d, ec_mul(d, G)))
        self.nonces = []
        for i in range(n_nonces):
            k = _h(label, b"nonce", bytes([i])) % (N - 1) + 1
            self.nonces.append((k, ec_mul(k, G)))

    def key(self, i: int):
        return self.keys[i % len(self.keys)]


def pub_compressed(Q) -> bytes:
    return bytes([2 + (Q[1] & 1)]) + Q[0].to_bytes(32, "big")


def pub_uncompressed(Q) -> bytes:
    return b"\x04" + Q[0].to_bytes(32, "big") + Q[1].to_bytes(32, "big")


def pub_hybrid(Q) -> bytes:
    return bytes([6 + (Q[1] & 1)]) + Q[0].to_bytes(32, "big") + Q[1].to_bytes(32, "big")


def pub_xonly(Q) -> bytes:
    return Q[0].to_bytes(32, "big")


def ecdsa_sign(pool: KeyPool, d: int, msg32: bytes, nonce_i: int = 0, low_s: bool = True):
    """(r, s) with a pooled nonce."""
    z = int.from_bytes(msg32, "big")
    for j in range(len(pool.nonces)):
        k, R = pool.nonces[(nonce_i + j) % len(pool.nonces)]
        r = R[0] % N
        s = pow(k, -1, N) * (z + r * d) % N
        if r and s:
            if low_s and s > N // 2:
                s = N - s
            return r, s
    raise AssertionError("no usable nonce")


def _der_int(v: int) -> bytes:
    b = v.to_bytes((v.bit_length() + 8) // 8 or 1, "big")  # leading zero iff high bit set
    return b"\x02" + bytes([len(b)]) + b


def der(r: int, s: int) -> bytes:
    body = _der_int(r) + _der_int(s)
    return b"\x30" + bytes([len(body)]) + body


def der_variants(r: int, s: int) -> dict[str, bytes]:
    """Encodings of the same (r, s) that are not strict DER but that a lax parser reads."""
    ri, si = _der_int(r), _der_int(s)
    rpad = b"\x02" + bytes([ri[1] + 1]) + b"\x00" + ri[2:]
    body = ri + si
    return {
        "r-padded": b"\x30" + bytes([len(rpad + si)]) + rpad + si,
        "long-form-length": b"\x30\x81" + bytes([len(body)]) + body,
        "trailing-garbage-inside": b"\x30" + bytes([len(body) + 1]) + body + b"\x00",
        "trailing-garbage-outside": der(r, s) + b"\x00",
        "int-long-form": b"\x30" + bytes([len(body) + 1]) + b"\x02\x81" + bytes([ri[1]]) + ri[2:] + si,
    }


def has_even_y(Q) -> bool:
    return Q[1] % 2 == 0


def schnorr_sign(d0: int, msg: bytes, aux: bytes = bytes(32)) -> bytes:
    """BIP340 reference signing (default signing algorithm)."""
    Pt = ec_mul(d0, G)
    d = d0 if has_even_y(Pt) else N - d0
    t = (d ^ int.from_bytes(tagged_hash(b"BIP0340/aux", aux), "big")).to_bytes(32, "big")
    k0 = int.from_bytes(tagged_hash(b"BIP0340/nonce", t + Pt[0].to_bytes(32, "big") + msg), "big") % N
    if k0 == 0:
        raise AssertionError("zero nonce")
    R = ec_mul(k0, G)
    k = k0 if has_even_y(R) else N - k0
    e = int.from_bytes(tagged_hash(b"BIP0340/challenge", R[0].to_bytes(32, "big") + Pt[0].to_bytes(32, "big") + msg), "big") % N
    return R[0].to_bytes(32, "big") + ((k + e * d) % N).to_bytes(32, "big")


class SchnorrPool:
    """Pre-tweaked keys and fixed nonces so that BIP340-valid signatures cost no multiplication."""

    def __init__(self, pool: KeyPool):
        self.items = []
        for d0, Q in pool.keys:
            d = d0 if has_even_y(Q) else N - d0
            self.items.append((d, Q[0].to_bytes(32, "big")))
        self.nonces = []
        for k0, R in pool.nonces:
            k = k0 if has_even_y(R) else N - k0
            self.nonces.append((k, R[0].to_bytes(32, "big")))

    def sign(self, d: int, px: bytes, msg: bytes, nonce_i: int = 0) -> bytes:
        k, rx = self.nonces[nonce_i % len(self.nonces)]
        e = int.from_bytes(tagged_hash(b"BIP0340/challenge", rx + px + msg), "big") % N
        return rx + ((k + e * d) % N).to_bytes(32, "big")


def taproot_tweak(internal_x: bytes, merkle_root: bytes | None):
    """(output x-only key, parity, tweak) per BIP341."""
    Pt = lift_x(int.from_bytes(internal_x, "big"))
    t = int.from_bytes(tagged_hash(b"TapTweak", internal_x + (merkle_root or b"")), "big")
    if t >= N or Pt is None:
        raise ValueError("tweak out of range")
    Q = ec_add(Pt, ec_mul(t, G))
    return Q[0].to_bytes(32, "big"), Q[1] & 1, t


def taproot_tweak_seckey(d0: int, merkle_root: bytes | None) -> int:
    Pt = ec_mul(d0, G)
    d = d0 if has_even_y(Pt) else N - d0
    t = int.from_bytes(tagged_hash(b"TapTweak", Pt[0].to_bytes(32, "big") + (merkle_root or b"")), "big")
    return (d + t) % N


__all__ = ["KeyPool", "SchnorrPool", "P"]
