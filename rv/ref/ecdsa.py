"""Reference ECDSA (no btclib import): SEC 1 v2 sections 4.1.3, 4.1.4, 4.1.6 over ``rv.ref.ec``.

Affine arithmetic, ``None`` for infinity, every step written as the standard
numbers it.  The message enters as its digest (an octet string); ``bits2int``
is the conversion of SEC 1 4.1.3 step 5 / RFC 6979 2.3.2: the leftmost
``nlen`` bits when the digest is longer than the order, the whole digest
otherwise.

Scalars multiplying a point that is known to lie in the subgroup of order n
are reduced modulo n; a point lifted from an x-coordinate (recovery) is
multiplied without any reduction, because on a curve with cofactor > 1 it
need not lie in that subgroup.
"""

from __future__ import annotations

from .ec import RefCurve


def bits2int(b: bytes, nlen: int) -> int:
    """The integer of the leftmost ``min(8*len(b), nlen)`` bits of ``b``."""
    x = int.from_bytes(b, "big")
    blen = 8 * len(b)
    if blen > nlen:
        x >>= blen - nlen
    return x


def challenge(digest: bytes, n: int) -> int:
    """e of SEC 1 4.1.3 step 5 (not reduced: every use below is modulo n)."""
    return bits2int(digest, n.bit_length())


class SignFailure(Exception):
    """SEC 1 4.1.3 step 3 (r == 0) or step 6 (s == 0): 'return to step 1'."""

    def __init__(self, reason: str):
        super().__init__(reason)
        self.reason = reason


def sign(rc: RefCurve, d: int, e: int, k: int):
    """(r, s, R) for private key d, challenge e and ephemeral key k (both in 1..n-1)."""
    n = rc.n
    assert 0 < d < n and 0 < k < n
    R = rc.mul_nored(k, rc.G)  # 1
    assert R is not None
    xR = R[0]  # 2
    r = xR % n  # 3
    if r == 0:
        raise SignFailure("r == 0")
    s = pow(k, -1, n) * (e + r * d) % n  # 6
    if s == 0:
        raise SignFailure("s == 0")
    return r, s, R


def verify(rc: RefCurve, Q, e: int, r: int, s: int) -> bool:
    """SEC 1 4.1.4 for a public key Q (a point of the subgroup of order n)."""
    n = rc.n
    if not (isinstance(r, int) and isinstance(s, int)):
        return False
    if not (1 <= r <= n - 1 and 1 <= s <= n - 1):  # 1
        return False
    w = pow(s, -1, n)
    u1 = e * w % n  # 4
    u2 = r * w % n
    R = rc.add(rc.mul_nored(u1, rc.G), rc.mul_nored(u2, Q))  # 5
    if R is None:
        return False
    v = R[0] % n  # 6, 7
    return v == r  # 8


def recover(rc: RefCurve, e: int, r: int, s: int, h: int):
    """SEC 1 4.1.6: every (j, y_parity, Q) for which (r, s) is a valid signature on e.

    j counts how many times n came off the x-coordinate, y_parity is the parity of
    the y-coordinate of the ephemeral point R that was lifted.
    """
    n, p = rc.n, rc.p
    out = []
    if not (1 <= r <= n - 1 and 1 <= s <= n - 1):
        return out
    r1 = pow(r, -1, n)
    for j in range(h + 1):  # 1
        x = r + j * n  # 1.1
        if x >= p:  # 1.2: not a field element
            continue
        R0 = rc.lift_x(x, 0)  # 1.3
        if R0 is None:
            continue
        if R0[1] == 0:
            cands = [R0]
        else:
            cands = [R0, rc.neg(R0)]
        for R in cands:
            if rc.mul_nored(n, R) is not None:  # 1.4
                continue
            sR = rc.mul_nored(s, R)
            eG = rc.mul_nored(e % n, rc.G)
            T = rc.add(sR, rc.neg(eG))
            Q = rc.mul_nored(r1, T)  # 1.6.1 (T is in the subgroup: R and G are)
            if Q is None:
                continue
            if verify(rc, Q, e, r, s):  # 1.6.2
                out.append((j, R[1] & 1, Q))
    return out


# Curve parameters needed by the oracle self-tests (FIPS 186-4 D.1.2, SEC 2); the
# self-test checks every published public key against d*G, which also checks these.
def _c(p, a, b, gx, gy, n, name):
    return RefCurve(p, a, b, (gx, gy), n, name)


P192 = _c(
    0xFFFFFFFFFFFFFFFFFFFFFFFFFFFFFFFEFFFFFFFFFFFFFFFF,
    -3,
    0x64210519E59C80E70FA7E9AB72243049FEB8DEECC146B9B1,
    0x188DA80EB03090F67CBF20EB43A18800F4FF0AFD82FF1012,
    0x07192B95FFC8DA78631011ED6B24CDD573F977A11E794811,
    0xFFFFFFFFFFFFFFFFFFFFFFFF99DEF836146BC9B1B4D22831,
    "nistp192",
)
P224 = _c(
    0xFFFFFFFFFFFFFFFFFFFFFFFFFFFFFFFF000000000000000000000001,
    -3,
    0xB4050A850C04B3ABF54132565044B0B7D7BFD8BA270B39432355FFB4,
    0xB70E0CBD6BB4BF7F321390B94A03C1D356C21122343280D6115C1D21,
    0xBD376388B5F723FB4C22DFE6CD4375A05A07476444D5819985007E34,
    0xFFFFFFFFFFFFFFFFFFFFFFFFFFFF16A2E0B8F03E13DD29455C5C2A3D,
    "nistp224",
)
P256 = _c(
    0xFFFFFFFF00000001000000000000000000000000FFFFFFFFFFFFFFFFFFFFFFFF,
    -3,
    0x5AC635D8AA3A93E7B3EBBD55769886BC651D06B0CC53B0F63BCE3C3E27D2604B,
    0x6B17D1F2E12C4247F8BCE6E563A440F277037D812DEB33A0F4A13945D898C296,
    0x4FE342E2FE1A7F9B8EE7EB4A7C0F9E162BCE33576B315ECECBB6406837BF51F5,
    0xFFFFFFFF00000000FFFFFFFFFFFFFFFFBCE6FAADA7179E84F3B9CAC2FC632551,
    "nistp256",
)
P384 = _c(
    0xFFFFFFFFFFFFFFFFFFFFFFFFFFFFFFFFFFFFFFFFFFFFFFFFFFFFFFFFFFFFFFFEFFFFFFFF0000000000000000FFFFFFFF,
    -3,
    0xB3312FA7E23EE7E4988E056BE3F82D19181D9C6EFE8141120314088F5013875AC656398D8A2ED19D2A85C8EDD3EC2AEF,
    0xAA87CA22BE8B05378EB1C71EF320AD746E1D3B628BA79B9859F741E082542A385502F25DBF55296C3A545E3872760AB7,
    0x3617DE4A96262C6F5D9E98BF9292DC29F8F41DBD289A147CE9DA3113B5F0B8C00A60B1CE1D7E819D7A431D7C90EA0E5F,
    0xFFFFFFFFFFFFFFFFFFFFFFFFFFFFFFFFFFFFFFFFFFFFFFFFC7634D81F4372DDF581A0DB248B0A77AECEC196ACCC52973,
    "nistp384",
)
P521 = _c(
    (1 << 521) - 1,
    -3,
    0x0051953EB9618E1C9A1F929A21A0B68540EEA2DA725B99B315F3B8B489918EF109E156193951EC7E937B1652C0BD3BB1BF073573DF883D2C34F1EF451FD46B503F00,
    0x00C6858E06B70404E9CD9E3ECB662395B4429C648139053FB521F828AF606B4D3DBAA14B5E77EFE75928FE1DC127A2FFA8DE3348B3C1856A429BF97E7E31C2E5BD66,
    0x011839296A789A3BC0045C8A5FB42C7D1BD998F54449579B446817AFBD17273E662C97EE72995EF42640C550B9013FAD0761353C7086A272C24088BE94769FD16650,
    0x01FFFFFFFFFFFFFFFFFFFFFFFFFFFFFFFFFFFFFFFFFFFFFFFFFFFFFFFFFFFFFFFFFA51868783BF2F966B7FCC0148F709A5D03BB5C9B8899C47AEBB6FB71E91386409,
    "nistp521",
)
NIST = {"nistp192": P192, "nistp224": P224, "nistp256": P256, "nistp384": P384, "nistp521": P521}
