"""GF(256) as SLIP-0039 uses it, and Lagrange interpolation over it.  No btclib import.

SLIP-0039: "The secret sharing is done over the finite field GF(256) ... the
Rijndael irreducible polynomial x^8 + x^4 + x^3 + x + 1 ... bytes are
interpreted as elements of the field" (same representation as AES, FIPS-197
section 4).  Addition is XOR.  Everything here is the slowest formulation:
no logarithm or exponential tables (those are what the implementation under
test uses), multiplication is the schoolbook carry-less product followed by a
reduction, the inverse is found by search.
"""

from __future__ import annotations

RIJNDAEL = 0x11B  # x^8 + x^4 + x^3 + x + 1


def add(a: int, b: int) -> int:
    return a ^ b


def mul(a: int, b: int) -> int:
    """Polynomial product of a and b over GF(2), reduced modulo the Rijndael polynomial."""
    if not (0 <= a < 256 and 0 <= b < 256):
        raise ValueError("not a field element")
    prod = 0
    for i in range(8):
        if (b >> i) & 1:
            prod ^= a << i
    for bit in range(14, 7, -1):
        if (prod >> bit) & 1:
            prod ^= RIJNDAEL << (bit - 8)
    return prod


def _inverses() -> list[int]:
    inv = [0] * 256
    for a in range(1, 256):
        found = [b for b in range(1, 256) if mul(a, b) == 1]
        if len(found) != 1:
            raise AssertionError(f"element {a} has {len(found)} inverses")
        inv[a] = found[0]
    return inv


_INV = _inverses()


def inv(a: int) -> int:
    if a == 0:
        raise ZeroDivisionError("0 has no inverse in GF(256)")
    return _INV[a]


def div(a: int, b: int) -> int:
    return mul(a, inv(b))


def interpolate(points, x: int) -> bytes:
    """f(x) for the polynomial of lowest degree through ``points`` = [(x_i, bytes y_i)], byte by byte.

    Lagrange: f(x) = sum_i y_i * prod_{j != i} (x - x_j) / (x_i - x_j); subtraction is XOR.
    """
    xs = [p[0] for p in points]
    if len(set(xs)) != len(xs):
        raise ValueError("x coordinates are not distinct")
    n = len(points[0][1])
    if any(len(p[1]) != n for p in points):
        raise ValueError("value vectors of different lengths")
    out = [0] * n
    for xi, yi in points:
        basis = 1
        for xj in xs:
            if xj != xi:
                basis = mul(basis, div(x ^ xj, xi ^ xj))
        for k in range(n):
            out[k] ^= mul(yi[k], basis)
    return bytes(out)


def on_one_polynomial(points, degree_bound: int) -> bool:
    """Do all points lie on one polynomial of degree < degree_bound (per byte)?"""
    if len(points) <= degree_bound:
        return True
    base = points[:degree_bound]
    return all(interpolate(base, x) == bytes(y) for x, y in points[degree_bound:])


def selftest() -> list[str]:
    """Published values (FIPS-197) and the field axioms, exhaustively."""
    bad = []
    # FIPS-197 section 4.2: {57} x {83} = {c1}; 4.2.1: {57} x {13} = {fe}, {57} x {02} = {ae}
    for a, b, c in ((0x57, 0x83, 0xC1), (0x57, 0x13, 0xFE), (0x57, 0x02, 0xAE), (0x57, 0x04, 0x47),
                    (0x57, 0x08, 0x8E), (0x57, 0x10, 0x07)):
        if mul(a, b) != c:
            bad.append(f"{a:02x}*{b:02x} != {c:02x}")
    # FIPS-197 section 5.1.1 example: the multiplicative inverse of {53} is {ca}
    if inv(0x53) != 0xCA:
        bad.append("inverse of 53")
    for a in range(256):
        for b in range(256):
            if mul(a, b) != mul(b, a):
                bad.append("commutativity")
                break
        if a and mul(a, inv(a)) != 1:
            bad.append("inverse")
        if mul(a, 1) != a or mul(a, 0) != 0:
            bad.append("identity")
    for a in (3, 0x57, 0xFF, 0x80):
        for b in (2, 0x83, 0xFE):
            for c in (1, 0x1B, 0xAA):
                if mul(a, b ^ c) != mul(a, b) ^ mul(a, c):
                    bad.append("distributivity")
                if mul(mul(a, b), c) != mul(a, mul(b, c)):
                    bad.append("associativity")
    # SLIP-0039's tables are built on the generator x + 1 = 3: it must have order 255
    g, seen = 1, set()
    for _ in range(255):
        seen.add(g)
        g = mul(g, 3)
    if len(seen) != 255 or g != 1:
        bad.append("3 is not a generator")
    # interpolation returns the defining points and a known line: f(x) = 5 + 7x
    pts = [(1, bytes([5 ^ mul(7, 1)])), (2, bytes([5 ^ mul(7, 2)]))]
    if interpolate(pts, 0) != bytes([5]) or interpolate(pts, 200) != bytes([5 ^ mul(7, 200)]):
        bad.append("interpolation of a line")
    return bad
