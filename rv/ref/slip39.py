"""Reference SLIP-0039 (Shamir's secret sharing for mnemonic codes).  No btclib import.

Written from https://github.com/satoshilabs/slips/blob/master/slip-0039.md in the most
literal way; field arithmetic and interpolation come from ``rv.ref.gf256`` (no tables),
the word list from ``rv.ref.wordlists``, PBKDF2 and HMAC from the standard library.

Share = id (15 bits) | ext (1) | e (4) | GI (4) | Gt (4) | g (4) | I (4) | t (4) |
        padded share value | checksum (30 bits), ten bits to a word.
Thresholds and the group count are encoded minus one.
"""

from __future__ import annotations

import hashlib
import hmac
from typing import NamedTuple

from . import gf256
from . import wordlists

SECRET_X = 255
DIGEST_X = 254
DIGEST_LEN = 4
MIN_WORDS = 20
BASE_ITER = 10000  # "the total number of iterations is 10000 * 2^e", a quarter of it per round
ROUNDS = 4


class Reject(Exception):
    """The specification says: abort."""

    def __init__(self, rule: str, detail: str = ""):
        super().__init__(f"{rule}: {detail}" if detail else rule)
        self.rule = rule


class Share(NamedTuple):
    identifier: int
    extendable: bool
    iteration_exponent: int
    group_index: int
    group_threshold: int  # true value, 1..16
    group_count: int  # true value, 1..16
    member_index: int
    member_threshold: int  # true value, 1..16
    value: bytes


# ----------------------------------------------------------------- RS1024
GEN = (0xE0E040, 0x1C1C080, 0x3838100, 0x7070200, 0xE0E0009, 0x1C0C2412, 0x38086C24, 0x3090FC48, 0x21B1F890, 0x3F3F120)


def rs1024_polymod(values) -> int:
    chk = 1
    for v in values:
        b = chk >> 20
        chk = ((chk & 0xFFFFF) << 10) ^ v
        for i in range(10):
            if (b >> i) & 1:
                chk ^= GEN[i]
    return chk


def customization(extendable: bool) -> list[int]:
    return [ord(c) for c in ("shamir_extendable" if extendable else "shamir")]


def rs1024_create(data, extendable: bool) -> list[int]:
    polymod = rs1024_polymod(customization(extendable) + list(data) + [0, 0, 0]) ^ 1
    return [(polymod >> (10 * (2 - i))) & 1023 for i in range(3)]


def rs1024_verify(data, extendable: bool) -> bool:
    return rs1024_polymod(customization(extendable) + list(data)) == 1


# ------------------------------------------------------------- share codec
def _bits(value: int, width: int) -> str:
    return bin(value)[2:].zfill(width)


def encode_indexes(s: Share) -> list[int]:
    n = len(s.value)
    if n < 16 or n % 2:
        raise Reject("value-length", str(n))
    value_words = (8 * n + 9) // 10
    bits = (_bits(s.identifier, 15) + ("1" if s.extendable else "0") + _bits(s.iteration_exponent, 4)
            + _bits(s.group_index, 4) + _bits(s.group_threshold - 1, 4) + _bits(s.group_count - 1, 4)
            + _bits(s.member_index, 4) + _bits(s.member_threshold - 1, 4)
            + _bits(int.from_bytes(s.value, "big"), 10 * value_words))
    data = [int(bits[i: i + 10], 2) for i in range(0, len(bits), 10)]
    return data + rs1024_create(data, s.extendable)


def encode(s: Share) -> str:
    wl = wordlists.load("slip39")
    return " ".join(wl[i] for i in encode_indexes(s))


def decode_indexes(idx) -> Share:
    n = len(idx)
    if n < MIN_WORDS:
        raise Reject("length", f"{n} words")
    bits = "".join(_bits(i, 10) for i in idx)
    ext = bits[15] == "1"
    if not rs1024_verify(idx, ext):
        raise Reject("checksum")
    value_bits = bits[40: 10 * (n - 3)]
    padding = len(value_bits) % 16
    if padding > 8:
        raise Reject("length", f"{n} words: padding of {padding} bits")
    if "1" in value_bits[:padding]:
        raise Reject("padding")
    nbytes = (len(value_bits) - padding) // 8
    if nbytes < 16 or nbytes % 2:
        raise Reject("value-length", str(nbytes))
    s = Share(int(bits[:15], 2), ext, int(bits[16:20], 2), int(bits[20:24], 2), int(bits[24:28], 2) + 1,
              int(bits[28:32], 2) + 1, int(bits[32:36], 2), int(bits[36:40], 2) + 1,
              int(value_bits[padding:], 2).to_bytes(nbytes, "big"))
    if s.group_threshold > s.group_count:
        raise Reject("group-threshold>count")
    return s


def decode(mnemonic: str) -> Share:
    im = wordlists.index_map("slip39")
    idx = []
    for w in mnemonic.split():
        if w not in im:
            raise Reject("unknown-word", w)
        idx.append(im[w])
    return decode_indexes(idx)


# --------------------------------------------------------------- encryption
def _round(i: int, passphrase: bytes, e: int, salt: bytes, r: bytes) -> bytes:
    return hashlib.pbkdf2_hmac("sha256", bytes([i]) + passphrase, salt + r, (BASE_ITER << e) // ROUNDS, len(r))


def _salt(identifier: int, extendable: bool) -> bytes:
    return b"" if extendable else b"shamir" + identifier.to_bytes(2, "big")


def _xor(a: bytes, b: bytes) -> bytes:
    return bytes(x ^ y for x, y in zip(a, b))


def encrypt(ms: bytes, passphrase: str, e: int, identifier: int, extendable: bool) -> bytes:
    half = len(ms) // 2
    l, r = ms[:half], ms[half:]
    salt = _salt(identifier, extendable)
    for i in range(ROUNDS):
        l, r = r, _xor(l, _round(i, passphrase.encode("ascii"), e, salt, r))
    return r + l


def decrypt(ems: bytes, passphrase: str, e: int, identifier: int, extendable: bool) -> bytes:
    half = len(ems) // 2
    l, r = ems[:half], ems[half:]
    salt = _salt(identifier, extendable)
    for i in reversed(range(ROUNDS)):
        l, r = r, _xor(l, _round(i, passphrase.encode("ascii"), e, salt, r))
    return r + l


# ----------------------------------------------------------- secret sharing
def digest(random_part: bytes, secret: bytes) -> bytes:
    return hmac.new(random_part, secret, hashlib.sha256).digest()[:DIGEST_LEN]


def split_secret(t: int, n: int, secret: bytes, randbytes) -> list[bytes]:
    """SplitSecret(T, N, S): the share values y_0 .. y_{N-1}."""
    if not 1 <= t <= n <= 16:
        raise Reject("threshold", f"{t} of {n}")
    if t == 1:
        return [secret] * n
    r = randbytes(len(secret) - DIGEST_LEN)
    base = [(i, randbytes(len(secret))) for i in range(t - 2)]
    pts = base + [(DIGEST_X, digest(r, secret) + r), (SECRET_X, secret)]
    return [v for _, v in base] + [gf256.interpolate(pts, x) for x in range(t - 2, n)]


def recover_secret(t: int, shares) -> bytes:
    """RecoverSecret(T, [(x_i, y_i)]) with the digest verified."""
    if t == 1:
        return shares[0][1]
    s = gf256.interpolate(shares, SECRET_X)
    d = gf256.interpolate(shares, DIGEST_X)
    if d[:DIGEST_LEN] != digest(d[DIGEST_LEN:], s):
        raise Reject("digest")
    return s


def polynomial_report(t: int, points) -> tuple[bytes | None, str]:
    """What a complete set of share values of one split shows.

    -> (shared secret, "") when all ``points`` lie on one polynomial of degree < t whose value at
    254 is a valid digest share of its value at 255 (t == 1: all values equal); else (None, why).
    """
    if t == 1:
        if len({bytes(y) for _, y in points}) != 1:
            return None, "threshold 1 but the share values differ"
        return bytes(points[0][1]), ""
    if len(points) < t:
        return None, "fewer points than the threshold"
    if not gf256.on_one_polynomial(points, t):
        return None, f"the share values do not lie on one polynomial of degree < {t}"
    s = gf256.interpolate(points[:t], SECRET_X)
    d = gf256.interpolate(points[:t], DIGEST_X)
    if d[:DIGEST_LEN] != digest(d[DIGEST_LEN:], s):
        return None, "f(254) is not the digest share of f(255)"
    return s, ""


def generate(secret: bytes, groups, group_threshold: int, passphrase: str, e: int, extendable: bool,
             randbytes) -> list[list[str]]:
    if len(secret) < 16 or len(secret) % 2:
        raise Reject("secret-length")
    identifier = int.from_bytes(randbytes(2), "big") & 0x7FFF
    ems = encrypt(secret, passphrase, e, identifier, extendable)
    out = []
    for gi, gv in enumerate(split_secret(group_threshold, len(groups), ems, randbytes)):
        mt, mc = groups[gi]
        out.append([encode(Share(identifier, extendable, e, gi, group_threshold, len(groups), mi, mt, v))
                    for mi, v in enumerate(split_secret(mt, mc, gv, randbytes))])
    return out


def combine_shares(shares: list[Share], passphrase: str) -> bytes:
    """The recovery procedure with the checks the specification (and its vectors) list.

    Exactly the threshold number of groups, each with exactly its member threshold of shares
    (vectors 14-16; the reference implementation refuses both too few and too many).
    """
    if not shares:
        raise Reject("empty")
    first = shares[0]
    for f in ("identifier", "extendable", "iteration_exponent", "group_threshold", "group_count"):
        if len({getattr(s, f) for s in shares}) != 1:
            raise Reject("mismatch:" + f)
    if len({len(s.value) for s in shares}) != 1:
        raise Reject("mismatch:length")
    if first.group_threshold > first.group_count:
        raise Reject("group-threshold>count")
    groups: dict[int, list[Share]] = {}
    for s in shares:
        groups.setdefault(s.group_index, []).append(s)
    if len(groups) != first.group_threshold:
        raise Reject("group-count", f"{len(groups)} groups, threshold {first.group_threshold}")
    gshares = []
    for gi, members in groups.items():
        if len({m.member_threshold for m in members}) != 1:
            raise Reject("mismatch:member_threshold")
        if len({m.member_index for m in members}) != len(members):
            raise Reject("duplicate-member-index")
        if len(members) != members[0].member_threshold:
            raise Reject("member-count", f"group {gi}")
        gshares.append((gi, recover_secret(members[0].member_threshold, [(m.member_index, m.value) for m in members])))
    ems = recover_secret(first.group_threshold, gshares)
    return decrypt(ems, passphrase, first.iteration_exponent, first.identifier, first.extendable)


def combine(mnemonics, passphrase: str) -> bytes:
    if any(not 32 <= ord(c) <= 126 for c in passphrase):
        raise Reject("passphrase")
    return combine_shares([decode(m) for m in mnemonics], passphrase)
