"""Reference models of Bitcoin's text formats above the two codecs.  Never imports btclib.

* ``NetData``: an independent reader of the network data files shipped with the
  library (``btclib/_data/<network>.json``).  The data *are* the specification of
  the five networks (version bytes, HRPs, extended-key versions); what is judged
  is how the code uses them.
* Base58 addresses, WIF (Bitcoin Core ``key_io.cpp``: DecodeDestination / DecodeSecret),
  segwit addresses (BIP173/BIP350), extended keys (BIP32 serialization format and its
  "invalid extended keys" rules, SLIP132 versions), silent-payment addresses (BIP352),
  output-script templates (Core ``Solver`` / ``IsWitnessProgram``), BIP21 URIs.
"""

from __future__ import annotations

import json
import os
import re

from . import base58 as r58
from . import bech32 as r32
from .ec import RefCurve

NETWORK_NAMES = ("mainnet", "testnet", "regtest", "signet", "testnet4")

P = 2**256 - 2**32 - 977
N = 0xFFFFFFFFFFFFFFFFFFFFFFFFFFFFFFFEBAAEDCE6AF48A03BBFD25E8CD0364141
GX = 0x79BE667EF9DCBBAC55A06295CE870B07029BFCDB2DCE28D959F2815B16F81798
GY = 0x483ADA7726A3C4655DA4FBFC0E1108A8FD17B448A68554199C47D08FFB10D4B8
K1 = RefCurve(P, 0, 7, (GX, GY), N, "secp256k1")

XPRV_FIELDS = ("bip32_prv", "slip132_p2wpkh_prv", "slip132_p2wpkh_p2sh_prv", "slip132_p2wsh_prv", "slip132_p2wsh_p2sh_prv")
XPUB_FIELDS = ("bip32_pub", "slip132_p2wpkh_pub", "slip132_p2wpkh_p2sh_pub", "slip132_p2wsh_pub", "slip132_p2wsh_p2sh_pub")
BYTE_FIELDS = ("wif", "p2pkh", "p2sh") + XPRV_FIELDS + XPUB_FIELDS


def valid_pubkey33(b: bytes) -> bool:
    return len(b) == 33 and b[0] in (2, 3) and K1.lift_x(int.from_bytes(b[1:], "big")) is not None


class NetData:
    """The network tables, read straight from the json files."""

    def __init__(self, repo: str | None = None):
        repo = repo or os.environ.get("VERIF_REPO", "/repo")
        self.dir = os.path.join(repo, "btclib", "_data")
        self.nets: dict[str, dict] = {}
        for name in NETWORK_NAMES:
            with open(os.path.join(self.dir, name + ".json"), encoding="ascii") as f:
                raw = json.load(f)
            d = {"hrp": raw["hrp"], "network_type": raw.get("network_type", "test")}
            for k in BYTE_FIELDS:
                d[k] = bytes.fromhex(raw[k])
            self.nets[name] = d

    def value(self, net: str, field: str):
        return self.nets[net][field]

    def ntype(self, net: str) -> str:
        return self.nets[net]["network_type"]

    def sharing(self, field: str, value) -> frozenset:
        """Networks whose ``field`` equals ``value``."""
        return frozenset(n for n, d in self.nets.items() if d[field] == value)

    def hrps(self) -> list[str]:
        return sorted({d["hrp"] for d in self.nets.values()})

    def xversions(self, private: bool) -> dict[bytes, frozenset]:
        out: dict[bytes, set] = {}
        for n, d in self.nets.items():
            for f in XPRV_FIELDS if private else XPUB_FIELDS:
                out.setdefault(d[f], set()).add(n)
        return {k: frozenset(v) for k, v in out.items()}

    def xversion_fields(self, version: bytes) -> set[str]:
        return {f for d in self.nets.values() for f in XPRV_FIELDS + XPUB_FIELDS if d[f] == version}


# ------------------------------------------------------------ output scripts
def spk_p2pkh(h160: bytes) -> bytes:
    return b"\x76\xa9\x14" + h160 + b"\x88\xac"


def spk_p2sh(h160: bytes) -> bytes:
    return b"\xa9\x14" + h160 + b"\x87"


def spk_witness(ver: int, prog: bytes) -> bytes:
    return bytes([0 if ver == 0 else 0x50 + ver, len(prog)]) + prog


def witness_program(spk: bytes):
    """Core's CScript::IsWitnessProgram: (version, program) or None."""
    if len(spk) < 4 or len(spk) > 42:
        return None
    if spk[0] != 0 and not 0x51 <= spk[0] <= 0x60:
        return None
    if spk[1] + 2 != len(spk):
        return None
    return (0 if spk[0] == 0 else spk[0] - 0x50), spk[2:]


def destination(spk: bytes):
    """What Core's ExtractDestination would encode: ('p2pkh'|'p2sh', h160) / ('witness', ver, prog) / None."""
    if len(spk) == 25 and spk[:3] == b"\x76\xa9\x14" and spk[23:] == b"\x88\xac":
        return ("p2pkh", spk[3:23])
    if len(spk) == 23 and spk[:2] == b"\xa9\x14" and spk[22:] == b"\x87":
        return ("p2sh", spk[2:22])
    wp = witness_program(spk)
    if wp is not None:
        ver, prog = wp
        if ver == 0 and len(prog) not in (20, 32):
            return None  # WitnessUnknown needs version != 0
        return ("witness", ver, prog)
    return None


def script_type(spk: bytes) -> str | None:
    """'p2pkh', 'p2sh', 'p2wpkh', 'p2wsh', 'p2tr', 'witness_unknown' or None (not addressable)."""
    d = destination(spk)
    if d is None:
        return None
    if d[0] != "witness":
        return d[0]
    _, ver, prog = d
    if ver == 0:
        return "p2wpkh" if len(prog) == 20 else "p2wsh"
    if ver == 1 and len(prog) == 32:
        return "p2tr"
    return "witness_unknown"


def address_of_script(nd: NetData, spk: bytes, net: str) -> str:
    """The address of an output script on a network; '' when it has none."""
    d = destination(spk)
    if d is None:
        return ""
    if d[0] in ("p2pkh", "p2sh"):
        return r58.check_encode(nd.value(net, d[0]) + d[1])
    return r32.segwit_encode(nd.value(net, "hrp"), d[1], d[2]) or ""


# ---------------------------------------------------------------- addresses
def decode_b58_address(nd: NetData, s: str):
    """(type, h160, networks) or None - Core DecodeDestination, base58 branch."""
    payload = r58.check_decode(s)
    if payload is None or len(payload) != 21:
        return None
    for typ in ("p2pkh", "p2sh"):
        nets = nd.sharing(typ, payload[:1])
        if nets:
            return typ, payload[1:], nets
    return None


def decode_segwit_address(nd: NetData, s: str):
    """(version, program, networks) or None."""
    hrp = r32.bech32_decode(s)[0]  # which HRP the string carries, if it is Bech32(m) at all
    if hrp is None or hrp not in nd.hrps():
        return None
    ver, prog = r32.segwit_decode(hrp, s)
    if ver is None:
        return None
    return ver, prog, nd.sharing("hrp", hrp)


def decode_address(nd: NetData, s: str):
    """(scriptPubKey, networks) for any address string, else None."""
    w = decode_segwit_address(nd, s)
    if w is not None:
        return spk_witness(w[0], w[1]), w[2]
    b = decode_b58_address(nd, s)
    if b is not None:
        return (spk_p2pkh(b[1]) if b[0] == "p2pkh" else spk_p2sh(b[1])), b[2]
    return None


# ---------------------------------------------------------------------- WIF
def encode_wif(nd: NetData, q: int, net: str, compressed: bool) -> str:
    return r58.check_encode(nd.value(net, "wif") + q.to_bytes(32, "big") + (b"\x01" if compressed else b""))


def decode_wif(nd: NetData, s: str):
    """(q, networks, compressed) or None - Core DecodeSecret plus the 1..n-1 range of CKey::Check."""
    payload = r58.check_decode(s)
    if payload is None or len(payload) < 1:
        return None
    nets = nd.sharing("wif", payload[:1])
    if not nets:
        return None
    body = payload[1:]
    if len(body) == 32:
        compressed = False
    elif len(body) == 33 and body[32] == 1:
        compressed, body = True, body[:32]
    else:
        return None
    q = int.from_bytes(body, "big")
    if not 0 < q < N:
        return None
    return q, nets, compressed


# ------------------------------------------------------------ extended keys
def encode_xkey(version: bytes, depth: int, fp: bytes, index: int, chain: bytes, key: bytes) -> str:
    return r58.check_encode(version + bytes([depth]) + fp + index.to_bytes(4, "big") + chain + key)


def decode_xkey(nd: NetData, s: str):
    """dict of fields or None (BIP32 serialization format + the 'invalid extended keys' rules)."""
    raw = r58.check_decode(s)
    if raw is None or len(raw) != 78:
        return None
    version, depth, fp, index, chain, key = raw[:4], raw[4], raw[5:9], int.from_bytes(raw[9:13], "big"), raw[13:45], raw[45:]
    prv, pub = nd.xversions(True), nd.xversions(False)
    if version in prv:
        if key[0] != 0 or not 0 < int.from_bytes(key[1:], "big") < N:
            return None
        private, nets = True, prv[version]
    elif version in pub:
        if not valid_pubkey33(key):
            return None
        private, nets = False, pub[version]
    else:
        return None
    if depth == 0 and (fp != b"\x00" * 4 or index != 0):
        return None
    return {"version": version, "depth": depth, "fp": fp, "index": index, "chain": chain, "key": key,
            "private": private, "nets": nets}


def decode_prvkey_string(nd: NetData, s: str):
    """What a *string* may mean as a private key: WIF, xprv, or 32 bytes of hex.  (kind, q, networks, compressed) or None."""
    w = decode_wif(nd, s)
    if w is not None:
        return ("wif", w[0], w[1], w[2])
    x = decode_xkey(nd, s)
    if x is not None and x["private"]:
        return ("xprv", int.from_bytes(x["key"][1:], "big"), x["nets"], True)
    if len(s) == 64 and re.fullmatch(r"[0-9a-fA-F]{64}", s):
        q = int(s, 16)
        if 0 < q < N:
            return ("hex", q, frozenset(["mainnet"]), True)
    return None


# ---------------------------------------------------------- silent payments
def encode_sp(scan33: bytes, spend33: bytes, ntype: str, version: int = 0, extra: bytes = b"", spec: str = r32.BECH32M,
              hrp: str | None = None) -> str:
    hrp = hrp or ("sp" if ntype == "main" else "tsp")
    return r32.bech32_encode(hrp, [version] + r32.convertbits(scan33 + spend33 + extra, 8, 5), spec)


def decode_sp(s: str):
    """(scan key 33 bytes, spend key 33 bytes, 'main'|'test') or None - BIP352 address rules."""
    hrp, data, spec = r32.bech32_decode(s, limit=1023)
    if hrp is None or spec != r32.BECH32M or hrp not in ("sp", "tsp") or not data:
        return None
    version = data[0]
    payload = r32.convertbits(data[1:], 5, 8, False)
    if payload is None or version == 31:
        return None
    payload = bytes(payload)
    if version == 0 and len(payload) != 66:
        return None
    if len(payload) < 66:
        return None
    scan, spend = payload[:33], payload[33:66]
    if not valid_pubkey33(scan) or not valid_pubkey33(spend):
        return None
    return scan, spend, ("main" if hrp == "sp" else "test")


# -------------------------------------------------------------------- BIP21
_UNRESERVED = set("ABCDEFGHIJKLMNOPQRSTUVWXYZabcdefghijklmnopqrstuvwxyz0123456789-._~")
# RFC 3986 query characters (pchar / "/" / "?") minus "=" and "&", as BIP21's qchar says
QCHAR = _UNRESERVED | set("!$'()*+,;:@/?")
_HEX = set("0123456789abcdefABCDEF")


def pct_decode(s: str):
    """Percent-decode a BIP21 value made of qchar / pct-encoded only; None when malformed or not UTF-8."""
    out = bytearray()
    i = 0
    while i < len(s):
        c = s[i]
        if c == "%":
            h = s[i + 1:i + 3]
            if len(h) != 2 or h[0] not in _HEX or h[1] not in _HEX:
                return None
            out.append(int(h, 16))
            i += 3
        elif c in QCHAR:
            out.append(ord(c))
            i += 1
        else:
            return None
    try:
        return out.decode("utf-8")
    except UnicodeDecodeError:
        return None


def pct_encode(s: str) -> str:
    """Most conservative encoding: everything but unreserved characters is escaped."""
    return "".join(ch if ch in _UNRESERVED else "".join(f"%{b:02X}" for b in ch.encode("utf-8")) for ch in s)


def amount_sats(s: str):
    """BIP21 amount (decimal BTC, grammar *digit [ "." *digit ]) in satoshi; None when not exactly representable."""
    if not re.fullmatch(r"[0-9]*(\.[0-9]*)?", s) or not any(ch.isdigit() for ch in s):
        return None
    ip, _, fp = s.partition(".")
    if fp[8:].strip("0"):
        return None
    return int(ip or "0") * 10**8 + int((fp[:8] + "0" * 8)[:8])


def parse_bip21(uri: str):
    """{'address', 'amount_sats', 'label', 'message', 'others'} or None."""
    if uri[:8].lower() != "bitcoin:":
        return None
    rest = uri[8:]
    address, sep, query = rest.partition("?")
    out = {"address": address, "amount_sats": None, "label": None, "message": None, "others": {}}
    if not sep or not query:
        return out
    for el in query.split("&"):
        k, eq, v = el.partition("=")
        key = pct_decode(k)
        if key is None or not key:
            return None
        if key == "amount":
            a = amount_sats(v)
            if a is None:
                return None
            out["amount_sats"] = a
        else:
            val = pct_decode(v)
            if val is None:
                return None
            if key in ("label", "message"):
                out[key] = val
            elif key.startswith("req-"):
                return None  # a required parameter nobody defined
            else:
                out["others"][key] = val
    return out
