"""BIP380 descriptor checksum, transcribed from the BIP's reference code (no btclib import)."""

INPUT_CHARSET = "0123456789()[],'/*abcdefgh@:$%{}IJKLMNOPQRSTUVWXYZ&+-.;<=>?!^_|~ijklmnopqrstuvwxyzABCDEFGH`#\"\\ "
CHECKSUM_CHARSET = "qpzry9x8gf2tvdw0s3jn54khce6mua7l"
GENERATOR = [0xF5DEE51989, 0xA9FDCA3312, 0x1BAB10E32D, 0x3706B1677A, 0x644D626FFD]


def descsum_polymod(symbols):
    chk = 1
    for value in symbols:
        top = chk >> 35
        chk = (chk & 0x7FFFFFFFF) << 5 ^ value
        for i in range(5):
            chk ^= GENERATOR[i] if ((top >> i) & 1) else 0
    return chk


def descsum_expand(s):
    groups = []
    symbols = []
    for c in s:
        if c not in INPUT_CHARSET:
            return None
        v = INPUT_CHARSET.find(c)
        symbols.append(v & 31)
        groups.append(v >> 5)
        if len(groups) == 3:
            symbols.append(groups[0] * 9 + groups[1] * 3 + groups[2])
            groups = []
    if len(groups) == 1:
        symbols.append(groups[0])
    elif len(groups) == 2:
        symbols.append(groups[0] * 3 + groups[1])
    return symbols


def descsum_create(s):
    """The 8-character checksum of ``s`` (without '#'), or None if ``s`` has a character outside the charset."""
    ex = descsum_expand(s)
    if ex is None:
        return None
    symbols = ex + [0, 0, 0, 0, 0, 0, 0, 0]
    checksum = descsum_polymod(symbols) ^ 1
    return "".join(CHECKSUM_CHARSET[(checksum >> (5 * (7 - i))) & 31] for i in range(8))
