"""BIP379 (miniscript) reference: expression tree, text reader/writer, fragment -> script table,
type table and a semantic evaluator of the spending condition.  No btclib import.

Written from the tables of BIP379 in the plainest way available:

* ``script_tokens`` is the translation table, row by row, over a token list (an opcode name,
  a data push or a number); ``v:`` looks at the *last token* of its argument, which is what the
  BIP says ("or VERIFY version of last opcode in [X]");
* ``holds`` evaluates the spending condition itself - which keys have signed, which preimages
  are known, what nLockTime / nSequence / nVersion the spending input carries - with BIP65 and
  BIP68/112 written out as the BIPs state them.  It knows nothing about witnesses;
* ``Node.t`` is the type (correctness, malleability and timelock-mixing tables).  The check uses
  it only to *steer a generator* and as a statistic, never as an oracle.

Every walk is iterative (``fold``): an expression nests as deep as its script is long.
"""

from __future__ import annotations

import hashlib
from dataclasses import dataclass, field

P2WSH = "P2WSH"
TAPSCRIPT = "tapscript"

WRAPPERS = ("a:", "s:", "c:", "d:", "v:", "j:", "n:")
HASHES = ("sha256", "hash256", "ripemd160", "hash160")
HASH_LEN = {"sha256": 32, "hash256": 32, "ripemd160": 20, "hash160": 20}
BINARY = ("and_v", "and_b", "or_b", "or_c", "or_d", "or_i")
LEAVES = ("0", "1", "pk_k", "pk_h", "older", "after", "multi", "multi_a") + HASHES
ALL_FRAGMENTS = LEAVES + WRAPPERS + BINARY + ("andor", "thresh")

LOCKTIME_THRESHOLD = 500000000          # BIP65
SEQ_DISABLE_FLAG = 1 << 31              # BIP68
SEQ_TYPE_FLAG = 1 << 22
SEQ_MASK = 0x0000FFFF
SEQ_FINAL = 0xFFFFFFFF

OPC = {
    "OP_IF": 0x63, "OP_NOTIF": 0x64, "OP_ELSE": 0x67, "OP_ENDIF": 0x68, "OP_VERIFY": 0x69,
    "OP_TOALTSTACK": 0x6B, "OP_FROMALTSTACK": 0x6C, "OP_IFDUP": 0x73, "OP_DUP": 0x76, "OP_SWAP": 0x7C,
    "OP_SIZE": 0x82, "OP_EQUAL": 0x87, "OP_EQUALVERIFY": 0x88, "OP_0NOTEQUAL": 0x92, "OP_ADD": 0x93,
    "OP_BOOLAND": 0x9A, "OP_BOOLOR": 0x9B, "OP_NUMEQUAL": 0x9C, "OP_NUMEQUALVERIFY": 0x9D,
    "OP_RIPEMD160": 0xA6, "OP_SHA256": 0xA8, "OP_HASH160": 0xA9, "OP_HASH256": 0xAA,
    "OP_CHECKSIG": 0xAC, "OP_CHECKSIGVERIFY": 0xAD, "OP_CHECKMULTISIG": 0xAE, "OP_CHECKMULTISIGVERIFY": 0xAF,
    "OP_CHECKLOCKTIMEVERIFY": 0xB1, "OP_CHECKSEQUENCEVERIFY": 0xB2, "OP_CHECKSIGADD": 0xBA,
}
VERIFY_VERSION = {"OP_EQUAL": "OP_EQUALVERIFY", "OP_NUMEQUAL": "OP_NUMEQUALVERIFY",
                  "OP_CHECKSIG": "OP_CHECKSIGVERIFY", "OP_CHECKMULTISIG": "OP_CHECKMULTISIGVERIFY"}
HASH_OP = {"sha256": "OP_SHA256", "hash256": "OP_HASH256", "ripemd160": "OP_RIPEMD160", "hash160": "OP_HASH160"}


def h_sha256(b: bytes) -> bytes:
    return hashlib.sha256(b).digest()


def h_hash256(b: bytes) -> bytes:
    return h_sha256(h_sha256(b))


def h_ripemd160(b: bytes) -> bytes:
    return hashlib.new("ripemd160", b).digest()


def h_hash160(b: bytes) -> bytes:
    return h_ripemd160(h_sha256(b))


HASH_FN = {"sha256": h_sha256, "hash256": h_hash256, "ripemd160": h_ripemd160, "hash160": h_hash160}


# ------------------------------------------------------------------ the tree
@dataclass(frozen=True, eq=False)
class Node:
    """One fragment.  ``keys`` are 33-byte compressed keys in both contexts (a tapscript writes bytes 1..33)."""

    frag: str
    ctx: str = P2WSH
    subs: tuple = ()
    keys: tuple = ()
    k: int = 0
    data: bytes = b""
    t: frozenset = field(init=False, default=frozenset())
    size: int = field(init=False, default=0)      # number of nodes, for generators

    def __post_init__(self):
        object.__setattr__(self, "t", _type_of(self))
        object.__setattr__(self, "size", 1 + sum(s.size for s in self.subs))

    @property
    def basic(self) -> str:
        b = self.t & frozenset("BVKW")
        return next(iter(b)) if len(b) == 1 else ""

    def has(self, props: str) -> bool:
        return bool(self.t) and all(p in self.t for p in props)


def fold(root: Node, f):
    """Post-order evaluation without recursion: f(node, [results of subs]) -> result."""
    stack = [(root, 0)]
    results: list = []
    while stack:
        node, i = stack[-1]
        if i < len(node.subs):
            stack[-1] = (node, i + 1)
            stack.append((node.subs[i], 0))
            continue
        stack.pop()
        cut = len(results) - len(node.subs)
        subs = results[cut:]
        del results[cut:]
        results.append(f(node, subs))
    return results[0]


def walk(root: Node):
    """Every node, parents first."""
    todo = [root]
    while todo:
        n = todo.pop()
        yield n
        todo.extend(reversed(n.subs))


def all_keys(root: Node) -> list:
    return [k for n in walk(root) for k in n.keys]


def has_duplicate_keys(root: Node) -> bool:
    ks = [k[1:] if root.ctx == TAPSCRIPT else k for k in all_keys(root)]
    return len(set(ks)) != len(ks)


# ------------------------------------------------------------- type table
def _mixed(x: frozenset, y: frozenset) -> bool:
    return (("g" in x and "h" in y) or ("h" in x and "g" in y) or ("i" in x and "j" in y) or ("j" in x and "i" in y))


def _type_of(n: Node) -> frozenset:
    """BIP379: correctness table (B V K W z o n d u), malleability table (s f e m), timelock mixing (g h i j k).

    The empty set where a requirement of the correctness table is not met (or an argument has no type).
    """
    f = n.frag
    xs = [s.t for s in n.subs]
    if any(not x for x in xs):
        return frozenset()

    def P(cond, props):
        return set(props) if cond else set()

    tl = set()
    for x in xs:
        tl |= x & set("ghij")
    r: set
    if f == "0":
        r = set("Bzudesmk")
    elif f == "1":
        r = set("Bzufmk")
    elif f == "pk_k":
        r = set("Kondusemk") if len(n.keys) == 1 else set()
    elif f == "pk_h":
        r = set("Kndusemk") if len(n.keys) == 1 else set()
    elif f == "older":
        r = (set("Bzfmk") | ({"g"} if n.k & SEQ_TYPE_FLAG else {"h"})) if 1 <= n.k < 2**31 else set()
    elif f == "after":
        r = (set("Bzfmk") | ({"i"} if n.k >= LOCKTIME_THRESHOLD else {"j"})) if 1 <= n.k < 2**31 else set()
    elif f in HASHES:
        r = set("Bondumk") if len(n.data) == HASH_LEN[f] else set()
    elif f == "multi":
        r = set("Bndusemk") if n.ctx == P2WSH and 1 <= n.k <= len(n.keys) <= 20 else set()
    elif f == "multi_a":
        r = set("Bdusemk") if n.ctx == TAPSCRIPT and 1 <= n.k <= len(n.keys) <= 999 else set()
    elif f == "a:":
        (x,) = xs
        r = P("B" in x, "W") | (x & set("dusfemk")) if "B" in x else set()
    elif f == "s:":
        (x,) = xs
        r = {"W"} | (x & set("dusfemk")) if {"B", "o"} <= x else set()
    elif f == "c:":
        (x,) = xs
        r = {"B", "u", "s"} | (x & set("ondfemk")) if "K" in x else set()
    elif f == "d:":
        (x,) = xs
        r = set("Bonde") | (x & set("smk")) | P(n.ctx == TAPSCRIPT, "u") if {"V", "z"} <= x else set()
    elif f == "v:":
        (x,) = xs
        r = {"V", "f"} | (x & set("zonsmk")) if "B" in x else set()
    elif f == "j:":
        (x,) = xs
        r = set("Bnd") | (x & set("ousmk")) | P("f" in x, "e") if {"B", "n"} <= x else set()
    elif f == "n:":
        (x,) = xs
        r = {"B", "u"} | (x & set("zondfesmk")) if "B" in x else set()
    elif f in ("and_v", "and_b"):
        x, y = xs
        if f == "and_v":
            ok = "V" in x and bool(y & set("BKV"))
            r = (y & set("BKV")) | P("u" in y, "u") | P("s" in x or "f" in y, "f")
        else:
            ok = "B" in x and "W" in y
            r = {"B", "u"} | P("d" in x and "d" in y, "d") | P({"e", "s"} <= x and {"e", "s"} <= y, "e")
            r |= P(("f" in x and "f" in y) or {"s", "f"} <= x or {"s", "f"} <= y, "f")
        r |= P("z" in x and "z" in y, "z") | P(("z" in x and "o" in y) or ("z" in y and "o" in x), "o")
        r |= P("n" in x or ("z" in x and "n" in y), "n") | P("s" in x or "s" in y, "s") | P("m" in x and "m" in y, "m")
        r |= P("k" in x and "k" in y and not _mixed(x, y), "k")
        r = r if ok else set()
    elif f == "or_b":
        x, z = xs
        ok = {"B", "d"} <= x and {"W", "d"} <= z
        r = set("Bdu") | P("z" in x and "z" in z, "z") | P(("z" in x and "o" in z) or ("z" in z and "o" in x), "o")
        r |= P("s" in x and "s" in z, "s") | P("e" in x and "e" in z, "e")
        r |= P("m" in x and "m" in z and "e" in x and "e" in z and ("s" in x or "s" in z), "m") | P("k" in x and "k" in z, "k")
        r = r if ok else set()
    elif f == "or_c":
        x, z = xs
        ok = {"B", "d", "u"} <= x and "V" in z
        r = {"V", "f"} | P("z" in x and "z" in z, "z") | P("o" in x and "z" in z, "o") | P("s" in x and "s" in z, "s")
        r |= P("m" in x and "m" in z and "e" in x and ("s" in x or "s" in z), "m") | P("k" in x and "k" in z, "k")
        r = r if ok else set()
    elif f == "or_d":
        x, z = xs
        ok = {"B", "d", "u"} <= x and "B" in z
        r = {"B"} | P("z" in x and "z" in z, "z") | P("o" in x and "z" in z, "o") | (z & set("dufe")) | P("s" in x and "s" in z, "s")
        r |= P("m" in x and "m" in z and "e" in x and ("s" in x or "s" in z), "m") | P("k" in x and "k" in z, "k")
        r = r if ok else set()
    elif f == "or_i":
        x, z = xs
        same = x & z & set("BKV")
        ok = bool(same)
        r = set(same) | P("z" in x and "z" in z, "o") | P("u" in x and "u" in z, "u") | P("d" in x or "d" in z, "d")
        r |= P("s" in x and "s" in z, "s") | P("f" in x and "f" in z, "f")
        r |= P(("e" in x and "f" in z) or ("e" in z and "f" in x), "e")
        r |= P("m" in x and "m" in z and ("s" in x or "s" in z), "m") | P("k" in x and "k" in z, "k")
        r = r if ok else set()
    elif f == "andor":
        x, y, z = xs
        same = y & z & set("BKV")
        ok = {"B", "d", "u"} <= x and bool(same)
        r = set(same) | P("z" in x and "z" in y and "z" in z, "z")
        r |= P(("z" in x and "o" in y and "o" in z) or ("o" in x and "z" in y and "z" in z), "o")
        r |= P("u" in y and "u" in z, "u") | P("d" in z, "d")
        r |= P("s" in z and ("s" in x or "s" in y), "s") | P("f" in z and ("s" in x or "f" in y), "f")
        r |= P("e" in z and ("s" in x or "f" in y), "e")
        r |= P("m" in x and "m" in y and "m" in z and "e" in x and ("s" in x or "s" in y or "s" in z), "m")
        r |= P("k" in x and "k" in y and "k" in z and not _mixed(x, y), "k")
        r = r if ok else set()
    elif f == "thresh":
        ok = bool(xs) and 1 <= n.k <= len(xs)
        for i, x in enumerate(xs):
            ok = ok and ({"B", "d", "u"} <= x if i == 0 else {"W", "d", "u"} <= x)
        args = sum(0 if "z" in x else 1 if "o" in x else 2 for x in xs)
        non_s = sum(1 for x in xs if "s" not in x)
        all_e = all("e" in x for x in xs)
        all_m = all("m" in x for x in xs)
        r = set("Bdu") | P(args == 0, "z") | P(args == 1, "o") | P(non_s <= n.k - 1, "s") | P(all_e and non_s == 0, "e")
        r |= P(all_e and all_m and non_s <= n.k, "m")
        k_ok = all("k" in x for x in xs)
        if n.k > 1:  # two branches with incompatible locks matter only where both may be needed
            for i in range(len(xs)):
                for j in range(i + 1, len(xs)):
                    if _mixed(xs[i], xs[j]):
                        k_ok = False
        r |= P(k_ok, "k")
        r = r if ok else set()
    else:
        return frozenset()
    if not r:
        return frozenset()
    return frozenset(r | tl)


def sane_guess(n: Node) -> bool:
    """BIP379 sanity less the resource limits: a B, non-malleable, signed, no timelock mix, no repeated key."""
    return n.has("Bmsk") and not has_duplicate_keys(n)


# ------------------------------------------------------------ script table
def _num(v: int):
    return ("num", v)


def _op(name: str):
    return ("op", name)


def _push(data: bytes):
    return ("push", data)


def _key_bytes(n: Node, key: bytes) -> bytes:
    return key[1:] if n.ctx == TAPSCRIPT else key


def _verify_last(tokens: list) -> list:
    """``[X] VERIFY`` (or VERIFY version of last opcode in [X])."""
    last = tokens[-1]
    if last[0] == "op" and last[1] in VERIFY_VERSION:
        return tokens[:-1] + [_op(VERIFY_VERSION[last[1]])]
    return tokens + [_op("OP_VERIFY")]


def _row(n: Node, s: list) -> list:
    """One row of BIP379's translation table; ``s`` are the token lists of the arguments."""
    f = n.frag
    if f == "0":
        return [_num(0)]
    if f == "1":
        return [_num(1)]
    if f == "pk_k":
        return [_push(_key_bytes(n, n.keys[0]))]
    if f == "pk_h":
        return [_op("OP_DUP"), _op("OP_HASH160"), _push(h_hash160(_key_bytes(n, n.keys[0]))), _op("OP_EQUALVERIFY")]
    if f == "older":
        return [_num(n.k), _op("OP_CHECKSEQUENCEVERIFY")]
    if f == "after":
        return [_num(n.k), _op("OP_CHECKLOCKTIMEVERIFY")]
    if f in HASHES:
        return [_op("OP_SIZE"), _num(32), _op("OP_EQUALVERIFY"), _op(HASH_OP[f]), _push(n.data), _op("OP_EQUAL")]
    if f == "andor":
        return s[0] + [_op("OP_NOTIF")] + s[2] + [_op("OP_ELSE")] + s[1] + [_op("OP_ENDIF")]
    if f == "and_v":
        return s[0] + s[1]
    if f == "and_b":
        return s[0] + s[1] + [_op("OP_BOOLAND")]
    if f == "or_b":
        return s[0] + s[1] + [_op("OP_BOOLOR")]
    if f == "or_c":
        return s[0] + [_op("OP_NOTIF")] + s[1] + [_op("OP_ENDIF")]
    if f == "or_d":
        return s[0] + [_op("OP_IFDUP"), _op("OP_NOTIF")] + s[1] + [_op("OP_ENDIF")]
    if f == "or_i":
        return [_op("OP_IF")] + s[0] + [_op("OP_ELSE")] + s[1] + [_op("OP_ENDIF")]
    if f == "thresh":
        out = list(s[0])
        for x in s[1:]:
            out += x + [_op("OP_ADD")]
        return out + [_num(n.k), _op("OP_EQUAL")]
    if f == "multi":
        return [_num(n.k)] + [_push(_key_bytes(n, k)) for k in n.keys] + [_num(len(n.keys)), _op("OP_CHECKMULTISIG")]
    if f == "multi_a":
        out = [_push(_key_bytes(n, n.keys[0])), _op("OP_CHECKSIG")]
        for k in n.keys[1:]:
            out += [_push(_key_bytes(n, k)), _op("OP_CHECKSIGADD")]
        return out + [_num(n.k), _op("OP_NUMEQUAL")]
    if f == "a:":
        return [_op("OP_TOALTSTACK")] + s[0] + [_op("OP_FROMALTSTACK")]
    if f == "s:":
        return [_op("OP_SWAP")] + s[0]
    if f == "c:":
        return s[0] + [_op("OP_CHECKSIG")]
    if f == "d:":
        return [_op("OP_DUP"), _op("OP_IF")] + s[0] + [_op("OP_ENDIF")]
    if f == "v:":
        return _verify_last(s[0])
    if f == "j:":
        return [_op("OP_SIZE"), _op("OP_0NOTEQUAL"), _op("OP_IF")] + s[0] + [_op("OP_ENDIF")]
    if f == "n:":
        return s[0] + [_op("OP_0NOTEQUAL")]
    raise ValueError(f"unknown fragment {f}")


def script_tokens(root: Node) -> list:
    return fold(root, _row)


def scriptnum(v: int) -> bytes:
    """CScriptNum::serialize."""
    if v == 0:
        return b""
    neg, a = v < 0, abs(v)
    out = bytearray()
    while a:
        out.append(a & 0xFF)
        a >>= 8
    if out[-1] & 0x80:
        out.append(0x80 if neg else 0)
    elif neg:
        out[-1] |= 0x80
    return bytes(out)


def push_bytes(data: bytes) -> bytes:
    n = len(data)
    if n < 0x4C:
        return bytes([n]) + data
    if n <= 0xFF:
        return bytes([0x4C, n]) + data
    return bytes([0x4D, n & 0xFF, n >> 8]) + data


def serialize(tokens: list) -> bytes:
    out = bytearray()
    for kind, v in tokens:
        if kind == "op":
            out.append(OPC[v])
        elif kind == "push":
            out += push_bytes(v)
        elif v == 0:
            out.append(0x00)
        elif 1 <= v <= 16:
            out.append(0x50 + v)
        else:
            out += push_bytes(scriptnum(v))
    return bytes(out)


def script(root: Node) -> bytes:
    return serialize(script_tokens(root))


def count_ops(tokens: list) -> int:
    """Non-push opcodes of the script (what Core's nOpCount counts, CHECKMULTISIG keys aside)."""
    return sum(1 for kind, _ in tokens if kind == "op")


# ------------------------------------------------------------------- text
def text(root: Node, sugar: bool = True, xonly: frozenset = frozenset()) -> str:
    """BIP379 text.  ``sugar=False`` writes every fragment by its own name (no pk/pkh/and_n/t:/l:/u:).

    Keys are written as 33-byte hex, those in ``xonly`` as the 32 bytes of their x coordinate.
    """

    def key_text(n: Node, k: bytes) -> str:
        return k[1:].hex() if k in xonly else k.hex()

    def f(n: Node, s: list) -> tuple:
        """(wrapper letters, body)"""
        fr = n.frag
        join = lambda wb: (wb[0] + ":" + wb[1]) if wb[0] else wb[1]  # noqa: E731
        if fr in WRAPPERS:
            if sugar and fr == "c:" and n.subs[0].frag in ("pk_k", "pk_h"):
                return ("", ("pk(" if n.subs[0].frag == "pk_k" else "pkh(") + key_text(n, n.subs[0].keys[0]) + ")")
            return (fr[0] + s[0][0], s[0][1])
        if sugar and fr == "and_v" and n.subs[1].frag == "1":
            return ("t" + s[0][0], s[0][1])
        if sugar and fr == "or_i" and n.subs[0].frag == "0":
            return ("l" + s[1][0], s[1][1])
        if sugar and fr == "or_i" and n.subs[1].frag == "0":
            return ("u" + s[0][0], s[0][1])
        if sugar and fr == "andor" and n.subs[2].frag == "0":
            return ("", "and_n(" + join(s[0]) + "," + join(s[1]) + ")")
        if fr in ("0", "1"):
            return ("", fr)
        if fr in ("pk_k", "pk_h"):
            return ("", f"{fr}({key_text(n, n.keys[0])})")
        if fr in ("older", "after"):
            return ("", f"{fr}({n.k})")
        if fr in HASHES:
            return ("", f"{fr}({n.data.hex()})")
        if fr in ("multi", "multi_a"):
            return ("", f"{fr}({n.k}," + ",".join(key_text(n, k) for k in n.keys) + ")")
        if fr == "thresh":
            return ("", f"thresh({n.k}," + ",".join(join(x) for x in s) + ")")
        return ("", f"{fr}(" + ",".join(join(x) for x in s) + ")")

    w, b = fold(root, f)
    return (w + ":" + b) if w else b


class ParseError(ValueError):
    pass


def parse(s: str, ctx: str = P2WSH) -> Node:
    """Read BIP379 text (keys as 33-byte hex; a 32-byte hex key is read as its even-y lift)."""
    pos = 0

    def err(msg):
        raise ParseError(f"{msg} at {pos}: {s[pos:pos + 30]!r}")

    def expect(ch):
        nonlocal pos
        if s[pos:pos + 1] != ch:
            err(f"expected {ch!r}")
        pos += 1

    def number():
        nonlocal pos
        j = pos
        while j < len(s) and s[j].isdigit():
            j += 1
        if j == pos:
            err("number expected")
        v = int(s[pos:j])
        pos = j
        return v

    def hexarg():
        nonlocal pos
        j = pos
        while j < len(s) and s[j] in "0123456789abcdefABCDEF":
            j += 1
        if j == pos or (j - pos) % 2:
            err("hex expected")
        v = bytes.fromhex(s[pos:j])
        pos = j
        return v

    def key():
        b = hexarg()
        if len(b) == 32:
            b = b"\x02" + b
        if len(b) != 33 or b[0] not in (2, 3):
            err("compressed key expected")
        return b

    def expr(depth=0) -> Node:
        nonlocal pos
        if depth > 150:
            err("too deep for the reference parser")
        # wrappers: a run of letters ended by a colon
        j = pos
        while j < len(s) and s[j].isalpha():
            j += 1
        letters = ""
        if j < len(s) and s[j] == ":" and j > pos:
            letters = s[pos:j]
            pos = j + 1
        node = fragment(depth)
        for ch in reversed(letters):
            if ch + ":" in WRAPPERS:
                node = Node(ch + ":", ctx, (node,))
            elif ch == "t":
                node = Node("and_v", ctx, (node, Node("1", ctx)))
            elif ch == "l":
                node = Node("or_i", ctx, (Node("0", ctx), node))
            elif ch == "u":
                node = Node("or_i", ctx, (node, Node("0", ctx)))
            else:
                err(f"unknown wrapper {ch}")
        return node

    def fragment(depth) -> Node:
        nonlocal pos
        j = pos
        while j < len(s) and (s[j].isalnum() or s[j] == "_"):
            j += 1
        name = s[pos:j]
        if name in ("0", "1"):
            pos = j
            return Node(name, ctx)
        pos = j
        expect("(")
        if name in ("pk", "pkh", "pk_k", "pk_h"):
            k = key()
            expect(")")
            leaf = Node("pk_h" if name in ("pkh", "pk_h") else "pk_k", ctx, keys=(k,))
            return leaf if name.startswith("pk_") else Node("c:", ctx, (leaf,))
        if name in ("older", "after"):
            v = number()
            expect(")")
            return Node(name, ctx, k=v)
        if name in HASHES:
            d = hexarg()
            expect(")")
            return Node(name, ctx, data=d)
        if name in ("multi", "multi_a"):
            v = number()
            ks = []
            while s[pos:pos + 1] == ",":
                pos += 1
                ks.append(key())
            expect(")")
            return Node(name, ctx, keys=tuple(ks), k=v)
        if name == "thresh":
            v = number()
            subs = []
            while s[pos:pos + 1] == ",":
                pos += 1
                subs.append(expr(depth + 1))
            expect(")")
            return Node("thresh", ctx, tuple(subs), k=v)
        if name in BINARY or name in ("andor", "and_n"):
            want = 3 if name == "andor" else 2
            subs = [expr(depth + 1)]
            for _ in range(want - 1):
                expect(",")
                subs.append(expr(depth + 1))
            expect(")")
            if name == "and_n":
                return Node("andor", ctx, (subs[0], subs[1], Node("0", ctx)))
            return Node(name, ctx, tuple(subs))
        err(f"unknown fragment {name!r}")
        raise AssertionError

    node = expr()
    if pos != len(s):
        err("trailing characters")
    return node


# ------------------------------------------------------- spending condition
@dataclass(frozen=True)
class Env:
    """What is available to a spender, and the three transaction fields the timelocks are checked against."""

    signed: frozenset          # 33-byte keys (as in Node.keys) for which a valid signature is available
    preimages: frozenset       # (hash fragment name, digest) whose 32-byte preimage is known
    version: int = 2
    locktime: int = 0
    sequence: int = 0


def after_met(n: int, env: Env) -> bool:
    """BIP65: OP_CHECKLOCKTIMEVERIFY with ``n`` on the stack does not fail."""
    if n < 0:
        return False
    if (n < LOCKTIME_THRESHOLD) != (env.locktime < LOCKTIME_THRESHOLD):
        return False          # the lock-time types differ
    if n > env.locktime:
        return False
    if env.sequence == SEQ_FINAL:
        return False          # the input is final: nLockTime is not enforced
    return True


def older_met(n: int, env: Env) -> bool:
    """BIP112: OP_CHECKSEQUENCEVERIFY with ``n`` on the stack does not fail (and constrains something)."""
    if n < 0:
        return False
    if n & SEQ_DISABLE_FLAG:
        return True           # behaves as a NOP; miniscript never writes such an n (n < 2^31)
    if (env.version & 0xFFFFFFFF) < 2:
        return False
    if env.sequence & SEQ_DISABLE_FLAG:
        return False
    if (n & SEQ_TYPE_FLAG) != (env.sequence & SEQ_TYPE_FLAG):
        return False
    return (n & SEQ_MASK) <= (env.sequence & SEQ_MASK)


def _key_id(n: Node, key: bytes) -> bytes:
    # a tapscript key is its x coordinate: the two 33-byte spellings are one key there
    return b"\x02" + key[1:] if n.ctx == TAPSCRIPT else key


def holds(root: Node, env: Env) -> bool:
    """Is the spending condition the expression denotes true for what ``env`` makes available?

    BIP379 semantics column: 0 false, 1 true, a key fragment "signed by key", a hash fragment "preimage
    known", older/after the two lock-time rules, and_* conjunction, or_* disjunction, andor (X and Y) or Z,
    thresh / multi at-least-k, wrappers transparent.
    """
    signed = {(b"\x02" + k[1:]) if root.ctx == TAPSCRIPT else k for k in env.signed}

    def f(n: Node, s: list) -> bool:
        fr = n.frag
        if fr == "0":
            return False
        if fr == "1":
            return True
        if fr in ("pk_k", "pk_h"):
            return _key_id(n, n.keys[0]) in signed
        if fr in ("multi", "multi_a"):
            return sum(1 for k in n.keys if _key_id(n, k) in signed) >= n.k
        if fr == "older":
            return older_met(n.k, env)
        if fr == "after":
            return after_met(n.k, env)
        if fr in HASHES:
            return (fr, n.data) in env.preimages
        if fr in WRAPPERS:
            return s[0]
        if fr in ("and_v", "and_b"):
            return s[0] and s[1]
        if fr in ("or_b", "or_c", "or_d", "or_i"):
            return s[0] or s[1]
        if fr == "andor":
            return (s[0] and s[1]) or s[2]
        if fr == "thresh":
            return sum(1 for x in s if x) >= n.k
        raise ValueError(fr)

    return fold(root, f)
